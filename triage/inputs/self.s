main:
.include "self.s"
 li a7, 10
 ecall
