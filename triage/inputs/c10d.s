main:
    jal fa
    jal fc
    jal fd
    li a7, 10
    ecall
fa:
    addi a0, a0, 1
fc:
fd:
    addi a0, a0, 2
    ret
