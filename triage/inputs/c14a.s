main:
    li a0, 1
    jal foo
    li a7, 10
    ecall
foo:
    beqz a0, other
    li a0, 3
    ret
other:
    li a0, 4
    ret
