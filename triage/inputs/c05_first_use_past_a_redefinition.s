main:
    li a0, 1
    jal f
    beqz a0, L
    nop
    nop
    addi a1, t0, 1
    j end
L:
    li t0, 3
    addi a1, t0, 2
end:
    mv a0, a1
    li a7, 1
    ecall
    li a7, 10
    ecall
f:
    addi a0, a0, 1
    ret
