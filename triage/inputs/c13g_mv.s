main:
    jal f
    li a7, 10
    ecall
f:
    addi sp, sp, -16
    sw s0, 0(sp)
    mv s0, sp
    addi t0, t0, 1
    mv sp, s0
    lw s0, 0(sp)
    addi sp, sp, 16
    ret
