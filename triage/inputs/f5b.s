main:
 addi sp, sp, 0x7fffffff
 sw t0, 0x7fffffff(sp)
 li a7, 10
 ecall
