.macro done
    li a7, 10
    ecall
.end_macro
main:
    addi t0, t0, 1
    frobnicate
    li a7, 10
    ecall
