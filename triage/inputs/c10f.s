f:
    addi a0, a0, 1
    beqz a0, L
    ret
L:
    j f
main:
    jal f
    li a7, 10
    ecall
