main:
 jal helper
 li a7, 10
 ecall
.include "inc.s"
