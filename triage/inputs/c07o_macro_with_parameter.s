.macro push %r
    addi sp, sp, -4
    sw %r, 0(sp)
.end_macro
main:
    li a7, 10
    ecall
