main:
    li a0, 3
    jal f
    li a7, 10
    ecall
f:
    addi sp, sp, -4
    addi a0, a0, -1
    bnez a0, f
    addi sp, sp, 4
    ret
