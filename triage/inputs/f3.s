main:
 csrr t0, 64
 mv a0, t0
 li a7, 1
 ecall
 li a7, 10
 ecall
