main:
    li t0, 5
    li a0, 1
    jal f
    beqz a0, L
    addi a1, t0, 1
    j end
L:
    addi a1, t0, 2
end:
    mv a0, a1
    li a7, 1
    ecall
    li a7, 10
    ecall
f:
    addi a0, a0, 1
    ret
