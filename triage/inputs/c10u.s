main:
 j aaa
 j bbb
