main:
    li a7, 10
    ecall
    addi t0, t0