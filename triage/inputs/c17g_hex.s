main:
    li a0, 0xFFFFFFFF
    li a7, 1
    ecall
    li a7, 10
    ecall
