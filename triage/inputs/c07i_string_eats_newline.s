main:
    li a0, "x"
    frobnicate
    li a7, 10
    ecall
