main:
 li t0, -0xFFFFFFFF
 li t1, -2147483648
 li t2, -0x80000001
 mv a0, t0
 li a7, 1
 ecall
 li a7, 10
 ecall
