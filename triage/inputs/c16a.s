main:
 j end
end:
