main:
    li t0, 5
    csrw t0, uscratch
    li t1, 2
    csrs t1, uscratch
    csrr a7, uscratch
    ecall
    li a7, 10
    ecall
