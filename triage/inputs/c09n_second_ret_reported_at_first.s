main:
    jal f
    li a7, 10
    ecall
f:
    beqz a0, other
    li a0, 1
    ret
other:
    li a0, 2
.data
    ret
