main:
 addi t0, zero, 1
 @
 add s0, s0, s0
 li a7, 10
 ecall
