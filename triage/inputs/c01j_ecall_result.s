main:
    li a0, 10
    li a7, 5
    ecall
    addi a7, a0, 0
    ecall
    addi t0, a0, 1
    li a7, 10
    ecall
