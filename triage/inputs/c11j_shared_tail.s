main:
    jal fn_a
    jal fn_b
    li a7, 10
    ecall
fn_a:
    li a0, 1
    j tail
fn_b:
    li a0, 2
tail:
    addi a0, a0, 1
    ret
