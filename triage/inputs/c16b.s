main:
 jal f
 li a7, 10
 ecall
f:
 li a7, 10
 ecall
