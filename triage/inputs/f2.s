main:
 li t0, 0x80000000
 li t1, -1
 div t2, t0, t1
 mv a0, t2
 li a7, 1
 ecall
 li a7, 10
 ecall
