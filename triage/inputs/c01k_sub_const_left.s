main:
    addi sp, sp, -16
    li t0, 16
    sub t1, t0, sp
    mv a0, t1
    li a7, 1
    ecall
    addi sp, sp, 16
    li a7, 10
    ecall
