main:
 addi a0, a0
 frobnicate
 li a7, 10
 ecall
