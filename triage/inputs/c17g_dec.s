main:
    li a0, 4294967295
    li a7, 1
    ecall
    li a7, 10
    ecall
