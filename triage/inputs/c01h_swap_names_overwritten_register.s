main:
    li t0, 1
    csrw t0, uscratch
    jal f
    li a7, 10
    ecall
f:
    csrrw a0, uscratch, a0
    csrr a7, uscratch
    ecall
    ret
