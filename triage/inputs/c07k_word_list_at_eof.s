main:
    li a7, 10
    ecall
.data
x: .word 1, 2, 3