main:
 div t0, x0, x0
 addi a0, t0, 0
 li a7, 1
 ecall
 li a7, 10
 ecall
