main:
 addi t0, zero, 1
 li a7, 10
 ecall
