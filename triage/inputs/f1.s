main:
 li t0, 5
 snez a0, t0
 li a7, 1
 ecall
 li a7, 10
 ecall
