main:
 li t0, 0x7fffffff
 addi t0, t0, 1
 mv a0, t0
 li a7, 1
 ecall
 li a7, 10
 ecall
