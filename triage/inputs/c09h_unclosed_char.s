main:
    li a0, '
    li a7, 10
    ecall
