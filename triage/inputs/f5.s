main:
 addi sp, sp, 0x7fffffff
 addi sp, sp, 0x7fffffff
 li a7, 10
 ecall
