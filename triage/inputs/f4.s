main:
 la a0, msg
 li a1, 1
 li a7, 55
 ecall
 li a7, 10
 ecall
.data
msg: .string "hi"
