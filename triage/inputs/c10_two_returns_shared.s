main:
    jal fa
    jal fb
    li a7, 10
    ecall
fb:
    addi a0, a0, 1
shared:
    ret
fa:
    beqz a0, shared
    ret
