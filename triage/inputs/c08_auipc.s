main:
    auipc t0, 1
    addi t1, t0, 4
    mv a0, t1
    li a7, 1
    ecall
    li a7, 10
    ecall
