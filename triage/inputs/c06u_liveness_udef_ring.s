main:
    li t0, 1
H:
    addi t1, t1, 1
    addi t2, t2, 1
B:
    bne t1, t2, H
    beq t1, x0, done
Z:  jal t0, B
done:
    li a7, 10
    ecall
