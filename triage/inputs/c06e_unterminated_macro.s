main:
    li a7, 10
    ecall
.macro foo
    addi t0, t0, 1
