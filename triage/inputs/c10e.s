main:
    jal fa
    jal fb
    li a7, 10
    ecall
fa:
fb:
    addi s0, zero, 2
    ret
