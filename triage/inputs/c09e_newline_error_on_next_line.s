main:
    add a0, a1
    li a7, 10
    ecall
