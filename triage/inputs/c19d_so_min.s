main:
    addi sp, sp, -2147483648
    sw a0, 0(sp)
    lw a1, 0(sp)
    li a7, 10
    ecall
