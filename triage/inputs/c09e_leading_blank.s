

main:
 addi x0, t0, 1
 li t3, 4
 li a7, 10
 ecall
