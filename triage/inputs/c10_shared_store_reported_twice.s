main:
    jal fa
    jal fb
    li a7, 10
    ecall
fa:
    addi a0, a0, 1
fb:
    li s0, 5
    ret
