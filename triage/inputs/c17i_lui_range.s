main:
    lui a0, 0x100000
    lui a1, 0xFFFFF
    lui a2, -1
    li a7, 10
    ecall
