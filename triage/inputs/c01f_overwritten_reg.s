main:
    addi sp, sp, -16
    sw zero, 0(sp)
    lw t0, 0(sp)
    li t0, 7
    mv a0, t0
    li a7, 1
    ecall
    addi sp, sp, 16
    li a7, 10
    ecall
