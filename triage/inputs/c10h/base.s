main:
 li t1, 3
 jal helper
 li a7, 10
 ecall
.include "inc.s"
