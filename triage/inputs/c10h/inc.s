helper:
 addi t0, zero, 1
 ret
