main:
 li a7, 10
 ecall
f:
 jalr t0, 4