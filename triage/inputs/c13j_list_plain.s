.data
arr: .word 1
  2
.text
main:
 li a7, 10
 ecall
