main:
    li a7, 10
    ecall
.include "c.s"
.include "c.s"
