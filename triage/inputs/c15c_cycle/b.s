foo:
    ret
.include "a.s"
