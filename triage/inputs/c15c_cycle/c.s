# nothing
