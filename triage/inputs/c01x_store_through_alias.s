main:
    addi sp, sp, -16
    li t0, 7
    sw t0, 4(sp)
    addi t1, sp, 4
    sw zero, 0(t1)
    lw a7, 4(sp)
    ecall
    addi sp, sp, 16
    li a7, 10
    ecall
