main:
    jal f
    li a7, 10
    ecall
f:
    addi sp, sp, -16
    sw s0, 0(sp)
    addi s0, sp, 0
    addi t0, t0, 1
    addi sp, s0, 0
    lw s0, 0(sp)
    addi sp, sp, 16
    ret
