main:
    li a7, 10
    ecall
    lw t0, 0(sp)   # c
    addi t1, t1, 1
