main:
    li a7, 10
    beq a0, zero, L
    li a7, 93
    ecall
L:  ecall
    addi a0, a0, 1
    li a7, 10
    ecall
