main:
    li a0, 1
    jal __return__
    li a7, 10
    ecall
__return__:
    beqz a0, other
    li a0, 3
    ret
other:
    li a0, 4
    ret
