main:
    la t1, f
    li t0, 5
    li a7, 1
    jalr ra, t1, 0
    ecall
    li a7, 10
    ecall
f:
    li a7, 4
    li t0, 9
    ret
