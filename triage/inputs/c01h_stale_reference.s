main:
    addi sp, sp, -16
    li a7, 5
    ecall
    sw a0, 0(sp)
    li a0, 9
    lw t1, 0(sp)
    mv a0, t1
    li a7, 1
    ecall
    addi sp, sp, 16
    li a7, 10
    ecall
