main:
    li a7, 5
    ecall
    mv a7, a0
    li a0, 65
    ecall
    li a7, 10
    ecall
