main:
S3: addi t1, t1, 1
    j S1
S2: addi t2, t2, 1
    j S3
S1: addi t3, t3, 1
    beq t1, t2, S2
    li a7, 10
    ecall
