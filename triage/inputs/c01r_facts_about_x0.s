main:
    li t1, 77
    sw t1, 0(sp)
    addi x0, sp, 0
    lw t0, 0(x0)
    addi x0, x0, 5
    add a0, t0, zero
    li a7, 1
    ecall
    li a7, 10
    ecall
