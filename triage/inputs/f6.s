main:
 li a0, -0x80000000
 li a7, 1
 ecall
 li a7, 10
 ecall
