main:
    li a7, 10
    ecall
f:
    j x