main:
    li a0, "abc
    li a7, 10
    ecall
