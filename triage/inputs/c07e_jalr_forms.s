main:
    jalr t0 foo
    jalr t0 # c
    jalr t0
    jalr t0, t1, 4
    jalr t0, 4(t1)
    jalr t0, 4
    jalr t0, (t1)
    li a7, 10
    ecall
