main:
 sw t0, 0x80000000(sp)
 li a7, 10
 ecall
