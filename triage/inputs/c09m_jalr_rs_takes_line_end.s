main:
    la t1, f
    jalr t1
    jalr t0 # c
    li a7, 10
    ecall
f:
    ret
