main:
    addi sp, sp, -16
    li t0, 0x1234
    sw zero, 0(sp)
    sb t0, 0(sp)
    lw t1, 0(sp)
    mv a0, t1
    li a7, 1
    ecall
    addi sp, sp, 16
    li a7, 10
    ecall
