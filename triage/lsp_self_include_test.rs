// Demonstration for known finding C15.c.reimport-guard|LSPFileReader|no-guard (run in a scratch worktree,
// appended to riscv_analysis_lsp/src/lsp/mod.rs; `ulimit -v 3000000; cargo test -p riscv_analysis_lsp --lib verif_demo`
// => "memory allocation of .. bytes failed", SIGABRT after > 60 s).
#[cfg(test)]
mod verif_demo {
    use super::*;
    use riscv_analysis::parser::RVParser;
    #[test]
    fn self_include_terminates() {
        let doc = RVDocument { uri: "file:///a.s".to_string(), text: ".include \"a.s\"\nmain:\n li a7, 10\n ecall\n".to_string() };
        let mut p = RVParser::new(LSPFileReader::new(vec![doc]));
        let (nodes, errs) = p.parse_from_file("file:///a.s", false);
        assert!(nodes.len() < 100 && errs.len() < 100);
    }
}
