"""G1 item 4 — RefCell guard-liveness (field-sensitive, object-insensitive) on MIR.

A `Ref`/`RefMut` guard of cell (Struct, field) that is live across a call which may
`borrow_mut` the same cell (or `borrow` it, for a RefMut guard) is a possible
BorrowError/BorrowMutError panic.  Receivers are not distinguished (object-insensitive),
so a report can be exempted with the argument why the two objects differ."""
import re
from collections import defaultdict
from .facts import *
from .mirutil import Body

BORROW = re.compile(r"^core::cell::RefCell::<T>::(borrow|try_borrow)$")
BORROW_MUT = re.compile(r"^core::cell::RefCell::<T>::(borrow_mut|try_borrow_mut|replace|swap|replace_with|take)$")
GUARD_TY = re.compile(r"^core::cell::(Ref|RefMut)<")


def struct_of(ty):
    t = ty.strip()
    while t.startswith("&"):
        t = t[1:].lstrip()
        if t.startswith("mut "):
            t = t[4:]
        t = re.sub(r"^'\w+\s+", "", t)
    return re.sub(r"<.*$", "", t)


class CellAnalysis:
    def __init__(self, F):
        self.F = F
        self.bodies = {}
        self.direct = {}      # fn -> {"mut": set(cells), "read": set(cells), "ret": cell|None}
        self.summ = None

    def body(self, p):
        if p not in self.bodies:
            self.bodies[p] = Body(self.F.fns[p])
        return self.bodies[p]

    def cell_of_arg(self, B, op):
        """cell denoted by a `&RefCell` operand: (struct, field) | ('PARAM', i) | ('?', '?')"""
        v = B.trace(op)
        if v[0] == "ref":
            v = v[1]
        if v[0] == "proj":
            base, proj = v[1], [p for p in v[2]]
            fields = [p for p in proj if p.startswith("f")]
            if base[0] == "param":
                st = struct_of(B.ty(base[1]))
                if not fields:
                    return ("PARAM", base[1])
                try:
                    sf = self.F.struct_fields(st)
                    return (st, sf[int(fields[-1][1:])][0])
                except Exception:
                    return ("?", "?")
            # base is a call result (e.g. Rc::deref(..)) or local: find its type through the traced local if any
            if base[0] in ("local",) and fields:
                st = struct_of(base[3])
                try:
                    sf = self.F.struct_fields(st)
                    return (st, sf[int(fields[-1][1:])][0])
                except Exception:
                    return ("?", "?")
        if v[0] == "param":
            return ("PARAM", v[1])
        return ("?", "?")

    def compute_direct(self):
        for p, f in self.F.fns.items():
            if "mir" not in f:
                continue
            B = self.body(p)
            d = {"mut": set(), "read": set(), "ret": None}
            for bi, t in B.calls():
                c = t.get("resolved") or t.get("callee") or ""
                if BORROW_MUT.match(c):
                    d["mut"].add(self.cell_of_arg(B, t["args"][0]))
                elif BORROW.match(c):
                    cell = self.cell_of_arg(B, t["args"][0])
                    d["read"].add(cell)
                    if t["dest"]["l"] == 0:
                        d["ret"] = ("read", cell)
                if BORROW_MUT.match(c) and t["dest"]["l"] == 0:
                    d["ret"] = ("mut", self.cell_of_arg(B, t["args"][0]))
            self.direct[p] = d

    def subst(self, cell, B, t):
        """instantiate a callee-relative cell at call site t of body B"""
        if cell[0] != "PARAM":
            return cell
        i = cell[1] - 1
        if i >= len(t["args"]):
            return ("?", "?")
        return self.cell_of_arg(B, t["args"][i])

    def summaries(self):
        if self.summ is not None:
            return self.summ
        self.compute_direct()
        F = self.F
        F.callgraph()
        summ = {p: {"mut": set(d["mut"]), "read": set(d["read"])} for p, d in self.direct.items()}
        changed = True
        it = 0
        while changed and it < 50:
            changed = False
            it += 1
            for p in summ:
                B = self.body(p)
                for bi, t, targets in F.call_sites(p):
                    for q in targets:
                        if q not in summ or (p, q) in F._generic_edges:
                            continue
                        for kind in ("mut", "read"):
                            for cell in list(summ[q][kind]):
                                c2 = self.subst(cell, B, t)
                                if c2 not in summ[p][kind]:
                                    summ[p][kind].add(c2)
                                    changed = True
                # closures defined in p run (at most) when p's callees invoke them: attach
                for cpath in F.closures_of(p):
                    if cpath in summ:
                        for kind in ("mut", "read"):
                            for cell in summ[cpath][kind]:
                                if cell[0] != "PARAM" and cell not in summ[p][kind]:
                                    summ[p][kind].add(cell)
                                    changed = True
        self.summ = summ
        return summ

    def guards_in(self, p):
        """[(guard local, kind 'read'|'mut', cell, creation block)] for body p"""
        B = self.body(p)
        out = []
        for bi, t in B.calls():
            dl = t["dest"]["l"]
            if t["dest"]["p"] or not GUARD_TY.match(B.ty(dl)) or dl == 0:
                continue
            c = t.get("resolved") or t.get("callee") or ""
            if BORROW.match(c):
                out.append((dl, "read", self.cell_of_arg(B, t["args"][0]), bi, t))
            elif BORROW_MUT.match(c):
                out.append((dl, "mut", self.cell_of_arg(B, t["args"][0]), bi, t))
            elif c in self.direct and self.direct[c]["ret"]:
                kind, cell = self.direct[c]["ret"]
                out.append((dl, kind, self.subst(cell, B, t), bi, t))
            else:
                out.append((dl, "read" if B.ty(dl).startswith("core::cell::Ref<") else "mut", ("?", "?"), bi, t))
        return out

    def live_calls(self, p, guard_local, create_bb):
        """call terminators executed while the guard is live: reachable from the creation block's
        successor without passing a `Drop(guard)` terminator or a move of the guard."""
        B = self.body(p)
        start = B.blocks[create_bb]["term"].get("target")
        if start is None:
            return []
        seen = set()
        st = [start]
        out = []
        while st:
            b = st.pop()
            if b in seen:
                continue
            seen.add(b)
            blk = B.blocks[b]
            moved = False
            for s in blk["stmts"]:
                if s["k"] == "Assign" and s["rv"]["k"] == "Use" and s["rv"]["op"]["k"] == "move" and s["rv"]["op"]["place"]["l"] == guard_local and not s["rv"]["op"]["place"]["p"]:
                    moved = True  # ownership handed to another local / returned
            t = blk["term"]
            if t["k"] == "Drop" and t["place"]["l"] == guard_local and not t["place"]["p"]:
                continue
            if moved:
                continue
            if t["k"] == "Call":
                consumed = any(a["k"] == "move" and a["place"]["l"] == guard_local and not a["place"]["p"] for a in t["args"])
                out.append((b, t))
                if consumed:
                    continue
            if t["k"] == "Return":
                continue
            for s in B._succ(t):
                st.append(s)
        return out
