"""C07 (nothing dropped silently), C15 (.include), C09.b/c (position provenance, index bases), C18.a/b/d."""
import re
from .core import rule, exempt
from .facts import *
from .p_c08 import self_match, arm_table, ctor_names, str_lits, try_from_matches, node_ctor_table, outcome_nodes, payload_binding, PNODE, TYPE
from .decode import decode_arm, Unextractable
from .p_cfg import mentions_call, inherent_methods

P = "riscv_analysis::parser::"
LEXER = P + "lexer::Lexer"
LEXERR = P + "error::LexError"
PARSEERR = P + "error::ParseError"
TOKTY = P + "token_type::TokenType"
RVPARSER = P + "parsing::RVParser<T>"
FRERR = "riscv_analysis::reader::FileReaderError"


def fn_by_suffix(F, suffix):
    c = [p for p in F.fns if p.endswith(suffix)]
    if len(c) != 1:
        raise Anchor(f"function *{suffix}: {len(c)} candidates")
    return F.fn(c[0])


def parent_map(root):
    pm = {}
    st = [root]
    while st:
        n = st.pop()
        for c in children(n):
            pm[id(c)] = n
            st.append(c)
    return pm


# ============================================================================ C07
@rule("C07", "C07.a.lexer-end-of-stream", floor=1)
def c07a(F, R):
    """Lexer::next yields None only where the source is exhausted (the `current() == None` arm and its propagation)"""
    p = F.method(LEXER, "next", trait="Iterator")
    f = F.fn(p)
    pm = parent_map(f["hir"]["value"])
    nones = [n for n in walk(f["hir"]["value"], pats=False) if n.get("k") == "Path" and n.get("res") == "core::option::Option::None"
             and not (n.get("exp") or "").startswith("Bang:")]
    if not nones:
        raise Anchor("Lexer::next never yields None")
    lets = {s["pat"]["name"]: s["init"] for s in walk(f["hir"]["value"], pats=False) if s.get("k") == "Let" and s["pat"].get("k") == "PBinding" and s.get("init")}

    def is_current_scrut(e):
        e = peel(e)
        if e.get("k") == "MethodCall" and e["name"] == "current":
            return True
        if e.get("k") == "Path" and e.get("res_kind") == "Local" and e["res"] in lets:
            i = peel(lets[e["res"]])
            return i.get("k") == "Match" and is_current_scrut(i["scrut"])
        return False
    cnt = 0
    for n in nones:
        # climb to the enclosing arm
        x = n
        arm = match = None
        while id(x) in pm:
            par = pm[id(x)]
            if "pat" in par and "body" in par and "k" not in par:
                arm = par
                match = pm.get(id(par))
                break
            if par.get("k") in ("Ret",) or (par.get("k") == "Block" and par.get("stmts")):
                break
            x = par
        okk = False
        if arm is not None and match is not None and match.get("k") == "Match":
            pv = pat_variants(arm["pat"])
            if pv == [("path", "core::option::Option::None")] and is_current_scrut(match["scrut"]) and peel(arm["body"]) is n:
                okk = True
        cnt += 1
        if okk:
            R.ok(f"none|{cnt}", detail="None on the `None` arm of match self.current() / token", where=loc(n))
        else:
            R.bad("none|stray", "Lexer::next returns None (end of stream) at a place where input remains: the parser treats it as end of file and drops the rest", loc(n))


SILENT = {"IsNewline", "IgnoredWithoutWarning", "UnexpectedEOF"}


@rule("C07", "C07.b.parser-arm-discipline", floor=6)
def c07b(F, R):
    """every LexError arm of parse_from_file pushes a node or a parse error (and then recovers), except the reviewed silent set"""
    f = fn_by_suffix(F, "RVParser::<T>::parse_from_file")
    m = None
    for x in find_matches(f["hir"]["value"]):
        vs = [v for a in x["arms"] for k, v in pat_variants(a["pat"]) if k == "path"]
        if vs and all(v and v.startswith(LEXERR + "::") for v in vs):
            m = x
    if m is None:
        raise Anchor("match over LexError not found in parse_from_file")
    tail = peel(f["hir"]["value"].get("expr") or {})
    if tail.get("k") != "Tup" or len(tail["elems"]) != 2:
        raise Anchor("parse_from_file does not end in a (nodes, errors) tuple")
    NODES, ERRS = ekey(tail["elems"][0]), ekey(tail["elems"][1])
    seen = set()
    for v, arm in arm_table(m):
        if v == "_":
            R.bad("wildcard", "wildcard arm in the LexError dispatch: a new error kind is swallowed", loc(arm))
            continue
        seen.add(v)
        pushes = {ekey(n["recv"]) for n in walk(arm["body"], pats=False) if n.get("k") == "MethodCall" and n["name"] == "push"}
        recovers = mentions_call(arm["body"], "recover_from_parse_error")
        if v in SILENT:
            if pushes:
                R.ok(f"arm|{v}", detail="(silent variant that nevertheless reports)")
            else:
                R.ok(f"arm|{v}", detail=f"reviewed silent variant {v}")
            continue
        # the report is unconditional: the push is a statement of the arm's own block and nothing before it leaves the arm
        body_ = peel(arm["body"])
        stmts_ = (body_.get("stmts") or []) + ([{"k": "Expr", "e": body_["expr"]}] if body_.get("k") == "Block" and body_.get("expr") else [])
        if body_.get("k") != "Block":
            stmts_ = [{"k": "Expr", "e": body_}]
        top_push = None
        for i_, st_ in enumerate(stmts_):
            e_ = peel(st_.get("e") or {})
            if e_.get("k") == "MethodCall" and e_["name"] == "push" and ekey(e_["recv"]) in (NODES, ERRS):
                top_push = i_
                break
        escapes = []
        for st_ in (stmts_[:top_push] if top_push is not None else stmts_):
            for y in walk(st_, pats=False):
                if y.get("k") in ("Continue", "Break", "Ret") and not (y.get("exp") or "").startswith("desugar:"):
                    escapes.append(y)
        if (NODES in pushes or ERRS in pushes) and (top_push is None or escapes):
            R.bad(f"arm|{v}|conditional", f"arm {v} reports only on some paths (the push is nested under a condition, or a `continue`/`return` comes before it): whenever the other path is taken the text this error stood for is dropped without a word - the error may be all that is left of a half-parsed statement", loc(escapes[0]) if escapes else loc(arm))
            continue
        if NODES in pushes:
            # an arm that carries several nodes pushes every one of them
            binds_ = [b_["name"] for b_ in walk(arm["pat"]) if b_.get("k") == "PBinding"]
            pushed_ = {x_.get("res") for n_ in walk(arm["body"], pats=False) if n_.get("k") == "MethodCall" and n_["name"] == "push" and ekey(n_["recv"]) == NODES for x_ in walk(n_["args"][0], pats=False) if x_.get("k") == "Path"}
            missing_ = [b_ for b_ in binds_ if b_ not in pushed_]
            if len(binds_) > 1 and missing_:
                R.bad(f"arm|{v}|partial", f"arm {v} carries the nodes {binds_} but pushes only {[b_ for b_ in binds_ if b_ in pushed_]}: the second half of a two-instruction expansion (`lw rd, label` = la + lw) is dropped", loc(arm))
                continue
            R.ok(f"arm|{v}", detail=f"{v}: pushes node(s)")
        elif ERRS in pushes and recovers:
            R.ok(f"arm|{v}", detail=f"{v}: pushes a parse error and skips the rest of the line")
        elif ERRS in pushes:
            R.bad(f"arm|{v}", f"arm {v} reports an error but does not call recover_from_parse_error: the rest of the malformed line is parsed as new statements", loc(arm))
        else:
            R.bad(f"arm|{v}", f"arm {v} neither produces a node nor reports an error: the line is dropped silently", loc(arm))
    for v in F.variants(LEXERR):
        if v not in seen:
            R.bad(f"arm|{v}|missing", f"no arm for LexError::{v}", loc(m))


@rule("C07", "C07.h.recovery-stays-on-the-line", floor=1)
def c07h(F, R):
    """skip-to-end-of-line recovery is not run when the offending token already is the line's newline (it would swallow the next line)"""
    f = fn_by_suffix(F, "RVParser::<T>::parse_from_file")
    m = None
    for x in find_matches(f["hir"]["value"]):
        vs = [v for a in x["arms"] for k, v in pat_variants(a["pat"]) if k == "path"]
        if vs and all(v and v.startswith(LEXERR + "::") for v in vs):
            m = x
    if m is None:
        raise Anchor("match over LexError not found in parse_from_file")
    pm = parent_map(f["hir"]["value"])
    for v, arm in arm_table(m):
        if v != "Expected":
            continue
        # LexError::Expected carries whatever token came next (Token::as_type / as_lparen ... clone `self`): it can be the Newline
        recs = [c for c in walk(arm["body"], pats=False) if c.get("k") == "MethodCall" and c["name"] == "recover_from_parse_error"]
        if not recs:
            R.bad("Expected|no-recovery", "the Expected arm no longer recovers at all", loc(arm))
            continue
        # the test `<the token that was found> is the Newline`, in whatever spelling, as an atom; the recovery must be reached
        # exactly when it is false: reached when true, it swallows the following line; not reached when false, the rest of the
        # malformed line is parsed as new statements
        lets_ = local_inits(arm["body"])

        def classify(e):
            e = peel(e)
            if e.get("k") == "Binary" and e["op"] in ("Eq", "Ne") and any(y.get("k") == "Path" and (y.get("res") or "").endswith("TokenType::Newline") for y in (peel(e["a"]), peel(e["b"]), *[peel(z) for w in (e["a"], e["b"]) for z in walk(w, pats=False)])):
                return "nl" if e["op"] == "Eq" else "not_nl"
            if e.get("k") == "Match" and e.get("src") in (None, "Normal") and len(e["arms"]) == 2 and all(isinstance(lit_value(a_["body"]), bool) for a_ in e["arms"]) \
                    and any((y.get("res") or "").endswith("TokenType::Newline") for y in walk(e["arms"][0]["pat"])):
                return "nl" if lit_value(e["arms"][0]["body"]) else "not_nl"     # matches!(got, TokenType::Newline)
            return None
        cons = path_constraints(pm, recs[0])

        def reached(nl):
            env = {"nl": nl, "not_nl": not nl}
            out = True
            for c, want in cons:
                if not any(classify(y) is not None for y in walk_expanded(c, lets_)):
                    continue
                v = bool3(c, classify, env, lets_)
                if v is None:
                    return None
                out = out and (v == want)
            return out
        r_nl, r_other = reached(True), reached(False)
        if r_nl is False and r_other is True:
            R.ok("Expected|newline-guard", detail="recover_from_parse_error runs exactly when the unexpected token is not the Newline", where=loc(recs[0]))
        elif r_nl is None or r_other is None:
            R.bad("Expected|newline-guard|unextractable", "UNEXTRACTABLE: the condition under which the Expected arm recovers", loc(recs[0]))
        elif r_nl:
            R.bad("Expected|newline-guard", "after `Expected .. found NEWLINE` (a missing trailing operand) recovery still skips to the next newline: the whole following line is dropped without nodes or an error", loc(recs[0]))
        else:
            R.bad("Expected|newline-guard", "the Expected arm does not recover when the unexpected token is *not* the newline: the rest of the malformed line is parsed as new statements (and what is left of it can be taken for an instruction)", loc(recs[0]))


@rule("C07", "C07.c.silent-variant-construction", floor=2)
def c07c(F, R):
    """the silent LexError variants are constructed only where they are meant: comment token, newline token, exhausted lexer"""
    p = F.method(PNODE, "try_from", trait_ref=r"TryFrom<&mut core::iter::adapters::peekable::Peekable")
    tf = F.fn(p)
    tm = self_match(F, p, TOKTY)
    arm_of = {}
    for v, arm in arm_table(tm):
        for n in walk(arm["body"], pats=False):
            if n.get("k") == "Path" and (n.get("res") or "").startswith(LEXERR + "::") and (n.get("res_kind") or "").startswith("Ctor"):
                arm_of.setdefault(short(n["res"]), set()).add(v)
    want = {"IgnoredWithoutWarning": {"Comment"}, "IsNewline": {"Newline"}}
    for var, arms in want.items():
        got = arm_of.get(var, set())
        if got == arms:
            R.ok(f"{var}", detail=f"{var} only on the TokenType::{list(arms)[0]} arm")
        else:
            R.bad(f"{var}", f"LexError::{var} is constructed on token arms {sorted(got)}; only {sorted(arms)} may be ignored silently", loc(tm))
    # UnexpectedEOF: only `lexer.next().ok_or(UnexpectedEOF)` and the None arm of `lexer.peek()`
    sites = []
    for q, f in sorted(F.fns.items()):
        if "hir" not in f or (f.get("exp") or "").startswith("Derive"):
            continue
        pm = None
        for n in walk(f["hir"]["value"], pats=False):
            if n.get("k") == "Path" and n.get("res") == LEXERR + "::UnexpectedEOF":
                if pm is None:
                    pm = parent_map(f["hir"]["value"])
                sites.append((q, n, pm))
    for q, n, pm in sites:
        root = q.split("::{closure")[0]
        x = n
        okk = False
        why = ""
        for _ in range(10):
            par = pm.get(id(x))
            if par is None:
                break
            if par.get("k") == "MethodCall" and par["name"] == "ok_or" and mentions_call(par["recv"], "next"):
                okk, why = True, "lexer.next().ok_or(UnexpectedEOF)"
                break
            if par.get("k") == "MethodCall" and par["name"] in ("unwrap_or", "unwrap_or_else", "map_or", "map_or_else", "ok_or", "ok_or_else") and (mentions_call(par["recv"], "peek") or mentions_call(par["recv"], "next")) \
                    and any(y is x or any(z is x for z in walk(y, pats=False)) for y in par["args"][:1]):
                # `lexer.peek().cloned().unwrap_or(Err(UnexpectedEOF))`: the default of an exhausted lexer
                okk, why = True, f"default of an exhausted lexer ({par['name']})"
                break
            if "pat" in par and "body" in par and "k" not in par:
                mt = pm.get(id(par))
                if pat_variants(par["pat"]) == [("path", "core::option::Option::None")] and mt and mentions_call(mt["scrut"], "peek"):
                    okk, why = True, "None arm of lexer.peek()"
                    break
                if pat_variants(par["pat"]) == [("path", "core::option::Option::None")] and mt and mentions_call(mt["scrut"], "next") and ekey(peel(mt["scrut"]).get("recv") or {}).endswith(".lexer"):
                    okk, why = True, "None arm of lexer.next()"
                    break
                x = par
                continue
            x = par
        key = f"UnexpectedEOF|{root}"
        if okk:
            R.ok(key, detail=why, where=loc(n))
        else:
            R.bad(key, f"LexError::UnexpectedEOF is constructed in `{root}` where the lexer is not exhausted: the parser pops the file and drops the rest", loc(n))
    if len(sites) < 2:
        R.bad("UnexpectedEOF|missing", "expected the two UnexpectedEOF constructions of AnnotatedLexer::get_any / peek_any")


@rule("C07", "C07.d.token-consuming-loops", floor=1)
def c07d(F, R):
    """every loop in the decoder that consumes tokens either feeds a node or ends in a reported IgnoredWithWarning"""
    p = F.method(PNODE, "try_from", trait_ref=r"TryFrom<&mut core::iter::adapters::peekable::Peekable")
    f = F.fn(p)
    pm = parent_map(f["hir"]["value"])
    loops = [n for n in walk(f["hir"]["value"], pats=False) if n.get("k") == "Loop" and (mentions_call(n, "get_any") or mentions_call(n, "peek_any"))]
    for i, lp in enumerate(loops, 1):
        # the enclosing arm
        x = lp
        arm = None
        while id(x) in pm:
            par = pm[id(x)]
            if "pat" in par and "body" in par and "k" not in par and any(k == "path" and (v or "").startswith(P + "directive::DirectiveToken") for k, v in pat_variants(par["pat"])):
                arm = par
                break
            x = par
        if arm is None:
            R.bad(f"loop|{i}", "token-consuming loop outside a directive arm", loc(lp))
            continue
        name = "+".join(sorted(short(v) for k, v in pat_variants(arm["pat"]) if k == "path"))
        accum = {ekey(n["recv"]) for n in walk(lp, pats=False) if n.get("k") == "MethodCall" and n["name"] == "push"}
        after_nodes = [n for n in walk(arm["body"], pats=False) if n.get("k") == "Call" and "ParserNode::new_" in (callee_of(n) or "")]
        uses_accum = any(any(x.get("k") == "Path" and x.get("res") in accum for x in walk(c)) for c in after_nodes)
        warns = any(n.get("k") == "Path" and n.get("res") == LEXERR + "::IgnoredWithWarning" for n in walk(arm["body"], pats=False))
        if accum and uses_accum:
            R.ok(f"loop|{name}", detail=f"{name}: consumed tokens are collected into {sorted(accum)} and stored in the node")
        elif warns:
            R.ok(f"loop|{name}", detail=f"{name}: consumed tokens are skipped and reported as IgnoredWithWarning")
        else:
            R.bad(f"loop|{name}", f"the {name} arm consumes tokens in a loop and neither stores nor reports them", loc(lp))
    if len(loops) < 2:
        R.bad("loops|missing", f"expected >= 2 token-consuming loops in the decoder, found {len(loops)}")


def eof_sites(F):
    """construction sites of LexError::UnexpectedEOF in non-test parser code: [(fn path, node, guarded_by_nothing_consumed)]"""
    out = []
    for q, g in sorted(F.fns.items()):
        if "hir" not in g or g.get("crate") != "riscv_analysis" and not q.startswith("riscv_analysis") and "riscv_analysis::parser" not in q:
            continue
        body = g["hir"]["value"]
        hits = [n for n in walk(body, pats=False) if n.get("k") == "Path" and n.get("res") == LEXERR + "::UnexpectedEOF"]
        if not hits:
            continue
        pm = parent_map(body)
        for n in hits:
            guarded = False
            x = n
            while id(x) in pm:
                par = pm[id(x)]
                if "pat" in par and "body" in par and "k" not in par:
                    # a match arm: own guard `raw_token == default`, or an earlier arm of the same match with guard `raw_token != default`
                    mt = pm.get(id(par))
                    def g_ok(gd, want):
                        if gd is None:
                            return False
                        ops = [b["op"] for b in walk(gd, pats=False) if b.get("k") == "Binary" and b["op"] in ("Eq", "Ne")]
                        rt = any(f_.get("k") == "Field" and f_.get("name") == "raw_token" for f_ in walk(gd, pats=False))
                        df = any(c_.get("k") == "Call" and short(callee_of(c_) or declared_callee(c_) or "") == "default" for c_ in walk(gd, pats=False))
                        return rt and df and ops == [want]
                    if g_ok(par.get("guard"), "Eq"):
                        guarded = True
                    if mt and mt.get("k") == "Match":
                        for a in mt["arms"]:
                            if a is par:
                                break
                            if g_ok(a.get("guard"), "Ne") and pat_variants(a["pat"]) == pat_variants(par["pat"]) and \
                                    not any(y.get("k") == "Path" and y.get("res") == LEXERR + "::UnexpectedEOF" for y in walk(a["body"], pats=False)):
                                guarded = True
                if par.get("k") == "If":
                    c = par["cond"]
                    ops = [b["op"] for b in walk(c, pats=False) if b.get("k") == "Binary" and b["op"] in ("Eq", "Ne")]
                    rt = any(f_.get("k") == "Field" and f_.get("name") == "raw_token" for f_ in walk(c, pats=False))
                    in_then = any(y is x for y in walk(par["then"], pats=False)) if isinstance(par.get("then"), dict) else False
                    if rt and ((ops == ["Eq"] and in_then) or (ops == ["Ne"] and not in_then)):
                        guarded = True
                x = par
            out.append((q, n, guarded))
    return out


def get_any_eof_safe(F):
    sites = [(q, n, g) for q, n, g in eof_sites(F) if short(q) == "get_any"]
    return bool(sites) and all(g for _, _, g in sites)


@rule("C07", "C07.j.eof-mid-statement-is-reported", floor=2)
def c07j(F, R):
    """`UnexpectedEOF` (which the parser treats as a silent end of file) is produced by a consuming read only when no token of the current statement has been read yet; a statement cut short by the end of the file gets a diagnostic like one cut short by a newline"""
    sites = eof_sites(F)
    if not sites:
        raise Anchor("no construction of LexError::UnexpectedEOF found")
    for q, n, guarded in sites:
        name = short(q)
        f = F.fn(q)
        consuming = any(m.get("k") == "MethodCall" and m["name"] == "next" and ekey(m["recv"]).endswith(".lexer") for m in walk(f["hir"]["value"], pats=False))
        if not consuming:
            R.ok(f"{name}|peek", detail=f"{name} only looks ahead (its use with `?` is decided by C07.g)", where=loc(n))
        elif guarded:
            R.ok(f"{name}|consuming", detail=f"{name}: UnexpectedEOF only while `raw_token` is still the default (nothing of the statement consumed)", where=loc(n))
        else:
            R.bad(f"{name}|consuming", f"{name} answers UnexpectedEOF for every read at the end of the input, also in the middle of a statement: `addi t0, t0` as the last bytes of a file (no trailing newline) is dropped without a node or an error", loc(n))


@rule("C07", "C07.g.eof-in-optional-lookahead", floor=12)
def c07g(F, R):
    """a successful decode path never depends on a look-ahead read through `?` whose token it then ignores: at end of file that `?` aborts the decode and the complete instruction is dropped"""
    from .decode import eof_optional
    from . import decode as _dec
    _dec.GET_ANY_EOF_SAFE = get_any_eof_safe(F)
    ctors = node_ctor_table(F)
    p, tm, pm = try_from_matches(F)
    for k, arm in arm_table(tm):
        if k in ("_", "Pseudo", "Ignore"):
            continue
        b = payload_binding(arm, k)
        try:
            outs = decode_arm(F, arm["body"], {b or "inst": ("name", "inst")})
        except Unextractable as ex:
            R.bad(f"{k}|unextractable", f"UNEXTRACTABLE arm for Type::{k}: {ex}", loc(arm))
            continue
        for toks, s in outs:
            kind, ns = outcome_nodes(s, ctors)
            if kind not in ("ok", "two"):
                continue
            opt, consumed = eof_optional(toks, s)
            key = f"{k}|{' '.join(t for t in toks if t not in ('?', '$')) or '-'}"
            if opt:
                R.bad(key, f"{k}: the form `{' '.join(t for t in toks if t not in ('?', '$'))}` is complete, but the decoder looks one token further with `?`: when the file ends there (no trailing newline) the look-ahead fails with UnexpectedEOF and the instruction is dropped without a diagnostic", loc(arm))
            else:
                R.ok(key)


@rule("C07", "C07.f.newline-tested-before-consume", floor=2)
def c07f(F, R):
    """in every lexer loop that is sensitive to the end of line, the newline test comes before a character is consumed (so the newline itself is left for the Newline token)"""
    n = 0
    for i in F.impls:
        if i["self_ty"] != LEXER:
            continue
        for it in i["items"]:
            f = F.fns.get(it["path"])
            if not f or "hir" not in f:
                continue
            for lp in walk(f["hir"]["value"], pats=False):
                if lp.get("k") != "Loop":
                    continue
                order = list(walk(lp["body"]))
                first_nl = next((k for k, x in enumerate(order) if x.get("k") == "Lit" and x["lit"].get("v") == "\n" and x["lit"].get("t") == "char"), None)
                first_cons = next((k for k, x in enumerate(order) if x.get("k") == "MethodCall" and x["name"] in ("consume_char", "skip_char")), None)
                if first_nl is None or first_cons is None:
                    continue
                # nested loops are examined on their own
                n += 1
                key = f"{short(it['path'])}|loop{n}"
                if first_nl < first_cons:
                    R.ok(key, detail=f"{it['name']}: '\\n' is tested before consume_char in the loop body", where=loc(lp))
                else:
                    R.bad(f"{it['path']}|consume-before-newline-test", f"`{it['name']}` consumes a character before testing it for '\\n': the newline is swallowed and the following line is handed to error recovery / dropped", loc(lp))
    if n < 3:
        R.bad("coverage", f"only {n} end-of-line-sensitive loops found in the lexer (expected >= 3)")


@rule("C07", "C07.e.unclassified-operands", floor=12)
def c07e(F, R):
    """no successful decode path consumes a token whose kind it never established (such text would be dropped silently)"""
    ctors = node_ctor_table(F)
    p, tm, pm = try_from_matches(F)
    for k, arm in arm_table(tm):
        if k in ("_", "Pseudo", "Ignore"):
            continue
        b = payload_binding(arm, k)
        try:
            outs = decode_arm(F, arm["body"], {b or "inst": ("name", "inst")})
        except Unextractable as ex:
            R.bad(f"{k}|unextractable", f"UNEXTRACTABLE arm for Type::{k}: {ex}", loc(arm))
            continue
        for toks, s in outs:
            kind, ns = outcome_nodes(s, ctors)
            if kind not in ("ok", "two"):
                continue
            key = f"{k}|{' '.join(toks) or '-'}"
            if "?" in toks:
                R.bad(key, f"{k}: the form `{' '.join(toks)}` consumes a token of unknown kind and builds {ns[0].get('node')} without it: `jalr t0 foo` drops `foo` with no diagnostic", loc(arm))
            else:
                R.ok(key)


# ============================================================================ C15
def _pff(F):
    """parse_from_file with the private helpers of RVParser it calls inlined: {"path", "sp", "hir": {"value": body}}, [helpers]"""
    f = fn_by_suffix(F, "RVParser::<T>::parse_from_file")
    body, inl = inline_self_helpers(F, f, f["path"].rsplit("::", 1)[0] + "::")
    g = dict(f)
    g["hir"] = dict(f["hir"])
    g["hir"]["value"] = body
    return g, inl


def _include_site(f):
    """where parse_from_file learns that a node is an include directive: -> (binding of the path, region that handles the include,
    'if-let' | 'let-else', the site node) or None.  Accepted: `if let Some(p) = <..get_include_path()..> { .. }` and
    `let Some(p) = <expr or local derived from get_include_path()> else { .. };` followed by the handling"""
    body = f["hir"]["value"]
    lets = {s_["pat"]["name"]: s_ for s_ in walk(body, pats=False) if s_.get("k") == "Let" and s_["pat"].get("k") == "PBinding" and s_.get("init") is not None}

    def derives(e, depth=0):
        if mentions_call(e, "get_include_path"):
            return True
        if depth < 3:
            for x in walk(e, pats=False):
                if x.get("k") == "Path" and x.get("res_kind") == "Local" and x.get("res") in lets and derives(lets[x["res"]]["init"], depth + 1):
                    return True
        return False
    for n in walk(body, pats=False):
        if n.get("k") == "If" and peel_cond(n["cond"]).get("k") == "LetExpr" and derives(peel_cond(n["cond"])["init"]):
            binds = [b["name"] for b in walk(peel_cond(n["cond"])["pat"]) if b.get("k") == "PBinding"]
            if len(binds) == 1:
                return binds[0], n["then"], "if-let", n
    # `match <include path> { Some(p) => <handle the include>, None => <keep the node> }`
    for n in walk(body, pats=False):
        if n.get("k") == "Match" and n.get("src") in (None, "Normal") and derives(n["scrut"]):
            for a in n["arms"]:
                if any(short(v or "") == "Some" for k_, v in pat_variants(a["pat"]) if k_ == "path"):
                    binds = [b["name"] for b in walk(a["pat"]) if b.get("k") == "PBinding"]
                    if len(binds) == 1:
                        return binds[0], a["body"], "match", n
    pm = parent_map(body)
    for st in walk(body, pats=False):
        if st.get("k") == "Let" and st.get("els") is not None and st.get("init") is not None and derives(st["init"]) and any(short(v or "") == "Some" for k_, v in pat_variants(st["pat"]) if k_ == "path"):
            binds = [b["name"] for b in walk(st["pat"]) if b.get("k") == "PBinding"]
            blk = pm.get(id(st))
            if len(binds) == 1 and blk is not None and blk.get("k") == "Block":
                idx = next(i for i, x in enumerate(blk["stmts"]) if x is st)
                region = {"k": "Block", "stmts": blk["stmts"][idx + 1:], "expr": blk.get("expr")}
                return binds[0], region, "let-else", st
    return None



@rule("C15", "C15.a.lexer-stack-pairing", floor=2)
def c15a(F, R):
    """the include stack is pushed only for the base file and a successfully imported include, popped only at end of file, and an include directive is never also kept as a node"""
    f, inlined_helpers = _pff(F)
    pm = parent_map(f["hir"]["value"])
    pushes = [n for n in walk(f["hir"]["value"], pats=False) if n.get("k") == "MethodCall" and n["name"] == "push" and ekey(n["recv"]) == "self.lexer_stack"]
    pops = [n for n in walk(f["hir"]["value"], pats=False) if n.get("k") == "MethodCall" and n["name"] in ("pop", "clear", "truncate", "remove") and ekey(n["recv"]) == "self.lexer_stack"]
    others = []
    for q, g in F.fns.items():
        if "hir" in g and q != f["path"] and not q.startswith(f["path"] + "::") and q not in inlined_helpers:
            for n in walk(g["hir"]["value"], pats=False):
                if n.get("k") == "MethodCall" and n["name"] in ("push", "pop", "clear", "truncate", "remove", "insert") and ekey(n["recv"]).endswith(".lexer_stack"):
                    others.append((q, n))
    for q, n in others:
        R.bad(f"other|{q}", f"`{q}` mutates the include stack; only parse_from_file may", loc(n))

    def enclosing_arm(n):
        x = n
        while id(x) in pm:
            par = pm[id(x)]
            if "pat" in par and "body" in par and "k" not in par:
                return par, pm.get(id(par))
            x = par
        return None, None
    kinds = []
    for n in pushes:
        arm, mt = enclosing_arm(n)
        if arm is None:
            kinds.append("base")
            R.ok("push|base", detail="base file lexer pushed once before the loop", where=loc(n))
        else:
            pv = pat_variants(arm["pat"])
            # `let (id, text) = self.reader.import_file(..)..?; self.lexer_stack.push(..)`: a failed import has left the block before the push
            blk_, st_ = n, None
            while id(blk_) in pm and pm[id(blk_)].get("k") != "Block":
                blk_ = pm[id(blk_)]
            holder = pm.get(id(blk_))
            after_try = False
            if holder is not None and holder.get("k") == "Block":
                for s_ in holder.get("stmts", []):
                    if s_ is blk_ or any(y is n for y in walk(s_, pats=False)):
                        break
                    if s_.get("k") == "Let" and s_.get("init") is not None and peel(s_["init"]).get("k") == "Match" and peel(s_["init"]).get("src") == "TryDesugar" and mentions_call(peel(s_["init"])["scrut"], "import_file"):
                        after_try = True
            if pv == [("path", "core::result::Result::Ok")] and mt and mentions_call(mt["scrut"], "import_file"):
                kinds.append("include")
                R.ok("push|include", detail="pushed on the Ok arm of reader.import_file(include path)", where=loc(n))
            elif after_try:
                kinds.append("include")
                R.ok("push|include", detail="pushed after `import_file(include path)..?`: a failed import has left the block", where=loc(n))
            else:
                R.bad("push|stray", f"lexer_stack.push under {pv}: a lexer is pushed without a successful import", loc(n))
    if sorted(kinds) != ["base", "include"]:
        R.bad("push|count", f"expected exactly the base push and the include push, found {kinds}", f["sp"])
    for n in pops:
        arm, mt = enclosing_arm(n)
        pv = pat_variants(arm["pat"]) if arm else None
        if pv == [("path", LEXERR + "::UnexpectedEOF")] and n["name"] == "pop":
            R.ok("pop|eof", detail="popped only on LexError::UnexpectedEOF", where=loc(n))
        else:
            R.bad("pop|stray", f"lexer_stack.{n['name']} under {pv}: a file is abandoned before its end", loc(n))
    if not pops:
        R.bad("pop|missing", "the include stack is never popped", f["sp"])
    # include directive is not also a node: `continue` ends the include block, nodes.push(x) follows it
    okc = False
    site_ = _include_site(f)
    if site_ is not None and site_[2] == "if-let":
        then = site_[1]
        last = (then.get("stmts") or [None])[-1]
        e = (last or {}).get("e") or then.get("expr") or {}
        while e.get("k") in ("DropTemps", "Use"):
            e = e["e"]
        if e.get("k") == "Continue":
            okc = True
    elif site_ is not None and site_[2] == "match":
        # `match include_path { Some(p) => <include>, None => nodes.push(x) }`: the include arm does not keep the directive
        okc = not any(m.get("k") == "MethodCall" and m["name"] == "push" and "nodes" == ekey(m["recv"]).lstrip("&*") for m in walk(site_[1], pats=False))
    elif site_ is not None:
        # `let Some(path) = .. else { nodes.push(x); continue }`: what follows handles the include and must not push the directive
        region = site_[1]
        okc = not any(m.get("k") == "MethodCall" and m["name"] == "push" and "nodes" == ekey(m["recv"]).lstrip("&*") for m in walk(region, pats=False)) \
            and any(y.get("k") in ("Continue", "Ret", "Break") for y in walk(site_[3]["els"], pats=False))
    if okc:
        R.ok("include-not-a-node", detail="the include branch ends in `continue` before nodes.push")
    else:
        R.bad("include-not-a-node", "the include branch no longer ends in `continue`: the directive is also analysed as a node", f["sp"])


def peel_cond(c):
    while c.get("k") in ("DropTemps", "Use"):
        c = c["e"]
    return c


@rule("C15", "C15.b.reader-faults-become-diagnostics", floor=3)
@rule("C16", "C16.g.reader-faults-become-diagnostics", floor=3)
def c15b(F, R):
    """every FileReaderError maps to a ParseError that carries the directive's path token, and a failed include is reported and parsing continues"""
    tp = F.method(FRERR, "to_parse_error")
    m = self_match(F, tp, FRERR)
    PATHP = F.fn(tp)["hir"]["params"][1].get("name")
    seen = set()
    for v, arm in arm_table(m):
        if v == "_":
            R.bad("wildcard", "wildcard arm in to_parse_error", loc(arm))
            continue
        seen.add(v)
        built = ctor_names(arm["body"], PARSEERR)
        uses_path = any(n.get("k") == "Path" and n.get("res") == PATHP for n in walk(arm["body"], pats=False))
        if len(built) == 1 and uses_path:
            R.ok(f"map|{v}", detail=f"{v} -> ParseError::{built[0]}(path token)")
        else:
            R.bad(f"map|{v}", f"FileReaderError::{v} maps to {built} (uses the directive's path token: {uses_path})", loc(arm))
    for v in F.variants(FRERR):
        if v not in seen:
            R.bad(f"map|{v}|missing", "no arm", loc(m))
    f, _ = _pff(F)
    okk = False
    for mt in find_matches(f["hir"]["value"]):
        if mentions_call(mt["scrut"], "import_file") and any(a.get("k") == "Call" and short(callee_of(a) or "") == "Some" for a in walk(mt["scrut"], pats=False)):
            for a in mt["arms"]:
                if pat_variants(a["pat"]) == [("path", "core::result::Result::Err")]:
                    pushes = {ekey(n["recv"]) for n in walk(a["body"], pats=False) if n.get("k") == "MethodCall" and n["name"] == "push"}
                    rets = [n for n in walk(a["body"], pats=False) if n.get("k") in ("Ret", "Break")]
                    tailt = peel(f["hir"]["value"].get("expr") or {})
                    errs = ekey(tailt["elems"][1]) if tailt.get("k") == "Tup" and len(tailt["elems"]) == 2 else "?"
                    okk = errs in pushes and mentions_call(a["body"], "to_parse_error") and not rets
    if not okk:
        # helper form: `import_file(..).map_err(|e| e.to_parse_error(path))?` inside a private helper (read inline), and the caller's
        # `if let Err(e) = <helper> { errors.push(e) }` / `match <helper> { Err(e) => errors.push(e), .. }`
        tailt = peel(f["hir"]["value"].get("expr") or {})
        errs = ekey(tailt["elems"][1]) if tailt.get("k") == "Tup" and len(tailt["elems"]) == 2 else "?"

        def maps_and_propagates(e):
            for t in walk(e, pats=False):
                if t.get("k") == "Match" and t.get("src") == "TryDesugar" and mentions_call(t["scrut"], "import_file"):
                    for m_ in walk(t["scrut"], pats=False):
                        if m_.get("k") == "MethodCall" and m_["name"] == "map_err" and mentions_call(m_["args"][0], "to_parse_error") and mentions_call(m_["recv"], "import_file") \
                                and any(a.get("k") == "Call" and short(callee_of(a) or "") == "Some" for a in walk(m_["recv"], pats=False)):
                            return True
            return False
        for n_ in walk(f["hir"]["value"], pats=False):
            cands = []
            if n_.get("k") == "If" and peel_cond(n_["cond"]).get("k") == "LetExpr":
                le = peel_cond(n_["cond"])
                cands.append((le["pat"], le["init"], n_["then"]))
            if n_.get("k") == "Match" and n_.get("src") in (None, "Normal"):
                cands += [(a_["pat"], n_["scrut"], a_["body"]) for a_ in n_["arms"]]
            for pat_, init_, body_ in cands:
                if pat_variants(pat_) != [("path", "core::result::Result::Err")] or not maps_and_propagates(init_):
                    continue
                eb = [b_["name"] for b_ in walk(pat_) if b_.get("k") == "PBinding"]
                pushed = [m_ for m_ in walk(body_, pats=False) if m_.get("k") == "MethodCall" and m_["name"] == "push" and ekey(m_["recv"]) == errs and m_["args"] and ekey(m_["args"][0]) in eb]
                if pushed and not any(y.get("k") in ("Ret", "Break") for y in walk(body_, pats=False)):
                    okk = True
    if okk:
        R.ok("include-error-arm", detail="Err arm of the include import pushes to_parse_error(path) and keeps parsing")
    else:
        R.bad("include-error-arm", "a failing include is not reported on the directive, or stops the parse", f["sp"])
    # the file named on the command line: a reader fault is reported too (the parse may end there, but not silently)
    tailt = peel(f["hir"]["value"].get("expr") or {})
    errs = ekey(tailt["elems"][1]) if tailt.get("k") == "Tup" and len(tailt["elems"]) == 2 else "?"
    base_sites = 0
    for mt in walk(f["hir"]["value"], pats=False):
        err_bodies = None
        if mt.get("k") == "Match" and mt.get("src") in (None, "Normal") and mentions_call(mt["scrut"], "import_file") and not any(a.get("k") == "Call" and short(callee_of(a) or "") == "Some" for a in walk(mt["scrut"], pats=False)):
            err_bodies = [a["body"] for a in mt["arms"] if any(k_ == "path" and (v or "").endswith("Result::Err") for k_, v in pat_variants(a["pat"]))]
        elif mt.get("k") == "Let" and mt.get("els") is not None and mt.get("init") is not None and mentions_call(mt["init"], "import_file") and not any(a.get("k") == "Call" and short(callee_of(a) or "") == "Some" for a in walk(mt["init"], pats=False)):
            err_bodies = [mt["els"]]
        if err_bodies is None:
            continue
        base_sites += 1
        good = bool(err_bodies) and all(errs in {ekey(n["recv"]) for n in walk(b_, pats=False) if n.get("k") == "MethodCall" and n["name"] == "push"} for b_ in err_bodies)
        # a let-else cannot see the error value: it can only report if it was kept before
        if good:
            R.ok(f"base-error-arm|{base_sites}", detail="a reader fault on the file being linted is pushed to the parse errors", where=loc(mt))
        else:
            R.bad("base-error-arm", "the file to lint cannot be read and nothing is pushed to the parse errors: the run ends with an empty result - no diagnostics, no explanation", loc(mt))
    if base_sites == 0:
        R.bad("base-error-arm|shape", "UNEXTRACTABLE: no `import_file(base, None)` site with an error branch found in parse_from_file", f["sp"])


def refuses_includes(f, parent_p):
    """import_file starts with `if parent.is_some() { Err(..) }`: no include is ever imported"""
    top = peel(f["hir"]["value"])
    if top.get("k") == "Block" and not top.get("stmts") and top.get("expr") is not None:
        top = peel(top["expr"])
    if top.get("k") != "If":
        return False
    c = peel(peel_cond(top["cond"]))
    if not (c.get("k") == "MethodCall" and c["name"] == "is_some" and ekey(c["recv"]) == parent_p):
        return False
    t = peel(top["then"])
    if t.get("k") == "Block" and not t.get("stmts") and t.get("expr") is not None:
        t = peel(t["expr"])
    return t.get("k") == "Call" and short(callee_of(t) or "") == "Err"


def _resolve_named_cond(f, c):
    """the condition itself, or - when it is a single boolean local - the expression that local was bound to"""
    x = c
    while x.get("k") in ("DropTemps", "Use"):
        x = x["e"]
    x = peel(x)
    if x.get("k") == "Path" and x.get("res_kind") == "Local":
        for st in walk(f["hir"]["value"], pats=False):
            if st.get("k") == "Let" and st["pat"].get("k") == "PBinding" and st["pat"]["name"] == x["res"] and st.get("init") is not None:
                return st["init"]
    return c


NORMALISERS = {"canonicalize", "to_lowercase", "to_uppercase", "to_ascii_lowercase", "read_link", "absolute", "normalize", "components"}


def _c15c_walk_details(F, R, f, name, guard, parent_p):
    """two further clauses of a live ancestry guard: the walk starts at the including file unconditionally, and the two paths it compares are in the same normal form"""
    body = f["hir"]["value"]
    lets = {}
    for st in walk(body, pats=False):
        if st.get("k") == "Let" and st["pat"].get("k") == "PBinding" and st.get("init") is not None:
            lets.setdefault(st["pat"]["name"], st)
    # the cursor of the walk: the local that the `while let Some(id) = CUR` loop scrutinises
    cur = None
    for lp in walk(body, pats=False):
        if lp.get("k") == "Loop" and any(x is guard for x in walk(lp, pats=False)):
            iff = peel(lp["body"].get("expr") or {})
            cnd = peel_cond(iff.get("cond")) if iff.get("k") == "If" else None
            if cnd is not None and cnd.get("k") == "LetExpr" and peel(cnd["init"]).get("k") == "Path":
                cur = peel(cnd["init"]).get("res")
    gcond = _resolve_named_cond(f, guard["cond"])
    succ = [sc_ for sc_ in walk(gcond, pats=False) if sc_.get("k") == "Call" and short(callee_of(sc_) or "") == "successors" and len(sc_["args"]) == 2]
    if succ:
        st0 = peel(succ[0]["args"][0])
        while st0.get("k") == "MethodCall" and st0["name"] in ("clone", "copied", "cloned") and not st0["args"]:
            st0 = peel(st0["recv"])
        if st0.get("k") == "Path" and st0.get("res") == parent_p:
            R.ok(f"{name}|walk-start", detail=f"successors({parent_p}, ..): the walk starts at the including file for every import", where=loc(succ[0]))
        else:
            R.bad(f"{name}|walk-start", f"the ancestry walk starts from `{ekey(st0)[:70]}`, not from the including file `{parent_p}`", loc(succ[0]))
    elif cur is None or cur not in lets:
        R.bad(f"{name}|walk-start", f"UNEXTRACTABLE: the cursor of {name}'s ancestry walk is not a local with an initialiser", loc(guard))
    else:
        init = peel(lets[cur]["init"])
        while init.get("k") == "MethodCall" and init["name"] in ("clone", "copied", "cloned") and not init["args"]:
            init = peel(init["recv"])
        if init.get("k") == "Path" and init.get("res") == parent_p:
            R.ok(f"{name}|walk-start", detail=f"the walk starts at the including file (`{parent_p}`) for every import", where=loc(lets[cur]))
        else:
            R.bad(f"{name}|walk-start", f"the ancestry walk starts from `{ekey(init)[:70]}`, not unconditionally from the including file `{parent_p}`: whenever the short-cut skips the walk (a cycle closed through another spelling of the path - `./main.s`, `../dir/main.s`) the cycle is followed instead of being reported", loc(lets[cur]))

    # the chain the walk follows is recorded: the map read by `cur = self.<map>.get(&id)` gets `insert(<new id>, <parent>)` in this function
    chain_maps = set()
    for lp in walk(body, pats=False):
        if lp.get("k") == "Loop" and any(x is guard for x in walk(lp, pats=False)):
            for a_ in walk(lp, pats=False):
                if a_.get("k") == "Assign" and cur is not None and ekey(a_["l"]) == cur:
                    for g_ in walk(a_["r"], pats=False):
                        if g_.get("k") == "MethodCall" and g_["name"] in ("get", "get_mut") and ekey(g_["recv"]).startswith("self."):
                            chain_maps.add(ekey(g_["recv"]))
    for sc_ in succ:
        clb = peel(sc_["args"][1])
        for g_ in walk(clb.get("body") or {}, pats=False):
            if g_.get("k") == "MethodCall" and g_["name"] in ("get", "get_mut") and ekey(g_["recv"]).startswith("self."):
                chain_maps.add(ekey(g_["recv"]))
    for mp in sorted(chain_maps):
        ins_ = [m_ for m_ in walk(body, pats=False) if m_.get("k") == "MethodCall" and m_["name"] == "insert" and ekey(m_["recv"]) == mp and len(m_["args"]) == 2]
        if ins_:
            R.ok(f"{name}|chain-recorded", detail=f"`{mp}.insert(new id, parent)` records the chain that the walk follows", where=loc(ins_[0]))
        else:
            R.bad(f"{name}|chain-recorded", f"the ancestry walk follows `{mp}`, but {name}::import_file never inserts into it: the chain ends at the direct includer and a cycle through two or more files is followed for ever", f["sp"])

    def norms(e, depth=0, seen=None):
        seen = seen if seen is not None else set()
        out = set()
        for m in walk(e, pats=False):
            if m.get("k") in ("MethodCall", "Call"):
                nm = m.get("name") or short(callee_of(m) or "")
                if nm in NORMALISERS:
                    out.add(nm)
            if m.get("k") == "Path" and m.get("res_kind") == "Local" and m.get("res") in lets and m["res"] not in seen and depth < 4:
                seen.add(m["res"])
                out |= norms(lets[m["res"]]["init"], depth + 1, seen)
        return out

    c = gcond
    sites = 0
    for n in walk(c, pats=False):
        if n.get("k") == "Binary" and n["op"] in ("Eq", "Ne"):
            sites += 1
            a, b = norms(n["a"]), norms(n["b"])
            if a == b:
                R.ok(f"{name}|comparison", detail=f"both paths compared in the same form ({sorted(a) or 'as written'})", where=loc(n))
            else:
                R.bad(f"{name}|comparison", f"the ancestry test compares a path normalised by {sorted(a) or 'nothing'} with one normalised by {sorted(b) or 'nothing'}: two spellings of one file (through `..`, a symbolic link) never compare equal, so a cycle that closes through such a spelling is followed for ever", loc(n))
        if n.get("k") == "Call" and peel(n["f"]).get("k") == "Path" and peel(n["f"]).get("res_kind") == "Local" and peel(n["f"]).get("res") in lets and len(n["args"]) == 2:
            cl = peel(lets[peel(n["f"])["res"]]["init"])
            if cl.get("k") != "Closure":
                continue
            sites += 1
            ps = [[x["name"] for x in walk(p_) if x.get("k") == "PBinding"] for p_ in cl.get("params") or []]
            if len(ps) != 2 or not all(len(x) == 1 for x in ps):
                R.bad(f"{name}|comparison", "UNEXTRACTABLE: path comparator parameters", loc(cl))
                continue
            pa, pb = ps[0][0], ps[1][0]
            cnt = {pa: set(), pb: set()}
            for m in walk(cl["body"], pats=False):
                if m.get("k") in ("MethodCall", "Call"):
                    nm = m.get("name") or short(callee_of(m) or "")
                    if nm in NORMALISERS:
                        for x in walk(m, pats=False):
                            if x.get("k") == "Path" and x.get("res") in cnt:
                                cnt[x["res"]].add(nm)
            outer_a, outer_b = norms(n["args"][0]), norms(n["args"][1])
            wrong_ops = [b_ for b_ in walk(cl["body"], pats=False) if (b_.get("k") == "Binary" and b_["op"] == "Ne") or (b_.get("k") == "Unary" and b_["op"] == "Not") or (b_.get("k") == "MethodCall" and b_["name"] == "ne")]
            if wrong_ops:
                R.bad(f"{name}|comparison", "the path comparator answers with an inequality: 'same file' is true for different files and false for the file itself, so a file that includes itself is followed and every other nested include is refused as a cycle", loc(wrong_ops[0]))
            elif cnt[pa] | outer_a == cnt[pb] | outer_b:
                R.ok(f"{name}|comparison", detail=f"the comparator treats both paths alike ({sorted(cnt[pa] | outer_a) or 'as written'})", where=loc(cl))
            else:
                R.bad(f"{name}|comparison", f"the path comparator normalises its arguments differently ({sorted(cnt[pa] | outer_a)} vs {sorted(cnt[pb] | outer_b)}): two spellings of one file never compare equal", loc(cl))
    if sites == 0:
        R.bad(f"{name}|comparison", f"UNEXTRACTABLE: no path comparison found in {name}'s ancestry test", loc(guard))



@rule("C06", "C06.i.include-cycles-are-cut", floor=3)
@rule("C15", "C15.c.reimport-guard", floor=3)
def c15c(F, R):
    """sibling check of FileReader::import_file impls: re-import detection must be live and depend on the path (or the reader must refuse every include)"""
    impls = [i for i in F.impls if (i.get("trait") or "").split("::")[-1] == "FileReader"]
    if len(impls) < 2:
        raise Anchor(f"only {len(impls)} FileReader impls in the fact base")
    for i in impls:
        ip = [it["path"] for it in i["items"] if it["name"] == "import_file"]
        if not ip:
            continue
        f = F.fn(ip[0])
        name = short(i["self_ty"])
        params = [x.get("name") for x in f["hir"]["params"]]
        path_p, parent_p = params[1], params[2]
        # (a) refuses every include?
        if refuses_includes(f, parent_p):
            R.ok(f"{name}", detail=f"{name} returns an error for every import that has a parent file: includes cannot recurse")
            continue
        # (b) live, path-dependent FileAlreadyRead guard
        fresh = set()
        derived = {path_p}
        for s in walk(f["hir"]["value"], pats=False):
            if s.get("k") == "Let" and s.get("init") and s["pat"].get("k") == "PBinding":
                if any(c.get("k") == "Call" and short(callee_of(c) or "") == "new_v4" for c in walk(s["init"], pats=False)):
                    fresh.add(s["pat"]["name"])
                if any(x.get("k") == "Path" and x.get("res") in derived for x in walk(s["init"], pats=False)):
                    derived.add(s["pat"]["name"])
            if s.get("k") == "Let" and s.get("init") and s["pat"].get("k") == "PTuple":
                # `let (id, text) = <the document looked up by the imported path>`: both depend on the path
                if any(x.get("k") == "Path" and x.get("res") in derived for x in walk(s["init"], pats=False)):
                    derived |= {b_["name"] for b_ in walk(s["pat"]) if b_.get("k") == "PBinding"}
        guard = None
        for n in walk(f["hir"]["value"], pats=False):
            if n.get("k") == "If" and "FileAlreadyRead" in ctor_names(n["then"], FRERR):
                guard = n
        if guard is None:
            R.bad(f"{name}|no-guard", f"{name}::import_file never answers FileAlreadyRead: a file that includes itself is imported without bound", f["sp"])
            continue
        c = _resolve_named_cond(f, guard["cond"])
        key_fresh = False
        for mc in walk(c, pats=False):
            if mc.get("k") == "MethodCall" and mc["name"] in ("insert", "contains_key", "get", "contains") and mc["args"]:
                k0 = peel(mc["args"][0])
                if k0.get("k") == "Path" and k0.get("res") in fresh:
                    key_fresh = True
        uses_path = any(x.get("k") == "Path" and x.get("res") in derived for x in walk(c, pats=False))
        # a live guard must test the include *ancestry* (the files currently open above the directive), not "read before":
        # the same file may legitimately be included twice, or reached through two branches of an include tree
        WHOLE = {"values", "iter", "keys", "contains", "contains_key", "any", "find", "insert", "position", "into_iter", "get"}
        table_ops = [mc for mc in walk(c, pats=False) if mc.get("k") == "MethodCall" and mc["name"] in ("values", "iter", "keys", "contains", "contains_key", "insert", "into_iter") and ekey(mc["recv"]).startswith("self.")]
        walks_parents = False
        for lp in walk(f["hir"]["value"], pats=False):
            if lp.get("k") == "Loop" and lp.get("src") == "While":
                # `while let Some(X) = CUR { ..; CUR = self.<parents>.get(&X).. }`
                iff = peel(lp["body"].get("expr") or {})
                cnd = iff.get("cond") if iff.get("k") == "If" else None
                while cnd is not None and cnd.get("k") in ("DropTemps", "Use"):
                    cnd = cnd["e"]
                if cnd is not None and cnd.get("k") == "LetExpr" and peel(cnd["init"]).get("k") == "Path":
                    CUR = peel(cnd["init"]).get("res")
                    xs = {b_["name"] for b_ in walk(cnd["pat"]) if b_.get("k") == "PBinding"}
                    for a_ in walk(iff["then"], pats=False):
                        if a_.get("k") == "Assign" and ekey(a_["l"]) == CUR and \
                                any(g_.get("k") == "MethodCall" and g_["name"] == "get" and ekey(g_["recv"]).startswith("self.") and any(x.get("k") == "Path" and x.get("res") in xs for x in walk(g_["args"][0], pats=False)) for g_ in walk(a_["r"], pats=False)):
                            walks_parents = True
            if lp.get("k") == "Loop":
                # a cursor that is re-bound from a lookup keyed by itself (`cur = parents.get(&cur)`), starting at the parent id
                for a_ in walk(lp, pats=False):
                    if a_.get("k") == "Assign" and any(g_.get("k") == "MethodCall" and g_["name"] in ("get", "get_mut") and ekey(g_["recv"]).startswith("self.") for g_ in walk(a_["r"], pats=False)) \
                            and any(x.get("k") == "Path" and x.get("res") == ekey(a_["l"]) for x in walk(a_["r"], pats=False)):
                        walks_parents = True
        # `std::iter::successors(parent, |id| self.<parents>.get(id).copied())` is the same walk, written as an iterator
        for sc_ in walk(c, pats=False):
            if sc_.get("k") == "Call" and short(callee_of(sc_) or "") == "successors" and len(sc_["args"]) == 2:
                clb = peel(sc_["args"][1])
                if clb.get("k") == "Closure" and any(g_.get("k") == "MethodCall" and g_["name"] in ("get", "get_mut") and ekey(g_["recv"]).startswith("self.") for g_ in walk(clb.get("body") or {}, pats=False)):
                    walks_parents = True
        if not key_fresh and uses_path and table_ops and not walks_parents:
            R.bad(f"{name}|seen-before", f"{name}::import_file answers FileAlreadyRead when the path is anywhere in `{ekey(table_ops[0]['recv'])}` (every file read so far), not when it is one of the files that are currently being included: a file included twice, or reached through two branches of an include tree, is rejected as a cycle and its second copy is not analysed", loc(guard))
            continue
        if key_fresh:
            R.bad(f"{name}|dead-guard", f"{name}::import_file tests `FileAlreadyRead` with a key freshly produced by Uuid::new_v4() in the same call: the test can never succeed, so self-/cyclic inclusion is unbounded", loc(guard))
        elif not uses_path:
            R.bad(f"{name}|path-independent", f"{name}::import_file's FileAlreadyRead guard does not depend on the imported path", loc(guard))
        elif not walks_parents:
            R.bad(f"{name}|not-ancestry", f"{name}::import_file's FileAlreadyRead guard does not walk the chain of including files (parent of the parent ..): a cycle through two or more files is not detected", loc(guard))
        else:
            R.ok(f"{name}", detail=f"{name}: FileAlreadyRead is answered while walking the chain of including files and comparing each with the imported path")
            _c15c_walk_details(F, R, f, name, guard, parent_p)


@rule("C15", "C15.d.include-relative-to-its-own-file", floor=2)
def c15d(F, R):
    """an include is imported with the directive's own path text and the id of the file the directive's token lives in, and the lexer pushed for it carries the id/text that same import returned"""
    f, _ = _pff(F)
    site_ = _include_site(f)
    if site_ is None:
        raise Anchor("no `Some(path)` binding of `get_include_path()` (if-let or let-else) found in parse_from_file")
    pv, region_, _form, site = site_
    site = dict(site)
    site["then"] = region_
    calls = [c for c in walk(site["then"], pats=False) if c.get("k") == "MethodCall" and c["name"] == "import_file"]
    if len(calls) != 1:
        R.bad("import-call", f"{len(calls)} import_file calls in the include branch", loc(site))
        return
    c = calls[0]
    a0, a1 = peel(c["args"][0]), peel(c["args"][1])

    def is_on_path(e, meth):
        e = peel(e)
        return e.get("k") == "MethodCall" and e["name"] == meth and not e["args"] and peel(e["recv"]).get("k") == "Path" and peel(e["recv"]).get("res") == pv
    if is_on_path(a0, "get"):
        R.ok("path-arg", detail=f"import_file(path = {pv}.get(), ..)", where=loc(c))
    else:
        R.bad("path-arg", f"the imported path is `{ekey(a0)}`, not the directive's own path `{pv}.get()`", loc(c))
    inner = None
    if a1.get("k") == "Call" and short(callee_of(a1) or "") == "Some" and len(a1["args"]) == 1:
        inner = a1["args"][0]
    if inner is not None and is_on_path(inner, "file"):
        R.ok("parent-arg", detail=f"import_file(.., parent = Some({pv}.file())): relative paths resolve against the file that contains the directive", where=loc(c))
    else:
        R.bad("parent-arg", f"the parent file passed for an include is `{ekey(a1)}`, not `Some({pv}.file())`: a nested include is resolved against (and attributed through) a file other than the one containing the directive", loc(c))
    # the `.file()` chain ends in the raw token's own `file` field
    chain = [(P + "with::With<T>", "token"), (P + "token::Token", "raw_token"), (P + "rawtoken::RawToken", None)]
    okc = True
    for ty, fld in chain:
        m = F.method(ty, "file", trait="DiagnosticLocation")
        b = peel(F.fn(m)["hir"]["value"])
        if b.get("k") == "Block" and not b.get("stmts") and b.get("expr") is not None:
            b = peel(b["expr"])
        if fld is None:
            good = ekey(b) == "self.file"
        else:
            good = b.get("k") == "MethodCall" and b["name"] == "file" and ekey(b["recv"]) == "self." + fld
        if not good:
            okc = False
            R.bad(f"file-chain|{short(ty)}", f"{ty}::file is `{ekey(b)}`, not a delegation to its own token's file", F.fn(m)["sp"])
    if okc:
        R.ok("file-chain", detail="With::file -> Token::file -> RawToken::file -> self.file")
    # pushed lexer = (text, id) of this very import
    mt = None
    for x in find_matches(site["then"]):
        if any(y is c for y in walk(x["scrut"], pats=False)):
            mt = x
    if mt is None:
        R.bad("push-args", "the include import is not matched on", loc(c))
        return
    for a in mt["arms"]:
        if pat_variants(a["pat"]) == [("path", "core::result::Result::Ok")]:
            bs = [b["name"] for b in walk(a["pat"]) if b.get("k") == "PBinding"]
            news = [n for n in walk(a["body"], pats=False) if n.get("k") == "Call" and (callee_of(n) or "").endswith("Lexer::new")]
            if len(news) == 1 and sorted(ekey(x) for x in news[0]["args"]) == sorted(bs) and len(bs) == 2:
                R.ok("push-args", detail=f"Lexer::new({', '.join(ekey(x) for x in news[0]['args'])}) uses exactly the id and text this import returned", where=loc(news[0]))
            else:
                R.bad("push-args", f"the lexer pushed for an include is built from {[ekey(x) for n in news for x in n['args']]}, not from the import's own result {bs}", loc(a))


@rule("C15", "C15.e.reader-id-text-agree", floor=2)
def c15e(F, R):
    """sibling check of FileReader::import_file impls: the id handed back is the key under which the returned text (and its path) is stored, and a relative path is joined to the parent's own stored path"""
    impls = [i for i in F.impls if (i.get("trait") or "").split("::")[-1] == "FileReader"]
    for i in impls:
        ip = [it["path"] for it in i["items"] if it["name"] == "import_file"]
        if not ip:
            continue
        f = F.fn(ip[0])
        name = short(i["self_ty"])
        params = [x.get("name") for x in f["hir"]["params"]]
        path_p, parent_p = params[1], params[2]
        # private helpers of the reader (`self.resolve_import_path(path, parent_file)?`) read as if their body stood at the call
        body, _inl = inline_self_helpers(F, f, i["self_ty"] + "::")
        oks = [n for n in walk(body, pats=False) if n.get("k") == "Call" and short(callee_of(n) or "") == "Ok" and peel(n["args"][0]).get("k") == "Tup"]
        if not oks or refuses_includes(f, parent_p):
            R.ok(f"{name}|refuses", detail=f"{name}::import_file never returns a (id, text) pair for an include")
            continue
        for n in oks:
            t = peel(n["args"][0])["elems"]
            idk, txk = ekey(t[0]), ekey(t[1])
            # store: map.insert(id, (.., text)) in this body, or (id, text) both projections of one looked-up entry
            ins = [m for m in walk(body, pats=False) if m.get("k") == "MethodCall" and m["name"] == "insert" and len(m["args"]) == 2 and ekey(m["args"][0]) == idk]
            good = None
            for m in ins:
                vals = {ekey(x).replace(".clone()", "") for x in walk(m["args"][1], pats=False)}
                if txk.replace(".clone()", "") in vals:
                    good = f"stored by {ekey(m['recv'])}.insert({idk}, (.., {txk}))"
            root_i, root_t = idk.split(".")[0], txk.split(".")[0]
            if good is None and root_i == root_t and idk != txk and "." in idk and "." in txk:
                good = f"both projections of the one stored entry `{root_i}`"
            if good is None:
                # `let (id, text) = self.<store>.iter()..map(|(k, v)| (*k, v.text.clone()))`: key and text of one entry of the store
                for st_ in walk(body, pats=False):
                    if st_.get("k") == "Let" and st_["pat"].get("k") == "PTuple" and st_.get("init") is not None and [b_.get("name") for b_ in st_["pat"]["pats"]] == [idk, txk]:
                        for mp in walk(st_["init"], pats=False):
                            if mp.get("k") == "MethodCall" and mp["name"] == "map" and mp["args"] and peel(mp["args"][0]).get("k") == "Closure" and \
                                    any(y.get("k") == "Field" and ekey(y).startswith("self.") for y in walk(mp["recv"], pats=False)):
                                cl_ = peel(mp["args"][0])
                                ps_ = [b_["name"] for p_ in cl_.get("params", []) for b_ in walk(p_) if b_.get("k") == "PBinding"]
                                tb = peel(cl_["body"])
                                while tb.get("k") == "Block" and not tb.get("stmts") and tb.get("expr") is not None:
                                    tb = peel(tb["expr"])
                                if len(ps_) == 2 and tb.get("k") == "Tup" and len(tb["elems"]) == 2 and \
                                        any(y.get("k") == "Path" and y.get("res") == ps_[0] for y in walk(tb["elems"][0], pats=False)) and not any(y.get("k") == "Path" and y.get("res") == ps_[1] for y in walk(tb["elems"][0], pats=False)) and \
                                        any(y.get("k") == "Path" and y.get("res") == ps_[1] for y in walk(tb["elems"][1], pats=False)):
                                    good = f"key and text of one entry of the store (`|({ps_[0]}, {ps_[1]})| ({ekey(tb['elems'][0])}, {ekey(tb['elems'][1])})`)"
            if good:
                R.ok(f"{name}|id-text", detail=f"{name}: Ok(({idk}, {txk})) {good}", where=loc(n))
            else:
                R.bad(f"{name}|id-text", f"{name}::import_file returns Ok(({idk}, {txk})) but the text is not what is stored under that id: diagnostics of the include are attributed to / rendered from another file", loc(n))
        # parent join
        joins = [m for m in walk(body, pats=False) if m.get("k") == "MethodCall" and m["name"] == "join" and m["args"] and ekey(m["args"][0]) == path_p]
        if not joins:
            R.bad(f"{name}|join", f"{name}::import_file never joins the include path to its parent's location", f["sp"])
        for m in joins:
            # the receiver must derive from a map lookup keyed by the parent id binding
            derived = set()
            keybinds = set()
            for x in walk(body):
                if x.get("k") in ("LetExpr",) or (x.get("k") == "If" and False):
                    pass
            # bindings introduced by destructuring parent_p
            for x in walk(body, pats=False):
                if x.get("k") in ("LetExpr", "Let") and x.get("init") is not None and ekey(x["init"]) == parent_p:
                    keybinds |= {b["name"] for b in walk(x["pat"]) if b.get("k") == "PBinding"}
                if x.get("k") == "Match" and ekey(x["scrut"]) == parent_p:
                    for a in x["arms"]:
                        keybinds |= {b["name"] for b in walk(a["pat"]) if b.get("k") == "PBinding"}
            changed = True
            lets = [x for x in walk(body, pats=False) if x.get("k") in ("Let", "LetExpr") and x.get("init")]
            while changed:
                changed = False
                for x in lets:
                    names = {b["name"] for b in walk(x["pat"]) if b.get("k") == "PBinding"}
                    if names <= derived:
                        continue
                    ini = list(walk(x["init"], pats=False))
                    uses_key = any(y.get("k") == "MethodCall" and y["name"] == "get" and y["args"] and ekey(y["args"][0]).lstrip("&") in keybinds for y in ini)
                    uses_der = any(y.get("k") == "Path" and y.get("res") in derived for y in ini)
                    if uses_key or uses_der:
                        derived |= names
                        changed = True
            rroot = ekey(m["recv"]).split(".")[0].lstrip("&")
            if rroot in derived:
                R.ok(f"{name}|join", detail=f"{name}: `{ekey(m['recv'])}.join({path_p})` where `{rroot}` derives from the entry stored under the parent id", where=loc(m))
            else:
                R.bad(f"{name}|join", f"{name}::import_file joins the include path to `{ekey(m['recv'])}`, which does not derive from the parent file's stored location", loc(m))
            # the joined path is what is opened: on its way it is only converted (to_str / to_owned / `?`), or resolved by the file
            # system itself (canonicalize) - never rewritten as text (`a/../b` -> `b` is a different file when `a` is a symbolic link)
            pm_ = parent_map(body)
            x = m
            rewriters = []
            for _ in range(12):
                par = pm_.get(id(x))
                if par is None or par.get("k") in ("Let", "Block", "If", "Match") and par.get("src") != "TryDesugar" and par.get("k") != "Match":
                    break
                if par.get("k") == "Call" and any(a_ is x or peel(a_) is x for a_ in par.get("args", [])):
                    cn = short(callee_of(par) or declared_callee(par) or "?")
                    if cn not in ("branch", "from_residual", "Some", "Ok", "from", "canonicalize", "new", "from_str", "into") and not (callee_of(par) or "").startswith("core::"):
                        rewriters.append((cn, par))
                if par.get("k") == "MethodCall" and par["recv"] is x and par["name"] not in ("to_str", "to_owned", "to_string", "ok_or", "ok_or_else", "ok", "clone", "as_path", "to_path_buf", "canonicalize", "map_err", "unwrap_or_default", "as_os_str", "to_string_lossy", "into_owned", "display", "unwrap", "expect", "unwrap_or", "unwrap_or_else", "as_str", "as_ref", "borrow"):
                    rewriters.append((par["name"], par))
                x = par
            if rewriters:
                R.bad(f"{name}|joined-path-rewritten", f"{name}::import_file passes the joined include path through `{rewriters[0][0]}` before opening it: a textual clean-up of `..` does not resolve like the file system (through a symbolic link `lib/../common.s` is not `common.s`), so another file - or none - is read", loc(rewriters[0][1]))
            else:
                R.ok(f"{name}|joined-path-unchanged", detail="the joined path is only converted, or resolved by the file system", where=loc(m))


# ============================================================================ C09.b / C09.c
@rule("C09", "C09.b.position-provenance", floor=11)
def c09b(F, R):
    """positions are created only by Lexer::get_pos, and every Range is built from get_pos values / earlier-start later-end of existing ranges, in order"""
    posnew = P + "position::Position::new"
    rngnew = P + "range::Range::new"
    getpos = inherent_methods(F, LEXER).get("get_pos")
    if not getpos:
        raise Anchor("Lexer::get_pos not found")
    n_pos = n_rng = 0
    for p, f in sorted(F.fns.items()):
        if "hir" not in f or (f.get("exp") or "").startswith("Derive"):
            continue
        root = p.split("::{closure")[0]
        lets = {}
        order = {}
        for i, s in enumerate(walk(f["hir"]["value"], pats=False)):
            if s.get("k") == "Let" and s["pat"].get("k") == "PBinding" and s.get("init"):
                lets[s["pat"]["name"]] = s["init"]
                order[s["pat"]["name"]] = i
        params = {x.get("name"): t for x, t in zip(f["hir"]["params"], f.get("param_tys", []))}
        for n in walk(f["hir"]["value"], pats=False):
            if n.get("k") != "Call":
                continue
            c = callee_of(n)
            if c == posnew:
                n_pos += 1
                if root == getpos:
                    R.ok("Position::new|Lexer::get_pos")
                else:
                    R.bad(f"Position::new|{root}", f"`{root}` fabricates a Position; positions may only come from Lexer::get_pos", loc(n))
            elif c == rngnew:
                n_rng += 1
                kinds = []
                for ai, a in enumerate(n["args"]):
                    a = peel(a)
                    kind = None
                    if a.get("k") == "MethodCall" and callee_of(a) == getpos:
                        kind = "get_pos"
                    elif a.get("k") == "Path" and a.get("res_kind") == "Local":
                        nm = a["res"]
                        init = peel(lets[nm]) if nm in lets else None
                        if init is not None and init.get("k") == "MethodCall" and callee_of(init) == getpos:
                            kind = "get_pos"
                        elif nm in params and params[nm].endswith("position::Position"):
                            kind = "param"
                        elif init is not None:
                            i2 = init
                            while i2.get("k") == "Unary" and i2.get("op") == "Deref":
                                i2 = peel(i2["a"])
                            if i2.get("k") == "MethodCall" and i2["name"] in ("start", "end") and peel(i2["recv"]).get("k") == "MethodCall" and peel(i2["recv"])["name"] == "range":
                                kind = "range." + i2["name"]
                    elif a.get("k") == "Field" and a["name"] == "pos" and "StringLexError" in (a["e"].get("ty", "") + a["e"].get("aty", "")):
                        kind = "lexerror.pos"
                    elif a.get("k") == "MethodCall" and a["name"] == ("start" if ai == 0 else "end") and peel(a["recv"]).get("k") == "MethodCall" and peel(a["recv"])["name"] == "range":
                        kind = "range." + a["name"]
                    kinds.append(kind)
                cnt_key = f"Range::new|{root}|{n_rng}"
                if None in kinds:
                    R.bad(f"Range::new|{root}", f"Range::new({', '.join(ekey(a) for a in n['args'])}): an endpoint does not come from get_pos() / an existing range's start-end", loc(n))
                    continue
                a0, a1 = peel(n["args"][0]), peel(n["args"][1])
                if kinds[0] == "range.end" and not (kinds[1] == "range.end" and ekey(a0) == ekey(a1)):
                    R.bad(f"Range::new|{root}|order", f"Range::new({ekey(a0)}, {ekey(a1)}): a range that starts at the end of another range may only be the empty range at that point", loc(n))
                    continue
                if kinds[1] == "range.start" and kinds[0] != "range.start":
                    R.bad(f"Range::new|{root}|order", f"Range::new({ekey(a0)}, {ekey(a1)}): the end is taken from the start of a range", loc(n))
                    continue
                if a0.get("k") == "Path" and a1.get("k") == "Path" and a0["res"] in order and a1["res"] in order and order[a0["res"]] > order[a1["res"]]:
                    R.bad(f"Range::new|{root}|order", f"Range::new({a0['res']}, {a1['res']}): the start position is taken after the end position", loc(n))
                    continue
                R.ok(cnt_key, detail=f"Range::new({kinds[0]}, {kinds[1]}) in {short(root)}")
    # callers of functions taking Position parameters pass get_pos values
    inv = [q for q in F.fns if q.endswith("Lexer::invalid_string")]
    for q in inv:
        for p, f in F.fns.items():
            if "hir" not in f:
                continue
            lets = {s["pat"]["name"]: s["init"] for s in walk(f["hir"]["value"], pats=False) if s.get("k") == "Let" and s["pat"].get("k") == "PBinding" and s.get("init")}
            for n in walk(f["hir"]["value"], pats=False):
                if n.get("k") in ("MethodCall", "Call") and callee_of(n) == q:
                    recv, args = call_recv_args(n)
                    assigns = {}
                    for as_ in walk(f["hir"]["value"], pats=False):
                        if as_.get("k") == "Assign" and peel(as_["l"]).get("k") == "Path" and peel(as_["l"]).get("res_kind") == "Local":
                            assigns.setdefault(peel(as_["l"])["res"], []).append(as_["r"])

                    def from_get_pos(x, depth=0):
                        """a get_pos() value: the call itself, or a local initialised with - and only ever assigned - such values"""
                        x = peel(x)
                        if x.get("k") == "MethodCall" and callee_of(x) == getpos:
                            return True
                        if x.get("k") == "Path" and x.get("res_kind") == "Local" and x.get("res") in lets and depth < 4:
                            return from_get_pos(lets[x["res"]], depth + 1) and all(from_get_pos(r_, depth + 1) for r_ in assigns.get(x["res"], []))
                        return False
                    for a in args[-2:]:
                        a = peel(a)
                        if from_get_pos(a):
                            R.ok(f"invalid_string-arg|{n_rng}|{ekey(a)}", trivial=True)
                        else:
                            R.bad(f"invalid_string-arg|{p}", f"invalid_string is given a position `{ekey(a)}` that is not a get_pos() value", loc(n))
    if n_pos != 1:
        R.bad("Position::new|count", f"expected exactly one Position::new site, found {n_pos}")


@rule("C09", "C09.d.lexer-indexes-the-given-text", floor=1)
def c09d(F, R):
    """the text the lexer indexes (and whose offsets it reports) is exactly the text it was given: no length-changing transformation between the argument and the `source` buffer"""
    newp = inherent_methods(F, LEXER).get("new")
    if not newp:
        raise Anchor("Lexer::new not found")
    f = F.fn(newp)
    st = [n for n in walk(f["hir"]["value"], pats=False) if n.get("k") == "Struct" and (n.get("res") or "").endswith("lexer::Lexer")]
    if not st:
        raise Anchor("Lexer::new does not build a Lexer literal")
    params = [x.get("name") for x in f["hir"]["params"]]
    allowed = {"into", "chars", "collect", "to_string", "to_owned", "as_str", "as_ref", "clone", "iter", "copied", "cloned", "char_indices", "borrow"}
    lets = {}
    for s_ in walk(f["hir"]["value"], pats=False):
        if s_.get("k") == "Let" and s_["pat"].get("k") == "PBinding" and s_.get("init"):
            lets[s_["pat"]["lid"]] = s_["init"]
    plid = f["hir"]["params"][0].get("lid")

    def expand(e, depth=0):
        """expression nodes of e with locals replaced by their initialisers"""
        out = []
        for x in walk(e, pats=False):
            out.append(x)
            if x.get("k") == "Path" and x.get("res_kind") == "Local" and x.get("lid") in lets and depth < 5:
                out += expand(lets[x["lid"]], depth + 1)
        return out
    for fld in st[0]["fields"]:
        e = fld["e"]
        nodes = expand(e)
        uses_text = any(x.get("k") == "Path" and x.get("res_kind") == "Local" and x.get("lid") == plid for x in nodes)
        if not uses_text:
            continue
        chain = [m["name"] for m in nodes if m.get("k") == "MethodCall"]
        calls = [short(callee_of(c) or "") for c in nodes if c.get("k") == "Call"]
        extra = [m for m in chain if m not in allowed] + [c for c in calls if c not in ("from", "new", "into")]
        key = f"Lexer.{fld['name']}"
        if extra:
            R.bad(key, f"Lexer::new stores the text through `{'.'.join(chain)}`: {extra} can change its length, so every reported raw offset (and any index into the caller's text) is shifted", loc(e))
        else:
            R.ok(key, detail=f"Lexer.{fld['name']} = text.{'.'.join(chain)}() (length-preserving)")


@rule("C09", "C09.e.initial-cursor-state", floor=2)
def c09e(F, R):
    """the lexer's (row, col) is the line and column of the character under the cursor - for every character, the newline included: a newline is the last character of its own line, and the row changes when the cursor leaves it. Read off `consume_char` by evaluating it for the four combinations (character left, character entered) in {newline, other}: the step may depend only on the character that is left. `get_pos` hands (row, col) on unchanged and `Lexer::new` starts at (0, 0). A cursor that changes row when it *arrives* at a newline gives the newline token - and every `Expected .., found NEWLINE` error - the line and column of the following line with the raw offset of this one"""
    from .lexcursor import Cursor, St, Unextractable
    from .facts import linform, lin_eq, LinUnx
    lm = inherent_methods(F, LEXER)
    cc = F.fn(lm["consume_char"])
    table = {}
    try:
        for left in ("L", "N"):
            for entered in ("L", "N"):
                cur = Cursor(F)
                cur.fn = lm["consume_char"]
                cur.present = {0, 1}
                outs = cur.run(cc["hir"]["value"], St(know={0: left, 1: entered}))
                effs = [s_.eff for kind, s_, v in outs if kind in ("normal", "return")]
                if len(effs) != 1:
                    effs = [{k_: (v_ if all(e2.get(k_) == v_ for e2 in effs) else "?") for k_, v_ in effs[0].items()}] if effs else [{}]
                table[(left, entered)] = effs[0]
    except Unextractable as ex:
        R.bad("consume_char|shape", f"UNEXTRACTABLE: consume_char uses a construct the cursor analysis does not model ({ex})", cc["sp"])
        return
    want = {"L": {"row": ("+", 1), "col": ("=", 0)}, "N": {"row": None, "col": ("+", 1)}}
    bad = []
    for (left, entered), eff in sorted(table.items()):
        got = {"row": eff.get("row"), "col": eff.get("col")}
        if got != want[left]:
            bad.append(f"leaving a {'newline' if left == 'L' else 'non-newline'} and entering a {'newline' if entered == 'L' else 'non-newline'}: row {got['row'] or 'unchanged'}, col {got['col'] or 'unchanged'}")
        if eff.get("pos") != ("+", 1):
            bad.append(f"pos {eff.get('pos')} instead of += 1")
    if bad:
        R.bad("consume_char", "consume_char does not keep (row, col) on the character under the cursor (a newline belongs to the line it ends; the row changes when the cursor leaves it): " + "; ".join(bad[:3]) + ". The newline token and every error that names it (`Expected REGISTER, found NEWLINE` after `add a0, a1`) carry the line and column of the *next* line together with the raw offset of this one", cc["sp"])
    else:
        R.ok("consume_char", detail="leaving a newline: row += 1, col = 0; leaving anything else: col += 1; independent of the character entered", where=cc["sp"])
    # get_pos: Position::new(row, col, pos)
    gp = F.fn(lm["get_pos"])
    news = [c for c in walk(gp["hir"]["value"], pats=False) if c.get("k") == "Call" and (callee_of(c) or "").endswith("Position::new") and len(c["args"]) == 3]
    if len(news) != 1:
        R.bad("get_pos|shape", "UNEXTRACTABLE: get_pos does not build one Position::new(line, column, raw)", gp["sp"])
    else:
        lets = local_inits(gp["hir"]["value"])
        okp, why = True, []
        for arg, fld in zip(news[0]["args"], ("row", "col", "pos")):
            try:
                lf = linform(arg, lets)
                if not lin_eq(lf, {fld: 1}):
                    okp = False
                    why.append(f"{fld} -> {lf}")
            except LinUnx as ex:
                okp = False
                why.append(f"{fld}: {ex}")
        if okp:
            R.ok("get_pos", detail="get_pos = Position::new(row, col, pos)", where=gp["sp"])
        else:
            R.bad("get_pos", f"get_pos does not hand the cursor's (row, col, pos) on unchanged ({'; '.join(why)}): a conditional adjustment makes two different characters share one position", gp["sp"])
    # Lexer::new: (0, 0, 0)
    nf = F.fn(lm["new"])
    st = [n for n in walk(nf["hir"]["value"], pats=False) if n.get("k") == "Struct" and (n.get("res") or "").endswith("lexer::Lexer")]
    if not st:
        R.bad("initial-state|shape", "UNEXTRACTABLE: Lexer::new builds no Lexer literal", nf["sp"])
        return
    flds = {x["name"]: x["e"] for x in st[0]["fields"]}
    lets = local_inits(nf["hir"]["value"])
    # a tuple binding `let (row, col) = (0, 0);`
    for s_ in walk(nf["hir"]["value"], pats=False):
        if s_.get("k") == "Let" and s_["pat"].get("k") == "PTuple" and s_.get("init") is not None and peel(s_["init"]).get("k") == "Tup":
            for p_, e_ in zip(s_["pat"]["pats"], peel(s_["init"])["elems"]):
                if p_.get("k") == "PBinding":
                    lets[p_["name"]] = e_
    vals = {}
    for fld in ("row", "col", "pos"):
        try:
            lf = linform(flds.get(fld, {}), lets)
            vals[fld] = lf.get("", None) if all(v == 0 for k_, v in lf.items() if k_) else "?"
        except LinUnx:
            vals[fld] = "?"
    if vals == {"row": 0, "col": 0, "pos": 0}:
        R.ok("initial-state", detail="Lexer::new starts at (row, col, pos) = (0, 0, 0): the first character of the text", where=nf["sp"])
    else:
        R.bad("initial-state", f"Lexer::new starts at (row, col, pos) = ({vals['row']}, {vals['col']}, {vals['pos']}) - possibly depending on the first character - instead of (0, 0, 0): positions on the first line, or after a leading blank line, are shifted against all later lines", nf["sp"])


@rule("C09", "C09.c.index-bases", floor=4)
@rule("C18", "C18.n.index-bases", floor=4)
def c09c(F, R):
    """compact output is 1-based in line and columns, pretty output indexes the file 0-based and prints line+1, JSON is 0-based throughout"""
    acc = lambda f: sorted(n["name"] for n in walk(f["hir"]["value"], pats=False) if n.get("k") == "MethodCall" and re.match(r"(zero|one)_idx_|raw_index", n["name"]))
    fc = fn_by_suffix(F, "PrettyPrint::format_item_compact")
    a = acc(fc)
    if a == ["one_idx_column", "one_idx_column", "one_idx_line"]:
        R.ok("compact", detail="compact: one_idx_line, one_idx_column x2")
    else:
        R.bad("compact", f"compact output mixes index bases: {a}", fc["sp"])
    fi = fn_by_suffix(F, "PrettyPrint::format_item")
    a = acc(fi)
    if a == ["zero_idx_column", "zero_idx_column", "zero_idx_line"]:
        R.ok("pretty-accessors", detail="pretty: zero-based line (to index the file) and columns")
    else:
        R.bad("pretty-accessors", f"pretty output uses {a}", fi["sp"])
    line_var = None
    for s in walk(fi["hir"]["value"], pats=False):
        if s.get("k") == "Let" and s.get("init") and mentions_call(s["init"], "zero_idx_line") and s["pat"].get("k") == "PBinding":
            line_var = s["pat"]["name"]
    gl = [n for n in walk(fi["hir"]["value"], pats=False) if n.get("k") == "Call" and short(callee_of(n) or "") == "get_line"]
    fr = [n for n in walk(fi["hir"]["value"], pats=False) if n.get("k") == "Call" and short(callee_of(n) or "") == "format_region"]
    if line_var and gl and fr and ekey(gl[0]["args"][1]) == line_var and ekey(fr[0]["args"][1]) == line_var:
        R.ok("pretty-line-use", detail="the same 0-based line selects the text and is passed to format_region")
    else:
        R.bad("pretty-line-use", "the line used to fetch the source text is not the one passed to format_region", fi["sp"])
    fg = fn_by_suffix(F, "PrettyPrint::format_region")
    lp = fg["hir"]["params"][1].get("name")
    plus1 = False
    for s in walk(fg["hir"]["value"], pats=False):
        if s.get("k") == "Let" and s.get("init"):
            e = peel(s["init"])
            if e.get("k") == "Binary" and e["op"] == "Add" and ekey(e["a"]) == lp and lit_value(e["b"]) == 1:
                plus1 = True
    if plus1:
        R.ok("pretty-line+1", detail="format_region prints line + 1")
    else:
        R.bad("pretty-line+1", "format_region no longer converts the 0-based line to 1-based for display", fg["sp"])
    # the accessors mean what their names say: zero_idx_x is the stored x, one_idx_x is x + 1
    from .facts import linform, lin_eq, LinUnx
    POS_ = "riscv_analysis::parser::position::Position"
    inh = inherent_methods_of(F, POS_)
    for nm, want in (("zero_idx_line", {"line": 1}), ("one_idx_line", {"line": 1, "": 1}), ("zero_idx_column", {"column": 1}), ("one_idx_column", {"column": 1, "": 1}), ("raw_index", {"raw_index": 1})):
        pth = inh.get(nm)
        if not pth or "hir" not in F.fns.get(pth, {}):
            R.bad(f"accessor|{nm}|missing", f"Position::{nm} not found", None)
            continue
        g_ = F.fn(pth)
        try:
            got = linform(g_["hir"]["value"])
        except LinUnx as ex:
            R.bad(f"accessor|{nm}|unextractable", f"UNEXTRACTABLE: Position::{nm} ({ex})", g_["sp"])
            continue
        if lin_eq(got, want):
            R.ok(f"accessor|{nm}", detail=f"Position::{nm}() = {' + '.join((k or str(v)) for k, v in want.items())}", where=g_["sp"])
        else:
            R.bad(f"accessor|{nm}", f"Position::{nm}() computes {got}: every output that names its index base through this accessor (compact lines and columns, `Range` in messages) is off by one against the JSON and editor outputs", g_["sp"])
    # JSON
    pj = None
    for i in F.impls:
        if i["self_ty"].endswith("wrapper::PositionTestCase") and (i.get("trait_ref") or "").endswith("From<&riscv_analysis::parser::position::Position>>"):
            pj = [it["path"] for it in i["items"] if it["name"] == "from"][0]
    if pj is None:
        raise Anchor("From<&Position> for PositionTestCase not found")
    f = F.fn(pj)
    st = [n for n in walk(f["hir"]["value"], pats=False) if n.get("k") == "Struct"]
    want = {"line": "zero_idx_line", "column": "zero_idx_column", "raw": "raw_index"}
    got = {x["name"]: peel(x["e"]).get("name") for x in st[0]["fields"]} if st else {}
    for k, v in want.items():
        if got.get(k) == v:
            R.ok(f"json|{k}", detail=f"json {k} <- {v}()")
        else:
            R.bad(f"json|{k}", f"JSON field `{k}` is filled from {got.get(k)}(), expected {v}()", f["sp"])
    # editor (thorough tier: the lsp crate is in the fact base): our ranges end ON their last character, an LSP range ends after it
    tr = [q for q in F.fns if q.endswith("::to_range") and "riscv_analysis_lsp" in q]
    for q in tr:
        g = F.fn(q)
        st = [n for n in walk(g["hir"]["value"], pats=False) if n.get("k") == "Struct" and any(x["name"] == "character" for x in n.get("fields", []))]
        ends = [x for n in st for x in n["fields"] if x["name"] == "character" and mentions_call(x["e"], "end")]
        if not ends:
            R.bad("lsp|range-end", "UNEXTRACTABLE: the end character of the editor range not found", g["sp"])
            continue
        e = ends[0]["e"]
        plus = any(b_.get("k") == "Binary" and b_["op"] == "Add" and lit_value(b_["b"]) == 1 and mentions_call(b_["a"], "zero_idx_column") for b_ in walk(e, pats=False)) or mentions_call(e, "one_idx_column")
        if plus:
            R.ok("lsp|range-end", detail="editor range end = column of the last character + 1", where=loc(e))
        else:
            R.bad("lsp|range-end", "the editor range ends at the column of the last character of the reported text; LSP range ends are exclusive, so the last character is not covered", loc(e))


# ============================================================================ C18
SEVT = "riscv_analysis::passes::lint_error::SeverityLevel"


@rule("C18", "C18.b.severity-vocabulary", floor=4)
def c18b(F, R):
    """every SeverityLevel -> word table of the printers maps each level to the same word"""
    tables = []
    for p, f in sorted(F.fns.items()):
        if "hir" not in f or f["crate"] not in ("rva", "riscv_analysis_cli", "riscv_analysis_lsp"):
            continue
        for m in find_matches(f["hir"]["value"]):
            vs = [v for a in m["arms"] for k, v in pat_variants(a["pat"]) if k == "path"]
            if vs and all(v and v.startswith(SEVT + "::") for v in vs):
                tab = {}
                for v, arm in arm_table(m):
                    ls = str_lits(arm["body"])
                    tab[v] = ls[0] if len(ls) == 1 else None
                if any(tab.values()):
                    tables.append((p.split("::{closure")[0], tab, m))
    if not tables:
        raise Anchor("no severity word table found in the CLI")
    # every output channel that shows a level gets its word from such a table (each its own, or one that all of them share)
    impls = [i for i in F.impls if (i.get("trait") or "").split("::")[-1] == "ErrorDisplay"]
    if len(impls) < 2:
        raise Anchor(f"only {len(impls)} ErrorDisplay impls")
    cg = F.callgraph()
    holders = {t[0] for t in tables}
    for i in impls:
        name = short(i["self_ty"])
        start = [it["path"] for it in i["items"] if it["name"] == "display_errors"]
        seen, todo = set(), list(start)
        while todo:
            q = todo.pop()
            if q in seen:
                continue
            seen.add(q)
            todo += [c for c in cg.get(q, ()) if c in F.fns and F.fns[c].get("crate") in ("rva", "riscv_analysis_cli")]
        reads_level = any(n.get("k") == "Field" and n["name"] == "level" and "SeverityLevel" in (n.get("ty") or "") for q in seen if "hir" in F.fns.get(q, {}) for n in walk(F.fns[q]["hir"]["value"], pats=False))
        if seen & holders:
            R.ok(f"{name}|words-from-a-table", detail=f"{name} gets its level words from {sorted(short(h) for h in seen & holders)}")
        elif reads_level:
            R.bad(f"{name}|words-from-a-table", f"{name} reads the level of a diagnostic but reaches no SeverityLevel -> word table: what it prints for a level is not tied to the words of the other channels", F.fn(start[0])["sp"] if start else None)
        else:
            R.ok(f"{name}|words-from-a-table", detail=f"{name} does not show levels", trivial=True)
    ref = tables[0][1]
    for i, (p, tab, m) in enumerate(tables, 1):
        for v in F.variants(SEVT):
            key = f"{short(p)}#{i}|{v}"
            if v not in tab:
                R.bad(key, f"severity table in {p} has no word for {v}", loc(m))
            elif tab[v] != ref.get(v) or not tab[v]:
                R.bad(key, f"{p} prints {v} as {tab[v]!r}; another channel prints {ref.get(v)!r}", loc(m))
            else:
                R.ok(key, detail=f"{v} -> {tab[v]!r}")


PIPE = ["parse_from_file", "gen_full_cfg", "run_diagnostics", "from_displayable", "sort", "from"]


def pipeline(F, f, inline):
    """ordered pipeline callees of a function body (HIR pre-order), Manager::run inlined"""
    seq = []
    for n in walk(f["hir"]["value"], pats=False):
        if n.get("k") not in ("Call", "MethodCall"):
            continue
        c = callee_of(n) or ""
        dc = declared_callee(n) or ""
        nm = short(c)
        if c.endswith("RVParser::<T>::parse_from_file"):
            recv, args = call_recv_args(n)
            seq.append(("parse_from_file", lit_value(args[1]) if len(args) > 1 else None))
        elif c.endswith("Manager::run") and inline:
            seq += pipeline(F, F.fn(c), False)
        elif c.endswith("Manager::gen_full_cfg"):
            seq.append(("gen_full_cfg", None))
        elif c.endswith("Manager::run_diagnostics"):
            seq.append(("run_diagnostics", None))
        elif c.endswith("DiagnosticItem::from_displayable"):
            seq.append(("from_displayable", None))
        elif (dc.endswith("convert::From::from") or dc.endswith("::from")) and "DiagnosticItem" in (n.get("ty") or ""):
            seq.append(("DiagnosticItem::from", None))
        elif n.get("k") in ("MethodCall", "Call") and any(peel(a_).get("k") == "Path" and (peel(a_).get("res") or "").endswith("::from") and "DiagnosticItem" in (peel(a_).get("res") or "") + (peel(a_).get("ty") or "") for a_ in n.get("args", [])):
            # `.map(DiagnosticItem::from)`: the conversion passed as a function value
            seq.append(("DiagnosticItem::from", None))
        elif n.get("k") == "MethodCall" and n["name"] == "sort" and "DiagnosticItem" in (n["recv"].get("ty", "") + n["recv"].get("aty", "")):
            seq.append(("sort", None))
        elif n.get("k") == "MethodCall" and n["name"] in LOSES - {"push", "extend", "append", "insert"} and "DiagnosticItem" in (n["recv"].get("ty", "") + n["recv"].get("aty", "")):
            seq.append((n["name"], None))
    return seq


@rule("C18", "C18.a.pipeline-siblings", floor=3)
def c18a(F, R):
    """the CLI pipeline and RVParser::run perform the same ordered steps (parse without ignoring imports, convert parse errors, build the CFG, run the lints, convert, sort)"""
    lib = fn_by_suffix(F, "RVParser::<T>::run")
    cli = F.fn("rva::main")
    a, b = pipeline(F, lib, True), pipeline(F, cli, True)
    # the CLI main has extra branches for other sub-commands: compare the first occurrence of each step
    def norm(s):
        out = []
        for x in s:
            if x not in out:
                out.append(x)
        return out
    na, nb = norm(a), norm(b)
    R.note(f"library pipeline: {na}")
    R.note(f"CLI pipeline:     {nb}")
    if na == [x for x in nb if x in na] and set(na) == set(x for x in nb if x[0] != "parse_from_file" or x in na):
        R.ok("same-steps", detail={"library": [x[0] for x in na], "cli": [x[0] for x in nb]})
    else:
        R.bad("same-steps", f"pipelines differ: library {na} vs CLI {nb}", cli["sp"])
    pf = [x for x in nb if x[0] == "parse_from_file"]
    if ("parse_from_file", False) in na and ("parse_from_file", False) in pf:
        R.ok("imports-followed", detail="both call parse_from_file(_, false): .include is followed")
    else:
        R.bad("imports-followed", f"parse_from_file ignore_imports flags: library {[x for x in na if x[0] == 'parse_from_file']}, CLI {pf}", cli["sp"])
    # sort before print (MIR dominance in main)
    from .mirutil import Body
    B = Body(cli)
    sorts = [bi for bi, t in B.calls() if short(t.get("resolved") or t.get("callee") or "") == "sort" and "DiagnosticItem" in " ".join(t.get("arg_tys", []) + t.get("gargs", []))]
    prints = [(bi, t) for bi, t in B.calls() if short(t.get("resolved") or t.get("callee") or "") == "display_errors"]
    if sorts and prints and all(any(B.dominates(s, pb) for s in sorts) for pb, _ in prints):
        R.ok("sort-before-print", detail=f"diags.sort() dominates all {len(prints)} display_errors calls")
    else:
        R.bad("sort-before-print", f"a printer can run without the preceding diags.sort() (sorts {sorts}, printers {[b for b, _ in prints]})", cli["sp"])


@rule("C18", "C18.d.file-selection", floor=2)
def c18d(F, R):
    """every printer applies the same file selection (base file only unless --all-files)"""
    impls = [i for i in F.impls if (i.get("trait") or "").split("::")[-1] == "ErrorDisplay"]
    if len(impls) < 2:
        raise Anchor(f"only {len(impls)} ErrorDisplay impls")
    for i in impls:
        dp = [it["path"] for it in i["items"] if it["name"] == "display_errors"][0]
        f = F.fn(dp)
        name = short(i["self_ty"])
        if mentions_call(f["hir"]["value"], "get_base_file"):
            R.ok(name, detail=f"{name} consults reader.get_base_file()")
        else:
            R.bad(name, f"{name}::display_errors prints every diagnostic without consulting the base-file filter: it disagrees with the other printers on multi-file input", f["sp"])


KEEPS = {"clone", "iter", "map", "collect", "len", "is_empty", "into_iter", "partition", "enumerate", "cloned", "copied", "by_ref", "for_each",
         "as_slice", "to_vec", "to_owned", "as_ref", "borrow", "peekable", "inspect", "iter_mut", "as_mut_slice"}
LOSES = {"dedup", "dedup_by", "dedup_by_key", "retain", "retain_mut", "filter", "filter_map", "take", "take_while", "skip", "skip_while", "step_by",
         "truncate", "drain", "pop", "remove", "swap_remove", "split_off", "clear", "first", "last", "nth", "find", "find_map", "position",
         "min", "max", "min_by", "max_by", "min_by_key", "max_by_key", "rev", "reverse", "sort_by", "sort_by_key", "sort_unstable",
         "sort_unstable_by", "sort_unstable_by_key", "sort_by_cached_key", "swap", "rotate_left", "rotate_right", "chunks", "windows",
         "split_first", "split_last", "get", "extract_if", "map_while", "scan", "flat_map", "fuse", "zip", "chain", "push", "insert", "extend", "append"}


@rule("C18", "C18.e.printers-emit-every-diagnostic", floor=2)
def c18e(F, R):
    """every printer walks its whole stored diagnostics list once, in stored order: only element- and order-preserving operations touch the list, the loop has no early exit, and the only `continue` is the base-file selection"""
    impls = [i for i in F.impls if (i.get("trait") or "").split("::")[-1] == "ErrorDisplay"]
    if len(impls) < 2:
        raise Anchor(f"only {len(impls)} ErrorDisplay impls")
    for i in impls:
        name = short(i["self_ty"])
        # field that holds the diagnostics
        adt = F.adt(i["self_ty"])
        flds = [fl["name"] for v in adt["variants"] for fl in v["fields"] if "DiagnosticItem" in fl["ty"]]
        if len(flds) != 1:
            raise Anchor(f"{name}: fields holding diagnostics: {flds}")
        root = "self." + flds[0]
        # every method of the type (and its closures) that touches the field
        tybodies = [(q, g) for q, g in F.fns.items() if "hir" in g and (q.startswith(i["self_ty"] + "::") or q.startswith("<" + i["self_ty"] + " as "))]
        problems = []
        touched = 0
        for q, g in tybodies:
            body = g["hir"]["value"]
            pm = parent_map(body)
            derived = set()
            work = [n for n in walk(body, pats=False) if n.get("k") == "Field" and ekey(n) == root]
            seen = set()
            while work:
                n = work.pop()
                if id(n) in seen:
                    continue
                seen.add(id(n))
                touched += 1
                x = n
                while id(x) in pm:
                    par = pm[id(x)]
                    k = par.get("k")
                    if k in ("DropTemps", "Use", "Cast", "Unary"):
                        x = par
                        continue
                    if k == "AddrOf":
                        if par.get("mut"):
                            # &mut list handed to something: only a whitelisted method receiver may follow
                            gp = pm.get(id(par), {})
                            if not (gp.get("k") == "MethodCall" and gp.get("recv") is par):
                                problems.append((f"mut-borrow|{short(q)}", f"`&mut {root}` escapes in {q}: the list can be emptied or rewritten before printing (e.g. mem::take + dedup)", loc(par)))
                                break
                        x = par
                        continue
                    if k == "MethodCall" and par.get("recv") is x:
                        m = par["name"]
                        if m in LOSES:
                            problems.append((f"{m}|{short(q)}", f"`{m}` is applied to the diagnostics list in {q}: this channel drops, reorders or adds diagnostics that the others report (`dedup` compares DiagnosticItem by range+file only)", loc(par)))
                            break
                        if m not in KEEPS and m != "sort":
                            problems.append((f"unclassified:{m}|{short(q)}", f"`{m}` on the diagnostics list in {q} is not a known element- and order-preserving operation", loc(par)))
                            break
                        if m == "collect" and not (par.get("ty") or "").startswith("alloc::vec::Vec"):
                            problems.append((f"collect|{short(q)}", f"the diagnostics are collected into `{par.get('ty')}` in {q}, not a Vec: order/duplicates are not preserved", loc(par)))
                            break
                        x = par
                        continue
                    if k == "Call" and any(a is x for a in par.get("args", [])):
                        c = callee_of(par) or declared_callee(par) or ""
                        if short(c) == "into_iter":
                            x = par
                            continue
                        if c.endswith("mem::take") or c.endswith("mem::replace") or c.endswith("mem::swap"):
                            problems.append((f"{short(c)}|{short(q)}", f"`{c}` moves the diagnostics list out in {q}", loc(par)))
                        break
                    if k == "Assign" and par.get("l") is x and short(q) != "new":
                        problems.append((f"assign|{short(q)}", f"{root} is reassigned in {q}", loc(par)))
                        break
                    if k == "Let" and par.get("init") is x and par["pat"].get("k") == "PBinding":
                        nm = par["pat"]["name"]
                        if nm not in derived:
                            derived.add(nm)
                            work += [y for y in walk(body, pats=False) if y.get("k") == "Path" and y.get("res") == nm]
                        break
                    if k == "Let" and par.get("init") is x and par["pat"].get("k") == "PTuple" and x.get("k") == "MethodCall" and x["name"] == "partition":
                        # `let (shown, hidden) = list.into_iter().partition(..)`: two order-preserving sub-lists that together hold every element
                        for b_ in walk(par["pat"]):
                            if b_.get("k") == "PBinding" and b_["name"] not in derived:
                                derived.add(b_["name"])
                                work += [y for y in walk(body, pats=False) if y.get("k") == "Path" and y.get("res") == b_["name"]]
                        break
                    break
        f = F.fn([it["path"] for it in i["items"] if it["name"] == "display_errors"][0])
        # loops over the list: no break/return; continue only under the base-file selection
        parts = {b_["name"] for st_ in walk(f["hir"]["value"], pats=False) if st_.get("k") == "Let" and st_["pat"].get("k") == "PTuple" and st_.get("init") is not None
                 and any(m_.get("k") == "MethodCall" and m_["name"] == "partition" for m_ in walk(st_["init"], pats=False)) and any(n.get("k") == "Field" and ekey(n) == root for n in walk(st_["init"], pats=False))
                 for b_ in walk(st_["pat"]) if b_.get("k") == "PBinding"}
        for fl in for_loops(f["hir"]["value"]):
            it = fl["iter"]
            if not any(n.get("k") == "Field" and ekey(n) == root for n in walk(it, pats=False)) and not any(n.get("k") == "Path" and n.get("res") in parts for n in walk(it, pats=False)):
                continue
            pmb = parent_map(fl["body"])
            for n in walk(fl["body"], pats=False):
                if n.get("k") in ("Break", "Ret"):
                    problems.append((f"early-exit|{n['k']}", f"`{n['k'].lower()}` inside the loop over the diagnostics: the remaining diagnostics are not printed", loc(n)))
                if n.get("k") == "Continue":
                    conds = []
                    x = n
                    while id(x) in pmb:
                        x = pmb[id(x)]
                        if x.get("k") == "If":
                            conds.append(x["cond"])
                    txt = " ".join(ekey(c) for c in conds)
                    allc = [y for c in conds for y in walk(c, pats=False)]
                    # conditions may be spelled through named locals (`let in_other_file = ..; if in_other_file && ..`)
                    lets_all = {s_["pat"]["name"]: s_ for s_ in walk(f["hir"]["value"], pats=False) if s_.get("k") == "Let" and s_["pat"].get("k") == "PBinding" and s_.get("init") is not None}
                    for _ in range(3):
                        extra = [y for z in allc if z.get("k") == "Path" and z.get("res_kind") == "Local" and z.get("res") in lets_all for y in walk(lets_all[z["res"]]["init"], pats=False)]
                        seen_ids = {id(y) for y in allc}
                        extra = [y for y in extra if id(y) not in seen_ids]
                        if not extra:
                            break
                        allc += extra
                    sel = any(y.get("k") == "Field" and y.get("name") == "all_files" for y in allc) and \
                        any(y.get("k") == "MethodCall" and y["name"] == "get_base_file" for y in allc) and \
                        any(y.get("k") == "Field" and y.get("name") == "file" for y in allc)
                    if not sel:
                        problems.append(("continue|not-file-selection", f"a diagnostic is skipped under `{txt[:120]}`, which is not the base-file/--all-files selection", loc(n)))
        if touched == 0:
            raise Anchor(f"{name}: no use of {root} found")
        if problems:
            for k, msg, where in problems:
                R.bad(f"{name}|{k}", msg, where)
        else:
            R.ok(name, detail=f"{name}: {touched} uses of {root}, all element- and order-preserving; no early exit")


def _unicode_summary(F):
    """reviewed summary of Lexer::unicode_code, valid only while its shape holds: the four characters at offsets 2..5 are
    read with `peek(k)?`, validated as hexadecimal digits (`to_digit(16)`, failure leaves the function with None) and converted
    (`char::from_u32(..)?`) *before* `skip_char(4)` steps over offsets 0..3.  Returns a summary function, or a string that
    says which part of the contract is broken."""
    from .lexcursor import St
    f = F.fn(LEXER + "::unicode_code")
    body = peel(f["hir"]["value"])
    stmts = (body.get("stmts") or []) + ([{"k": "Expr", "e": body["expr"]}] if body.get("expr") is not None else [])

    def idx_of(pred):
        return [i for i, st in enumerate(stmts) if any(pred(m) for m in walk(st, pats=False))]
    peeks = sorted(lit_value(m["args"][0]) for m in walk(body, pats=False) if m.get("k") == "MethodCall" and m["name"] == "peek" and m["args"])
    dig_i = idx_of(lambda m: m.get("k") == "MethodCall" and m["name"] == "to_digit" and m["args"] and lit_value(m["args"][0]) == 16)
    conv_i = idx_of(lambda m: m.get("k") == "Call" and (callee_of(m) or "").endswith("from_u32"))
    arrays = {st["pat"]["name"]: len(peel(st["init"])["elems"]) for st in walk(body, pats=False)
              if st.get("k") == "Let" and st["pat"].get("k") == "PBinding" and st.get("init") is not None and peel(st["init"]).get("k") == "Array"}

    def count_of(a):
        """a literal, or `<array local>.len()` of an array literal in this function"""
        v = lit_value(a)
        if v is not None:
            return v
        a = peel(a)
        if a.get("k") == "MethodCall" and a["name"] == "len" and not a["args"] and peel(a["recv"]).get("k") == "Path" and peel(a["recv"]).get("res") in arrays:
            return arrays[peel(a["recv"])["res"]]
        return None
    skip_i = idx_of(lambda m: m.get("k") == "MethodCall" and m["name"] == "skip_char" and m["args"] and count_of(m["args"][0]) == 4)
    skips = [count_of(m["args"][0]) for m in walk(body, pats=False) if m.get("k") == "MethodCall" and m["name"] == "skip_char"]
    consumes = [m for m in walk(body, pats=False) if m.get("k") == "MethodCall" and m["name"] == "consume_char"]
    if peeks != [2, 3, 4, 5] or not dig_i or skips != [4] or consumes:
        return "UNEXTRACTABLE: Lexer::unicode_code no longer has the reviewed shape (peek 2..5, to_digit(16), one skip_char(4))"
    if min(skip_i) <= max(dig_i) or (conv_i and min(skip_i) < max(conv_i)):
        return "Lexer::unicode_code moves the cursor (`skip_char(4)`) before the four characters are validated as hexadecimal digits: a truncated `\\u` escape at the end of a line steps over the newline, and the following line is dropped by the error recovery"
    f_sp = f["sp"]

    def summary(cur, e, st):
        # requires offsets 0 and 1 to be known (the backslash and the `u`)
        outs = [("normal", St(know=st.know, consts=st.consts, moved=st.moved), ("tag", "None"))]
        s = St(know=st.know, consts=st.consts, moved=st.moved)
        for o in (2, 3, 4, 5):
            s.know[o] = "N"
        for _ in range(4):
            if s.know.get(0) is None:
                cur.viol.setdefault("unicode_code|skip_char(4)", ("skip_char(4) in unicode_code steps over a character that was not validated", f_sp))
            s = s.shift()
        outs.append(("normal", s, ("tag", "Some")))
        return outs
    return summary


@rule("C07", "C07.i.newline-consumed-only-as-a-token", floor=12)
def c07i(F, R):
    """abstract interpretation of the lexer's cursor: every `consume_char()` reachable from `Lexer::next` steps over a character already established not to be a newline (or, in the Newline arm, known to be one); a token or an error that swallows the line break glues the following line to the current one"""
    from .lexcursor import Cursor, Unextractable
    summ = _unicode_summary(F)
    if isinstance(summ, str):
        R.bad("unicode_code|summary", summ, F.fn(LEXER + "::unicode_code")["sp"])
        return
    nxt = [F.method(LEXER, "next", trait="Iterator")]
    cur = Cursor(F, summaries={"unicode_code": summ})
    try:
        outs = cur.analyse(nxt[0])
    except Unextractable as ex:
        R.bad("unextractable", f"UNEXTRACTABLE: the lexer uses a construct the cursor analysis does not model: {ex}", F.fn(nxt[0])["sp"])
        return
    for key, where in sorted(cur.sites.items()):
        if key in cur.viol:
            R.bad(key, cur.viol[key][0], cur.viol[key][1])
        else:
            R.ok(key, detail="the character stepped over is established (pattern, comparison or class predicate) on every path", where=where)
    for key, (msg, where) in cur.viol.items():
        if key not in cur.sites:
            R.bad(key, msg, where)
    R.note(f"cursor analysis: {len(cur.sites)} consume sites (with calling context), {len(outs)} exit states of next(); reviewed summary used for: {sorted(cur.used_summaries)}")

@rule("C09", "C09.o.an-unterminated-literal-ends-at-its-last-character", floor=2)
def c09o(F, R):
    """the cursor analysis, for the end of a range: a string that meets the end of its line (or of the input) is reported from its quote to its last character.
    The lexer remembers that position in a local as it goes; where the error is built, the remembered character is the one just before the cursor
    (offset -1) on every path - remembered before an escape sequence is stepped over, it is the backslash, and the range stops short of `\t` / `\u00e9`"""
    from .lexcursor import Cursor, Unextractable
    summ = _unicode_summary(F)
    if isinstance(summ, str):
        R.bad("unicode_code|summary", summ, F.fn(LEXER + "::unicode_code")["sp"])
        return
    nxt = [F.method(LEXER, "next", trait="Iterator")]
    cur = Cursor(F, summaries={"unicode_code": summ})
    try:
        cur.analyse(nxt[0])
    except Unextractable as ex:
        R.bad("unextractable", f"UNEXTRACTABLE: the lexer uses a construct the cursor analysis does not model: {ex}", F.fn(nxt[0])["sp"])
        return
    n = 0
    for key, (where, seen) in sorted(cur.pos_uses.items()):
        fn_, what, nm = key.split("|")
        if what not in ("Newline", "Unclosed"):
            continue
        n += 1
        offs = {o for o, k0 in seen}
        if offs == {-1}:
            R.ok(key, detail=f"`{nm}` is the character just before the cursor wherever the {what} error is built", where=where)
        elif None in offs:
            R.bad(key, f"the {what} error of {fn_} ends at `{nm}`, which on some path is not known to be the last character stepped over (it was taken before a call that moves the cursor - an escape sequence - or is not a position taken by get_pos): the reported range stops short of the text it is about (`.asciz \"ends in tab\\t` is reported up to the backslash)", where)
        else:
            R.bad(key, f"the {what} error of {fn_} ends at `{nm}`, the character at offset {sorted(offs)} from the cursor instead of the one just before it", where)
    if n == 0:
        raise Anchor("no unterminated-string error built from a remembered position")


@rule("C06", "C06.x.lexer-loops-advance", floor=4)
def c06x(F, R):
    """the cursor analysis once more, for termination: every path that goes round a scanning loop of the lexer (`while let Some(c) = self.current()`, `loop { .. }`) has stepped over at least one character since the loop head. The loops test nothing but the characters at the cursor, so a path that returns to the head with the cursor where it was takes the same path again: `if c == '\n' { continue }` in place of `break` hangs the lexer on the first line break after a bad escape"""
    from .lexcursor import Cursor, Unextractable
    summ = _unicode_summary(F)
    if isinstance(summ, str):
        R.bad("unicode_code|summary", summ, F.fn(LEXER + "::unicode_code")["sp"])
        return
    nxt = [F.method(LEXER, "next", trait="Iterator")]
    cur = Cursor(F, summaries={"unicode_code": summ})
    try:
        cur.analyse(nxt[0])
    except Unextractable as ex:
        R.bad("unextractable", f"UNEXTRACTABLE: the lexer uses a construct the cursor analysis does not model: {ex}", F.fn(nxt[0])["sp"])
        return
    for key, (msg, where) in sorted(cur.stalls.items()):
        R.bad(key, msg, where)
    for lp, where in sorted(cur.loops_seen.items()):
        if lp not in cur.stalls:
            R.ok(lp, detail=f"every path round this loop of {lp.split('|')[0]} consumes a character", where=where)


@rule("C09", "C09.h.positions-are-not-taken-on-a-line-break", floor=15)
def c09h(F, R):
    """the cursor analysis again: wherever the lexer takes a position for a token or an error (`get_pos()`, `get_range()`), the cursor stands on a character of the token: not on a line break (a range that ends there runs over the end of its line - `Invalid string .. at 2 12:1`; the newline token itself is the one exception) and not past the last character of the input (a symbol, directive or unclosed literal that ends the file would get an end offset outside the file)"""
    from .lexcursor import Cursor, Unextractable
    summ = _unicode_summary(F)
    if isinstance(summ, str):
        R.bad("unicode_code|summary", summ, F.fn(LEXER + "::unicode_code")["sp"])
        return
    nxt = [F.method(LEXER, "next", trait="Iterator")]
    cur = Cursor(F, summaries={"unicode_code": summ})
    try:
        cur.analyse(nxt[0])
    except Unextractable as ex:
        R.bad("unextractable", f"UNEXTRACTABLE: the lexer uses a construct the cursor analysis does not model: {ex}", F.fn(nxt[0])["sp"])
        return
    for key, (where, k0) in sorted(cur.pos_sites.items()):
        newline_arm = "|'\\n'|" in key or "|'\n'|" in key
        if newline_arm:
            R.ok(key, detail="the newline token's own position", where=where)
        elif k0 == "L":
            R.bad(key, "a position is taken while the cursor is on a line break: the range (or error position) built from it includes the line break, which is no part of the token or literal the message is about", where)
        elif k0 is None or "L" in k0:
            R.bad(key, "a position is taken on a character that has not been tested: if it is the line break (`'a` at the end of a line), the range built from it runs over the end of the line", where)
        elif "E" in k0:
            R.bad(key, "a position is taken where the cursor may already be past the last character of the input (a token or an unclosed literal that the end of the file cuts short): its raw offset is the length of the text - one past the character the range should end on, and outside the file", where)
        else:
            R.ok(key, detail="position taken on a character established not to be a line break", where=where)


@rule("C18", "C18.h.excerpt-is-cut-at-the-first-visible-character", floor=1)
def c18h(F, R):
    """the pretty excerpt is left-aligned by dropping the leading blanks of the line: the offset used for the marker is the index of the *first* non-blank character (the search loop stops at its first hit), or the marker is shifted left by the length of the line's last word"""
    fr = [q for q in F.fns if q.endswith("PrettyPrint::format_region")]
    if not fr:
        raise Anchor("PrettyPrint::format_region not found")
    g = F.fn(fr[0])
    body = g["hir"]["value"]
    hits = 0
    for fl in for_loops(body):
        if not (mentions_call(fl["iter"], "chars") or mentions_call(fl["iter"], "char_indices")):
            continue
        for iff in walk(fl["body"], pats=False):
            if iff.get("k") != "If" or not mentions_call(iff["cond"], "is_whitespace"):
                continue
            assigns = [a_ for a_ in walk(iff["then"], pats=False) if a_.get("k") == "Assign"]
            if not assigns:
                continue
            hits += 1
            negated = any(u.get("k") == "Unary" and u["op"] == "Not" for u in walk(iff["cond"], pats=False))
            leaves = any(y.get("k") in ("Break", "Ret") for y in walk(iff["then"], pats=False))
            if negated and leaves:
                R.ok("first-non-blank", detail="the search stops at the first non-blank character", where=loc(iff))
            else:
                R.bad("first-non-blank", "the search for the first non-blank character of the excerpt line does not stop at its first hit (or tests for blanks instead of non-blanks): the offset is that of a later character and the marker no longer sits under the reported columns", loc(iff))
    # the marker line really gets its carets: `base.replace_range(offset.., &arrows)` (or a push of the carets)
    carets = [st for st in walk(body, pats=False) if st.get("k") == "Let" and st["pat"].get("k") == "PBinding" and st.get("init") is not None and any(lit_value(x) == "^" for x in walk(st["init"], pats=False))]
    if carets:
        A = carets[0]["pat"]["name"]
        placed = [m for m in walk(body, pats=False) if m.get("k") == "MethodCall" and m["name"] in ("replace_range", "push_str", "insert_str", "extend") and any(x.get("k") == "Path" and x.get("res") == A for a_ in m["args"] for x in walk(a_, pats=False))]
        fmt_use = [c for c in walk(body, pats=False) if c.get("k") in ("Call", "MacCall") and "format" in (callee_of(c) or ekey(c)) and any(x.get("k") == "Path" and x.get("res") == A for x in walk(c, pats=False))]
        if placed or fmt_use:
            R.ok("carets-placed", detail=f"the carets `{A}` are put into the marker line", where=loc((placed or fmt_use)[0]))
        else:
            R.bad("carets-placed", f"the carets (`{A}`) are built but never put into the marker line: the excerpt shows no marker at all", loc(carets[0]))
    else:
        R.bad("carets-placed|shape", "UNEXTRACTABLE: format_region builds no caret string", g["sp"])
    if hits == 0:
        # another form: `text.chars().position(|c| !c.is_whitespace())` / `find`
        alt = [m for m in walk(body, pats=False) if m.get("k") == "MethodCall" and m["name"] in ("position", "find") and mentions_call(m, "is_whitespace")]
        if alt:
            R.ok("first-non-blank", detail=f"`.{alt[0]['name']}(..is_whitespace..)` yields the first hit", where=loc(alt[0]))
        else:
            R.bad("first-non-blank|shape", "UNEXTRACTABLE: format_region no longer looks for the first non-blank character of the line", g["sp"])


@rule("C18", "C18.i.what-is-formatted-is-printed", floor=2)
def c18i(F, R):
    """in each printer the text produced for a diagnostic is written to the output on the path that produced it: the result of `format_item` / `format_item_compact` / the JSON text flows into a `print!`; a formatter whose result is dropped makes one output channel silent while the others still report"""
    impls = [i for i in F.impls if (i.get("trait") or "").split("::")[-1] == "ErrorDisplay"]
    if len(impls) < 2:
        raise Anchor(f"only {len(impls)} ErrorDisplay impls")
    n = 0
    for i in impls:
        name = short(i["self_ty"])
        dp = [it["path"] for it in i["items"] if it["name"] == "display_errors"]
        if not dp:
            continue
        g = F.fn(dp[0])
        body = g["hir"]["value"]
        prints = [c for c in walk(body, pats=False) if c.get("k") == "Call" and short(callee_of(c) or "") in ("_print", "_eprint", "write_fmt", "write_str")]
        printed = set()
        for c in prints:
            for x in walk(c, pats=False):
                if x.get("k") == "Path" and x.get("res_kind") == "Local":
                    printed.add((x["res"], x.get("lid")))
        for st in walk(body, pats=False):
            if st.get("k") != "Let" or st["pat"].get("k") != "PBinding" or st.get("init") is None:
                continue
            init = st["init"]
            producers = [m.get("name") or short(callee_of(m) or "") for m in walk(init, pats=False) if m.get("k") in ("MethodCall", "Call")]
            if not any(p_ in ("format_item", "format_item_compact", "to_string_pretty", "to_string", "format") for p_ in producers):
                continue
            if st["pat"]["name"] in ("end_str",):
                continue
            if not any(p_ in ("format_item", "format_item_compact", "to_string_pretty") for p_ in producers):
                continue
            n += len({p_ for p_ in producers if p_ in ("format_item", "format_item_compact", "to_string_pretty")})
            key = f"{name}|{st['pat']['name']}|{'+'.join(sorted({p_ for p_ in producers if p_ in ('format_item', 'format_item_compact', 'to_string_pretty')}))}"
            if (st["pat"]["name"], st["pat"].get("lid")) in printed or (st["pat"].get("lid") is None and any(n_ == st["pat"]["name"] for n_, _ in printed)):
                R.ok(key, detail="formatted, then printed", where=loc(st))
            else:
                R.bad(key, f"{name}::display_errors formats a diagnostic into `{st['pat']['name']}` and never prints it: this output mode shows nothing for diagnostics the other modes report", loc(st))
    if n < 3:
        R.bad("coverage", f"only {n} formatted-then-printed values found in the printers (expected the pretty, the compact and the JSON text)", None)


@rule("C18", "C18.j.file-selection-is-exact", floor=1)
def c18j(F, R):
    """the printer that honours `--all-files` skips a diagnostic exactly when it lies in another file and `--all-files` is off: the skip condition is evaluated for the four combinations of (same file, all files)"""
    dp = [q for q in F.fns if q.endswith("PrettyPrint as rva::printer::ErrorDisplay>::display_errors")]
    if not dp:
        raise Anchor("PrettyPrint::display_errors not found")
    g = F.fn(dp[0])
    body = g["hir"]["value"]
    ifs = [n for n in walk(body, pats=False) if n.get("k") == "If" and any(y.get("k") == "Continue" for y in walk(n["then"], pats=False)) and any(x.get("k") == "Field" and x["name"] == "all_files" for x in walk(n["cond"], pats=False))]
    lets_j = {s_["pat"]["name"]: s_ for s_ in walk(body, pats=False) if s_.get("k") == "Let" and s_["pat"].get("k") == "PBinding" and s_.get("init") is not None}
    if len(ifs) != 1:
        # the selection written as `let (shown, hidden) = list.partition(|d| <shown test>)`
        part = [m_ for m_ in walk(body, pats=False) if m_.get("k") == "MethodCall" and m_["name"] == "partition" and m_["args"] and peel(m_["args"][0]).get("k") == "Closure"]
        if len(part) == 1:
            cl = peel(part[0]["args"][0])

            def classify_p(e):
                if e.get("k") == "Field" and e["name"] == "all_files":
                    return "all"
                if e.get("k") == "Path" and e.get("res_kind") == "Local" and e.get("res") in lets_j and peel(lets_j[e["res"]]["init"]).get("k") == "Field" and peel(lets_j[e["res"]]["init"])["name"] == "all_files":
                    return "all"
                if e.get("k") == "Binary" and e["op"] in ("Eq", "Ne") and any(x.get("k") == "Field" and x["name"] == "file" for x in walk(e, pats=False)):
                    return "same" if e["op"] == "Eq" else "differs"
                if e.get("k") == "MethodCall" and e["name"] in ("map_or", "is_none_or") and e["args"]:
                    # `base.map_or(true, |b| d.file == b)`: without a base file everything is shown; else the comparison
                    dflt = lit_value(e["args"][0]) if e["name"] == "map_or" else True
                    cl2 = peel(e["args"][-1])
                    if dflt is True and cl2.get("k") == "Closure":
                        b2 = peel(cl2["body"])
                        while b2.get("k") == "Block" and not b2.get("stmts") and b2.get("expr") is not None:
                            b2 = peel(b2["expr"])
                        if b2.get("k") == "Binary" and b2["op"] in ("Eq", "Ne") and any(x.get("k") == "Field" and x["name"] == "file" for x in walk(b2, pats=False)):
                            return "same" if b2["op"] == "Eq" else "differs"
                return None
            wrong = []
            try:
                for same in (True, False):
                    for allf in (True, False):
                        r = bool_eval(cl["body"], classify_p, {"same": same, "differs": not same, "all": allf})
                        if r != (same or allf):
                            wrong.append(f"same file = {same}, --all-files = {allf}: shown = {r}")
            except BoolUnx as ex:
                R.bad("condition|unextractable", f"UNEXTRACTABLE: file-selection predicate of `partition` ({ex})", loc(part[0]))
                return
            if wrong:
                R.bad("condition", f"the pretty/compact printer selects the diagnostics to show under the wrong condition ({wrong[0]})", loc(part[0]))
            else:
                R.ok("condition", detail="shown iff same file or --all-files (partition form)", where=loc(part[0]))
            return
        R.bad("shape", f"UNEXTRACTABLE: expected one `if <file test && all_files test> {{ .. continue }}` in PrettyPrint::display_errors, found {len(ifs)}", g["sp"])
        return


    def classify(e):
        if e.get("k") == "Field" and e["name"] == "all_files":
            return "all"
        if e.get("k") == "Binary" and e["op"] in ("Eq", "Ne") and any(x.get("k") == "Field" and x["name"] == "file" for x in walk(e, pats=False)) and not any(x.get("k") == "Field" and x["name"] == "all_files" for x in walk(e, pats=False)):
            return "same" if e["op"] == "Eq" else "differs"
        if e.get("k") == "Path" and e.get("res_kind") == "Local" and e.get("res") in lets_j:
            # `let in_other_file = base.is_some_and(|b| err.file != b)`: one comparison of the file ids, nothing negated around it
            init = lets_j[e["res"]]["init"]
            cmps = [x for x in walk(init, pats=False) if x.get("k") == "Binary" and x["op"] in ("Eq", "Ne") and any(y.get("k") == "Field" and y["name"] == "file" for y in walk(x, pats=False))]
            negs = [x for x in walk(init, pats=False) if x.get("k") == "Unary" and x["op"] == "Not"]
            wraps = {m_["name"] for m_ in walk(init, pats=False) if m_.get("k") == "MethodCall"} - {"get_base_file", "is_some_and", "map_or", "clone", "copied"}
            if len(cmps) == 1 and not negs and not wraps and not any(x.get("k") == "Field" and x["name"] == "all_files" for x in walk(init, pats=False)):
                return "same" if cmps[0]["op"] == "Eq" else "differs"
        return None
    wrong = []
    try:
        for same in (True, False):
            for allf in (True, False):
                r = bool_eval(ifs[0]["cond"], classify, {"same": same, "differs": not same, "all": allf})
                if r != ((not same) and (not allf)):
                    wrong.append(f"same file = {same}, --all-files = {allf}: skipped = {r}")
    except BoolUnx as ex:
        R.bad("condition|unextractable", f"UNEXTRACTABLE: file-selection condition ({ex})", loc(ifs[0]))
        return
    if wrong:
        R.bad("condition", f"the pretty/compact printer skips a diagnostic under the wrong condition ({wrong[0]}): the base file's own diagnostics vanish, or those of other files appear without --all-files, while the other channels still follow the option", loc(ifs[0]))
    else:
        R.ok("condition", detail="skipped iff another file and not --all-files", where=loc(ifs[0]))


@rule("C07", "C07.p.recovery-stops-at-the-line-end", floor=1)
def c07p(F, R):
    """`recover_from_parse_error` discards tokens up to and including the next newline token and no further: its loop leaves exactly when the token *is* the newline; leaving on anything else ends the recovery after one token and the rest of the bad line is parsed as fresh statements"""
    rp = [q for q in F.fns if q.endswith("recover_from_parse_error") and "{closure" not in q]
    if not rp:
        raise Anchor("recover_from_parse_error not found")
    g = F.fn(rp[0])
    body = g["hir"]["value"]
    loops = list(for_loops(body))

    def classify(e):
        if e.get("k") == "Binary" and e["op"] in ("Eq", "Ne") and any((x.get("res") or "").endswith("TokenType::Newline") for x in walk(e, pats=False) if x.get("k") == "Path"):
            return "is_nl" if e["op"] == "Eq" else "not_nl"
        if e.get("k") == "Match" and len(e.get("arms", [])) == 2 and any(v and v.endswith("TokenType::Newline") for k_, v in pat_variants(e["arms"][0]["pat"]) if k_ == "path") and lit_value(e["arms"][0]["body"]) is True:
            return "is_nl"
        return None
    if not loops:
        # iterator form: `.find(|t| *t == Newline)` / `.position(..)` / `.any(..)` consume up to and including the first hit
        finds = [m for m in walk(body, pats=False) if m.get("k") == "MethodCall" and m["name"] in ("find", "position", "any") and m["args"] and peel(m["args"][0]).get("k") == "Closure"]
        if len(finds) == 1:
            cl = peel(finds[0]["args"][0])
            try:
                a = bool_eval(cl["body"], classify, {"is_nl": True, "not_nl": False})
                b = bool_eval(cl["body"], classify, {"is_nl": False, "not_nl": True})
            except BoolUnx as ex:
                R.bad("condition|unextractable", f"UNEXTRACTABLE: recovery stop condition ({ex})", loc(finds[0]))
                return
            if a is True and b is False:
                R.ok("condition", detail=f"`.{finds[0]['name']}(is newline)` consumes up to and including the newline token", where=loc(finds[0]))
            else:
                R.bad("condition", f"the recovery stops at a token for which `is newline` is {not a if a is not None else a}: newline -> {a}, other -> {b}", loc(finds[0]))
            return
    if len(loops) != 1:
        R.bad("shape", f"UNEXTRACTABLE: expected one token loop in recover_from_parse_error, found {len(loops)}", g["sp"])
        return
    lp = loops[0]
    ifs = [n for n in walk(lp["body"], pats=False) if n.get("k") == "If" and any(y.get("k") in ("Break", "Ret") for y in walk(n["then"], pats=False))]
    if len(ifs) != 1:
        R.bad("shape", f"UNEXTRACTABLE: expected one `if <token is newline> {{ break }}`, found {len(ifs)}", g["sp"])
        return

    def classify(e):
        if e.get("k") == "Binary" and e["op"] in ("Eq", "Ne") and any((x.get("res") or "").endswith("TokenType::Newline") for x in walk(e, pats=False) if x.get("k") == "Path"):
            return "is_nl" if e["op"] == "Eq" else "not_nl"
        if e.get("k") == "Match" and len(e.get("arms", [])) == 2 and any(v and v.endswith("TokenType::Newline") for k_, v in pat_variants(e["arms"][0]["pat"]) if k_ == "path") and lit_value(e["arms"][0]["body"]) is True:
            return "is_nl"
        return None
    try:
        a = bool_eval(ifs[0]["cond"], classify, {"is_nl": True, "not_nl": False})
        b = bool_eval(ifs[0]["cond"], classify, {"is_nl": False, "not_nl": True})
    except BoolUnx as ex:
        R.bad("condition|unextractable", f"UNEXTRACTABLE: recovery stop condition ({ex})", loc(ifs[0]))
        return
    if a is True and b is False:
        R.ok("condition", detail="the loop leaves exactly on the newline token", where=loc(ifs[0]))
    else:
        R.bad("condition", f"the recovery loop leaves when the token is{'' if b else ' not'} something other than the newline (newline -> {a}, other -> {b}): the rest of a malformed line is not skipped but parsed as new statements, or the skip runs on into the following lines", loc(ifs[0]))


@rule("C18", "C18.l.other-file-diagnostics-are-counted", floor=2)
@rule("C16", "C16.h.other-file-diagnostics-are-counted", floor=2)
@rule("C15", "C15.g.other-file-diagnostics-are-counted", floor=2)
def c15g(F, R):
    """a diagnostic that is not shown because it lies in another file is counted, and the count is announced: the counter starts at 0, is incremented by 1 exactly where the diagnostic is skipped, and the notice is printed when it is greater than 0"""
    dp = [q for q in F.fns if q.endswith("PrettyPrint as rva::printer::ErrorDisplay>::display_errors")]
    if not dp:
        raise Anchor("PrettyPrint::display_errors not found")
    g = F.fn(dp[0])
    body = g["hir"]["value"]
    skip = [n for n in walk(body, pats=False) if n.get("k") == "If" and any(y.get("k") == "Continue" for y in walk(n["then"], pats=False)) and any(x.get("k") == "Field" and x["name"] == "all_files" for x in walk(n["cond"], pats=False))]
    prints_ = lambda blk: any(c.get("k") == "Call" and short(callee_of(c) or "") == "_print" for c in walk(blk, pats=False))

    def no_exit_before(notice):
        """nothing leaves the function before the notice (an early `return` when nothing is shown hides the count as well)"""
        top = peel(body)
        stmts_ = top.get("stmts", []) + ([top["expr"]] if top.get("expr") is not None else [])
        for st in stmts_:
            if st is notice or any(y is notice for y in walk(st, pats=False)):
                return None
            for y in walk(st, pats=False):
                if y.get("k") == "Closure":
                    continue
                if y.get("k") == "Ret" and not any(y is z for cl_ in walk(st, pats=False) if cl_.get("k") == "Closure" for z in walk(cl_, pats=False)):
                    return y
        return None
    if len(skip) != 1:
        # partition form: `let (shown, hidden) = ..partition(..)`, notice under `!hidden.is_empty()` / `hidden.len() > 0`
        tl = [st for st in walk(body, pats=False) if st.get("k") == "Let" and st["pat"].get("k") == "PTuple" and st.get("init") is not None and any(m_.get("k") == "MethodCall" and m_["name"] == "partition" for m_ in walk(st["init"], pats=False))]
        names_ = [b_["name"] for st in tl for b_ in walk(st["pat"]) if b_.get("k") == "PBinding"]
        notes = [n for n in walk(body, pats=False) if n.get("k") == "If" and prints_(n["then"]) and any(x.get("k") == "Path" and x.get("res") in names_ for x in walk(n["cond"], pats=False))]
        if len(tl) != 1 or len(names_) != 2 or not notes:
            R.bad("shape", "UNEXTRACTABLE: the skip of other-file diagnostics was not found", g["sp"])
            return
        hidden = names_[1]
        R.ok("increment", detail=f"diagnostics that are not shown are collected in `{hidden}` (partition)", where=loc(tl[0]))
        c = peel(notes[0]["cond"])
        while c.get("k") in ("DropTemps", "Use"):
            c = peel(c["e"])
        pos = (c.get("k") == "Unary" and c["op"] == "Not" and peel(c["a"]).get("k") == "MethodCall" and peel(c["a"])["name"] == "is_empty" and ekey(peel(c["a"])["recv"]).lstrip("&*") == hidden) or \
              (c.get("k") == "Binary" and c["op"] in ("Gt", "Ne") and lit_value(c["b"]) == 0 and peel(c["a"]).get("k") == "MethodCall" and peel(c["a"])["name"] == "len" and ekey(peel(c["a"])["recv"]).lstrip("&*") == hidden)
        if pos:
            R.ok("announced", detail=f"the notice is printed when `{hidden}` is not empty", where=loc(notes[0]))
        else:
            R.bad("announced", "the count of diagnostics in other files is not announced exactly when it is positive", loc(notes[0]))
        ex = no_exit_before(notes[0])
        if ex is None:
            R.ok("reached", detail="nothing leaves display_errors before the notice", where=loc(notes[0]))
        else:
            R.bad("reached", "display_errors can return before the notice about diagnostics in other files: when the base file itself is clean and the only diagnostics - for instance the error that stopped the analysis - lie in an included file, the output is empty", loc(ex))
        return
    incs = [a_ for a_ in walk(skip[0]["then"], pats=False) if a_.get("k") == "AssignOp" and a_["op"] == "AddAssign" and lit_value(a_["r"]) == 1]
    if len(incs) != 1:
        R.bad("increment", "the branch that skips a diagnostic of another file does not count it (`counter += 1`)", loc(skip[0]))
        return
    C = ekey(incs[0]["l"])
    R.ok("increment", detail=f"`{C} += 1` where the diagnostic is skipped", where=loc(incs[0]))
    init = [st for st in walk(body, pats=False) if st.get("k") == "Let" and st["pat"].get("k") == "PBinding" and st["pat"]["name"] == C]
    if init and lit_value(init[0].get("init") or {}) == 0:
        R.ok("starts-at-zero", detail=f"`{C}` starts at 0", where=loc(init[0]))
    else:
        R.bad("starts-at-zero", f"the counter `{C}` of diagnostics in other files does not start at 0", loc(init[0]) if init else g["sp"])
    notes = [n for n in walk(body, pats=False) if n.get("k") == "If" and n is not skip[0] and any(x.get("k") == "Path" and x.get("res") == C for x in walk(n["cond"], pats=False)) and any(c.get("k") == "Call" and short(callee_of(c) or "") == "_print" for c in walk(n["then"], pats=False))]
    okn = False
    for n in notes:
        c = peel(n["cond"])
        while c.get("k") in ("DropTemps", "Use"):
            c = peel(c["e"])
        if c.get("k") == "Binary" and ((c["op"] == "Gt" and lit_value(c["b"]) == 0) or (c["op"] == "Ge" and lit_value(c["b"]) == 1) or (c["op"] == "Ne" and lit_value(c["b"]) == 0)) and ekey(c["a"]) == C:
            okn = True
    if okn:
        R.ok("announced", detail=f"the notice is printed when `{C}` > 0", where=loc(notes[0]))
    else:
        R.bad("announced", f"the count of diagnostics in other files is not announced exactly when it is positive: a single hidden diagnostic (or all of them) goes unmentioned", loc(notes[0]) if notes else g["sp"])
    if notes:
        ex = no_exit_before(notes[0])
        if ex is None:
            R.ok("reached", detail="nothing leaves display_errors before the notice", where=loc(notes[0]))
        else:
            R.bad("reached", "display_errors can return before the notice about diagnostics in other files: when the base file itself is clean and the only diagnostics - for instance the error that stopped the analysis - lie in an included file, the output is empty", loc(ex))


@rule("C19", "C19.f.the-dump-is-printed", floor=2)
@rule("C18", "C18.m.every-channel-is-written", floor=3)
def c18m(F, R):
    """in the CLI every output the user asks for is produced: each printer that is constructed has `display_errors` called on it, and the text of the YAML / debug dump of the graph is handed to `println!`"""
    if "rva::main" not in F.fns:
        raise Anchor("rva::main not found")
    g = F.fns["rva::main"]
    body = g["hir"]["value"]
    # printers
    for st in walk(body, pats=False):
        if st.get("k") == "Let" and st["pat"].get("k") == "PBinding" and st.get("init") is not None:
            ctor = [c for c in walk(st["init"], pats=False) if c.get("k") == "Call" and re.search(r"printer::(JSONPrint|PrettyPrint)::new$", callee_of(c) or "")]
            if not ctor:
                continue
            nm, lid = st["pat"]["name"], st["pat"].get("lid")
            used = [m for m in walk(body, pats=False) if m.get("k") == "MethodCall" and m["name"] == "display_errors" and peel(m["recv"]).get("res") == nm and (lid is None or peel(m["recv"]).get("lid") in (None, lid))]
            which = short((callee_of(ctor[0]) or "").rsplit("::", 1)[0])
            if used:
                R.ok(f"printer|{which}", detail="constructed and asked to display", where=loc(st))
            else:
                R.bad(f"printer|{which}", f"a {which} is constructed in `main` but `display_errors` is never called on it: that output mode prints nothing", loc(st))
    # dumps
    prints = [c for c in walk(body, pats=False) if c.get("k") == "Call" and short(callee_of(c) or "") == "_print"]
    for what, test in (("yaml", lambda c: c.get("k") == "Call" and (callee_of(c) or "").startswith("serde_yaml") and short(callee_of(c)) == "to_string"),):
        sites = [c for c in walk(body, pats=False) if test(c)]
        for c in sites:
            inside = any(any(y is c for y in walk(p_, pats=False)) for p_ in prints)
            if inside:
                R.ok(f"dump|{what}", detail="serialized and printed", where=loc(c))
            else:
                R.bad(f"dump|{what}", f"the {what} dump of the graph is serialized but not printed", loc(c))
    ym = [st for st in walk(body, pats=False) if st.get("k") == "If" and any(x.get("k") == "Field" and x["name"] == "yaml" for x in walk(st["cond"], pats=False))]
    if not ym:
        R.bad("dump|yaml|option", "`--yaml` is no longer looked at in `main`", g["sp"])
    elif not any(any(y is p_ for y in walk(d_["then"], pats=False)) and any(c.get("k") == "Call" and (callee_of(c) or "").startswith("serde_yaml") for c in walk(p_, pats=False)) for d_ in ym for p_ in prints):
        R.bad("dump|yaml|printed", "under `--yaml` nothing serialized by serde_yaml is printed: the dump the property is about does not appear", loc(ym[0]))
    else:
        R.ok("dump|yaml|printed", detail="--yaml prints serde_yaml::to_string(&wrapped)", where=loc(ym[0]))
    dbg = [st for st in walk(body, pats=False) if st.get("k") == "If" and any(x.get("k") == "Field" and x["name"] == "debug" for x in walk(st["cond"], pats=False))]
    if dbg:
        if any(any(y is p_ for y in walk(d_["then"], pats=False)) for d_ in dbg for p_ in prints):
            R.ok("dump|debug", detail="--debug prints the graph", where=loc(dbg[0]))
        else:
            R.bad("dump|debug", "`--debug` no longer prints the graph", loc(dbg[0]))

@rule("C18", "C18.o.marker-spans-the-reported-columns", floor=1)
@rule("C09", "C09.j.marker-spans-the-reported-columns", floor=1)
def c18o(F, R):
    """the marker under a source excerpt is as long as the reported range: ranges end ON their last character, so the run of `^` has `end - start + 1` characters. Read off `format_region` as a linear form in its `start`/`end` parameters"""
    from .facts import linform, lin_eq, LinUnx, local_inits
    fg = fn_by_suffix(F, "PrettyPrint::format_region")
    body = fg["hir"]["value"]
    params = [p_.get("name") for p_ in fg["hir"]["params"]]
    reps = [m for m in walk(body, pats=False) if m.get("k") == "MethodCall" and m["name"] == "repeat" and lit_value(m["recv"]) == "^"]
    if len(reps) != 1 or len(params) < 4:
        R.bad("shape", "UNEXTRACTABLE: no single `\"^\".repeat(..)` in PrettyPrint::format_region", fg["sp"])
        return
    start_p, end_p = params[2], params[3]
    # follow `let end = end + 1;` style shadowing in statement order: an initialiser is read in the bindings before it
    def subst(lf, env):
        out = {"": 0}
        for n_, c_ in lf.items():
            if n_ and n_ in env:
                for k2, c2 in env[n_].items():
                    out[k2] = out.get(k2, 0) + c_ * c2
            else:
                out[n_] = out.get(n_, 0) + c_
        return out
    env = {}
    top = peel(body)
    for st in top.get("stmts", []):
        if any(y is reps[0] for y in walk(st, pats=False)):
            break
        if st.get("k") == "Let" and st["pat"].get("k") == "PBinding" and st.get("init") is not None:
            try:
                env[st["pat"]["name"]] = subst(linform(st["init"], None), env)
            except LinUnx:
                env.pop(st["pat"]["name"], None)
                env[st["pat"]["name"]] = {"?" + st["pat"]["name"]: 1}
    try:
        got = subst(linform(reps[0]["args"][0], None), env)
    except LinUnx as ex:
        R.bad("unextractable", f"UNEXTRACTABLE: marker length ({ex})", loc(reps[0]))
        return
    want = {end_p: 1, start_p: -1, "": 1}
    if lin_eq(got, want):
        R.ok("marker-length", detail=f"the marker has {end_p} - {start_p} + 1 characters", where=loc(reps[0]))
    else:
        R.bad("marker-length", f"the marker under the excerpt has {got} characters; the reported range covers {end_p} - {start_p} + 1: the last character of the register / instruction the message is about is not marked (or one more is)", loc(reps[0]))


@rule("C18", "C18.f.excerpt-gutter-matches-printed-number", floor=1)
@rule("C09", "C09.i.excerpt-gutter-matches-printed-number", floor=1)
def c18f(F, R):
    """in the pretty excerpt the blank gutter of the marker line is as wide as the line-number gutter above it: its width is computed from the very value that is printed as the line number (same binding) plus the literal characters printed before the number; otherwise the marker slides off the reported columns on lines 10, 100, ..."""
    fr = [q for q in F.fns if q.endswith("PrettyPrint::format_region")]
    if not fr:
        raise Anchor("PrettyPrint::format_region not found")
    f = F.fn(fr[0])
    body = f["hir"]["value"]
    calls = format_calls_ex(body)
    tmpl = None
    for pcs in calls:
        lits = "".join(p_[1] for p_ in pcs if p_[0] == "lit")
        if lits.count("|") >= 3 and lits.count("\n") >= 3:
            tmpl = pcs
    if tmpl is None:
        R.bad("template", "UNEXTRACTABLE: the three-line excerpt template was not found in format_region", f["sp"])
        return
    # split the pieces into output lines
    lines, cur = [], []
    for pc in tmpl:
        if pc[0] == "lit":
            parts = pc[1].split("\n")
            for i, part in enumerate(parts):
                if i > 0:
                    lines.append(cur)
                    cur = []
                if part:
                    cur.append(("lit", part))
        else:
            cur.append(pc)
    if cur:
        lines.append(cur)
    if len(lines) < 3:
        R.bad("template", f"UNEXTRACTABLE: excerpt template has {len(lines)} lines", f["sp"])
        return

    def gutter(ln):
        """pieces before the first `|` of a line"""
        out = []
        for pc in ln:
            if pc[0] == "lit" and "|" in pc[1]:
                out.append(("lit", pc[1].split("|")[0]))
                return out
            out.append(pc)
        return None
    g = [gutter(ln) for ln in lines[:3]]
    if any(x is None for x in g):
        R.bad("template", "UNEXTRACTABLE: an excerpt line has no `|` gutter", f["sp"])
        return
    num = [pc for pc in g[1] if pc[0] == "arg"]
    num_lit = sum(len(pc[1]) for pc in g[1] if pc[0] == "lit")
    lets = {}
    for st in walk(body, pats=False):
        if st.get("k") == "Let" and st["pat"].get("k") == "PBinding" and st.get("init"):
            lets[st["pat"].get("lid")] = st
    okk = True
    for gi in (0, 2):
        args = [pc for pc in g[gi] if pc[0] == "arg"]
        lit_len = sum(len(pc[1]) for pc in g[gi] if pc[0] == "lit")
        key = f"gutter|line{gi + 1}"
        if len(args) != 1 or len(num) != 1:
            R.bad(key, "UNEXTRACTABLE: gutter is not `<pad> |`", f["sp"])
            okk = False
            continue
        pad = peel(args[0][1]["e"])
        st = lets.get(pad.get("lid")) if pad.get("k") == "Path" else None
        rep = peel(st["init"]) if st else None
        width_e = None
        if rep is not None and rep.get("k") == "MethodCall" and rep["name"] == "repeat" and lit_value(rep["recv"]) == " ":
            width_e = peel(rep["args"][0])
            if width_e.get("k") == "Path" and width_e.get("lid") in lets:
                width_e = peel(lets[width_e["lid"]]["init"])
        if width_e is None:
            R.bad(key, f"UNEXTRACTABLE: the pad `{ekey(pad)}` is not `\" \".repeat(width)`", f["sp"])
            okk = False
            continue
        # width = <X>.to_string().len() + k
        k_const = 0
        core = width_e
        if core.get("k") == "Binary" and core["op"] == "Add":
            for side, other in ((core["a"], core["b"]), (core["b"], core["a"])):
                if isinstance(lit_value(other), int):
                    k_const, core = lit_value(other), peel(side)
                    break
        src = None
        if core.get("k") == "MethodCall" and core["name"] == "len":
            ts = peel(core["recv"])
            if ts.get("k") == "MethodCall" and ts["name"] == "to_string":
                src = peel(ts["recv"])
        shown = peel(num[0][1]["e"])
        if src is None or src.get("k") != "Path" or shown.get("k") != "Path":
            R.bad(key, f"UNEXTRACTABLE: gutter width `{ekey(width_e)}`", f["sp"])
            okk = False
            continue
        same = src.get("lid") is not None and src.get("lid") == shown.get("lid")
        # total widths: pad + literal == literal-before-number + digits(number)
        if same and k_const + lit_len == num_lit:
            R.ok(key, detail=f"gutter of excerpt line {gi + 1}: {k_const} + digits({src['res']}) spaces; the number line prints {num_lit} character(s) + {shown['res']} (same binding)")
        elif not same:
            R.bad(key, f"the blank gutter of excerpt line {gi + 1} is sized from `{src.get('res')}` as bound at {src.get('sp')}, but the number printed above it is another binding of `{shown.get('res')}` (e.g. the 0-based line vs the 1-based one): on lines 10, 100, 1000 the marker is one column left of the reported text", loc(src))
        else:
            R.bad(key, f"the blank gutter of excerpt line {gi + 1} is {k_const}+digits wide (+{lit_len} literal) while the number line prints {num_lit} character(s) before the number: the marker is shifted", loc(width_e))


_TOKEN_READS = ("get_any", "get_reg", "get_imm", "get_label", "get_string", "get_csrimm")


def _takes_token(n):
    return n.get("k") == "MethodCall" and (n["name"] in _TOKEN_READS or (n["name"].startswith("get_") and "AnnotatedLexer" in (n["recv"].get("ty") or "") + (n["recv"].get("aty") or "")))


def _loop_paths(e, c):
    """outcomes of evaluating e, entered with `a token was taken = c`: {(status, taken)}, status: next (control goes on) | continue | exit (break / return / `?`)"""
    if e is None:
        return {("next", c)}
    k = e.get("k")
    if k in ("Break", "Ret"):
        return {("exit", c2) if st == "next" else (st, c2) for st, c2 in (_loop_paths(e["e"], c) if e.get("e") is not None else {("next", c)})}
    if k == "Continue":
        return {("continue", c)}
    if k == "Closure":
        return {("next", c)}
    if k == "Loop":
        return {("next", c or any(_takes_token(y) for y in walk(e, pats=False)))}      # an inner loop is judged on its own
    if k == "Block":
        return _loop_seq(list(e.get("stmts", [])) + ([e["expr"]] if e.get("expr") is not None else []), c)
    if k == "Let":
        out = set()
        for st, c2 in _loop_seq([e["init"]] if e.get("init") is not None else [], c):
            out.add((st, c2))
            if st == "next" and e.get("els") is not None:
                out |= {(st3 if st3 != "next" else "exit", c3) for st3, c3 in _loop_paths(e["els"], c2)}      # an else block diverges
        return out
    if k in ("Semi", "Expr") and e.get("e") is not None:
        return _loop_paths(e["e"], c)
    if k == "If":
        out = set()
        for st, c2 in _loop_paths(e["cond"], c):
            if st != "next":
                out.add((st, c2))
                continue
            out |= _loop_paths(e["then"], c2)
            out |= _loop_paths(e["else"], c2) if e.get("else") is not None else {("next", c2)}
        return out
    if k == "Match":
        out = set()
        for st, c2 in _loop_paths(e["scrut"], c):
            if st != "next":
                out.add((st, c2))
                continue
            for a in e["arms"]:
                for st3, c3 in (_loop_paths(a["guard"], c2) if a.get("guard") is not None else {("next", c2)}):
                    if st3 != "next":
                        out.add((st3, c3))
                    else:
                        out |= _loop_paths(a["body"], c3)
        return out
    if k == "LetExpr":
        return _loop_paths(e["init"], c)
    # any other expression: its operands in order, then the node itself
    return {(st, (c2 or _takes_token(e)) if st == "next" else c2) for st, c2 in _loop_seq(list(children(e, pats=False)), c)}


def _loop_seq(seq, c):
    cur = {("next", c)}
    for x in seq:
        nxt = set()
        for st, c2 in cur:
            if st != "next":
                nxt.add((st, c2))
            else:
                nxt |= _loop_paths(x, c2)
        cur = nxt
    return cur


@rule("C06", "C06.e.end-of-input-ends-token-loops", floor=3)
@rule("C07", "C07.k.end-of-input-ends-token-loops", floor=3)
def c07k(F, R):
    """at the end of the input the token readers answer `Ok` at most once per statement (a synthetic end-of-statement token guarded by a flag it sets), a look-ahead is never passed through `?`, and every `loop` of the decoder that reads tokens leaves on a reader error: otherwise an unterminated `.macro` / a value list at the end of a file hangs or is dropped"""
    # (1) readers: a `None` arm (lexer exhausted) that produces Ok must be single-shot
    for q, g in sorted(F.fns.items()):
        if "hir" not in g or short(q) not in ("get_any", "peek_any") or "AnnotatedLexer" not in q:
            continue
        body = g["hir"]["value"]
        for m in find_matches(body):
            sc = peel(m["scrut"])
            if not (sc.get("k") == "MethodCall" and sc["name"] in ("next", "peek") and ekey(sc["recv"]).endswith(".lexer")):
                continue
            for a in m["arms"]:
                if pat_variants(a["pat"]) != [("path", "core::option::Option::None")]:
                    continue
                oks = [c for c in walk(a["body"], pats=False) if c.get("k") == "Call" and short(callee_of(c) or "") == "Ok" and (callee_of(c) or "").startswith("core::result")]
                if not oks:
                    R.ok(f"{short(q)}|exhausted", detail=f"{short(q)}: an exhausted lexer is an error", trivial=True)
                    continue
                gd = a.get("guard")
                flags = {f_["name"] for f_ in walk(gd or {}, pats=False) if f_.get("k") == "Field" and (f_.get("ty") or "") == "bool" and ekey(f_["e"]) == "self"}
                negs = {f_["name"] for u in walk(gd or {}, pats=False) if u.get("k") == "Unary" and u["op"] == "Not" for f_ in walk(u, pats=False) if f_.get("k") == "Field" and ekey(f_["e"]) == "self"}
                sets = {ekey(x["l"]).split(".")[-1] for x in walk(a["body"], pats=False) if x.get("k") == "Assign" and ekey(x["l"]).startswith("self.") and lit_value(x["r"]) is True}
                once = flags & negs & sets
                if once:
                    R.ok(f"{short(q)}|exhausted-ok-once", detail=f"{short(q)}: at end of input answers Ok only while `!self.{sorted(once)[0]}`, and sets it", where=loc(a))
                else:
                    R.bad(f"{short(q)}|exhausted-ok-once", f"{short(q)} can answer `Ok(..)` at the end of the input without a flag that limits it to once: a decoder loop that skips such tokens (`.macro` without `.end_macro`, a value list) never ends", loc(a))
    # (2)+(3) decoder loops and look-aheads
    p = F.method(PNODE, "try_from", trait_ref=r"TryFrom<&mut core::iter::adapters::peekable::Peekable")
    f = F.fn(p)
    body = f["hir"]["value"]
    pm = parent_map(body)
    n_peek = 0
    for mcall in walk(body, pats=False):
        if mcall.get("k") == "MethodCall" and mcall["name"] == "peek_any":
            n_peek += 1
            par = pm.get(id(mcall))
            gp = pm.get(id(par)) if par else None
            tried = par is not None and par.get("k") == "Call" and short(callee_of(par) or declared_callee(par) or "") == "branch" and gp is not None and gp.get("k") == "Match" and gp.get("src") == "TryDesugar"
            key = f"peek_any|{n_peek}"
            if tried:
                R.bad("peek_any|question-mark", "a look-ahead `peek_any()?` aborts the statement when the input ends there: a value list or an optional operand at the very end of a file drops the whole statement without a diagnostic", loc(mcall))
            else:
                R.ok(key, detail="the look-ahead result is inspected, not propagated", where=loc(mcall))
    n_loop = 0
    for lp in walk(body, pats=False):
        if lp.get("k") != "Loop":
            continue
        reads = [m for m in walk(lp["body"], pats=False) if m.get("k") == "MethodCall" and m["name"] in ("get_any", "peek_any", "get_reg", "get_imm", "get_label", "get_string", "get_csrimm")]
        if not reads:
            continue
        n_loop += 1
        # an exit that depends on a reader failing: `?` on a read, `let Ok(..) = read else { break }`, or a match arm on Err(..) that breaks/returns
        exits = False
        for m in reads:
            x = m
            for _ in range(4):
                x = pm.get(id(x))
                if x is None:
                    break
                if x.get("k") == "Match" and x.get("src") == "TryDesugar":
                    exits = True
                if x.get("k") == "Let" and x.get("els") is not None and any(y.get("k") in ("Break", "Ret") for y in walk(x["els"], pats=False)):
                    exits = True
                if x.get("k") == "Match" and x.get("src") != "TryDesugar":
                    for a in x["arms"]:
                        if any(v and v.endswith("Result::Err") for k_, v in pat_variants(a["pat"]) if k_ == "path") and any(y.get("k") in ("Break", "Ret") for y in walk(a["body"], pats=False)):
                            exits = True
        key = f"loop|{n_loop}"
        if exits:
            R.ok(key, detail="the loop is left when a token read fails (end of input)", where=loc(lp))
        else:
            R.bad(key, "a decoder loop reads tokens but has no exit on a failing read: it cannot end at the end of the input", loc(lp))
        # (4) ... and every way round the loop takes a token: a path that reaches the end of the body (or a `continue`) having only
        # looked ahead sees the same token again, for ever
        stalls = sorted({st for st, took in _loop_paths(lp["body"], False) if st in ("next", "continue") and not took})
        if stalls:
            R.bad(f"loop|{n_loop}|advances", "a path round this decoder loop reads no token (it only looks ahead, or tests what it saw) and does not leave the loop: the same token is seen again on the next round and the linter never returns - `.word 1` followed by a line that is neither a number nor the end of the line", loc(lp))
        else:
            R.ok(f"loop|{n_loop}|advances", detail="every path round the loop reads a token or leaves the loop", where=loc(lp))


@rule("C07", "C07.l.only-consume-char-moves-the-cursor", floor=3)
@rule("C09", "C09.f.only-consume-char-moves-the-cursor", floor=3)
def c09f(F, R):
    """`pos`, `row` and `col` of the lexer are written only by `consume_char` (and the constructor): any other writer lets the byte offset and the line/column drift apart (a skip that adds to `pos` loses the newline's row increment)"""
    cursor = {"pos", "row", "col"}
    n = 0
    for q, g in sorted(F.fns.items()):
        if "hir" not in g or not (q.startswith(LEXER + "::") or q.startswith("<" + LEXER + " as ")):
            continue
        name = short(q.split("::{closure")[0])
        for a in walk(g["hir"]["value"], pats=False):
            if a.get("k") in ("Assign", "AssignOp"):
                l = peel(a["l"])
                if l.get("k") == "Field" and ekey(l["e"]).lstrip("*&") == "self" and l["name"] in cursor:
                    n += 1
                    if name == "consume_char":
                        R.ok(f"consume_char|{l['name']}|{n}", detail=f"consume_char updates self.{l['name']}")
                    else:
                        R.bad(f"{name}|{l['name']}", f"`{name}` writes `self.{l['name']}` directly: only consume_char keeps offset, row and column in step, so every position after this point is reported with a wrong line or column", loc(a))
            if a.get("k") == "AddrOf" and a.get("mut"):
                l = peel(a["e"])
                if l.get("k") == "Field" and ekey(l["e"]).lstrip("*&") == "self" and l["name"] in cursor and name != "consume_char":
                    R.bad(f"{name}|{l['name']}|borrow", f"`{name}` takes `&mut self.{l['name']}`", loc(a))
    if n == 0:
        raise Anchor("no assignment to the lexer cursor found")


_DT = "riscv_analysis::parser::directive::DirectiveToken"


def _directive_stop_tests(body):
    """the `If` nodes inside loops of `body` whose condition is 'this directive is DirectiveToken::<X>', in any of the spellings: `d == X`, `matches!(d, X | Ok(X))`, `if let X | Ok(X) = d`, or a named boolean bound to one of those. -> [(variant, loop, if_node)]"""
    lets = {}
    for s_ in walk(body, pats=False):
        if s_.get("k") == "Let" and s_["pat"].get("k") == "PBinding" and s_.get("init") is not None:
            lets.setdefault(s_["pat"]["name"], s_)

    def dt_of_pat(pat):
        return sorted({short(y.get("res") or y.get("path") or "") for y in walk(pat) if ((y.get("res") or y.get("path") or "")).startswith(_DT + "::")})

    def variants(c, depth=0):
        c = peel_cond(c)
        if c.get("k") == "LetExpr":
            return dt_of_pat(c["pat"])
        c = peel(c)
        if c.get("k") == "Binary" and c["op"] == "And":
            return sorted(set(variants(c["a"], depth) + variants(c["b"], depth)))
        if c.get("k") == "MethodCall" and c["name"] in ("is_ok_and", "is_some_and") and c["args"] and peel(c["args"][0]).get("k") == "Closure":
            return variants(peel(c["args"][0])["body"], depth + 1)       # `from_str(d).is_ok_and(|t| t == DirectiveToken::X)`
        if c.get("k") == "Binary" and c["op"] == "Eq":
            out = []
            for side in (peel(c["a"]), peel(c["b"])):
                # the directive *value* is compared (`t == X`, `from_str(d) == Ok(X)`); `tok == TokenType::Directive(X.to_string())` compares one
                # spelling of X with the text - the other spellings the table accepts (`.end_macro` / `.endmacro`) do not match
                y = side
                while y.get("k") in ("AddrOf",) or (y.get("k") == "Unary" and y.get("op") == "Deref") or (y.get("k") == "Call" and short(callee_of(y) or "") in ("Ok", "Some") and len(y["args"]) == 1):
                    y = peel(y.get("e") or y.get("a") or y["args"][0])
                if y.get("k") == "Path" and (y.get("res") or "").startswith(_DT + "::"):
                    out.append(short(y["res"]))
            return sorted(set(out))
        if c.get("k") == "Match" and len(c.get("arms", [])) == 2 and lit_value(c["arms"][0]["body"]) is True:
            vs_ = dt_of_pat(c["arms"][0]["pat"])
            # `matches!(tok, TokenType::Directive(d) if DirectiveToken::from_str(d) == Ok(DirectiveToken::X))`: the variant sits in the guard
            if not vs_ and c["arms"][0].get("guard") is not None:
                vs_ = variants(c["arms"][0]["guard"], depth + 1)
            return vs_
        if c.get("k") == "Path" and c.get("res_kind") == "Local" and depth < 2 and c["res"] in lets:
            return variants(lets[c["res"]]["init"], depth + 1)
        return []

    out = []
    for lp in walk(body, pats=False):
        if lp.get("k") != "Loop":
            continue
        for x in walk(lp["body"], pats=False):
            if x.get("k") == "If":
                for v in variants(x["cond"]):
                    out.append((v, lp, x))
    return out



@rule("C07", "C07.m.directive-vocabulary", floor=22)
def c07m(F, R):
    """every directive spelling of the target assembler (RARS, reference/rars_directives.json) is in `DirectiveToken::from_str`, and the spelling that closes a macro there (`.end_macro`) maps to the variant on which the macro-skipping loop stops: a terminator the table does not know makes the loop discard the rest of the file without a word"""
    from .p_c08 import from_str_table, arm_table, ctor_names, ref
    DT = "riscv_analysis::parser::directive::DirectiveToken"
    rd = ref("rars_directives.json")
    m, lowered, p = from_str_table(F, R, DT, "DirectiveToken")
    text2var = {}
    for lit, arm in arm_table(m):
        if lit == "_":
            continue
        vs = ctor_names(arm["body"], DT)
        if len(vs) == 1:
            text2var[lit] = vs[0]
    if lowered:
        R.ok("lowercase", detail="directive spelling is lower-cased before the table")
    else:
        R.bad("lowercase", "DirectiveToken::from_str does not lower-case its input", loc(m))
    for d in rd["directives"]:
        if d in text2var:
            R.ok(f"directive|{d}", detail=f"{d} -> DirectiveToken::{text2var[d]}")
        else:
            R.bad(f"directive|{d}", f"the RARS directive `{d}` is not in DirectiveToken::from_str", loc(m))
    # the loop that skips a macro body: `if new_dir == DirectiveToken::<X> { break }` in any spelling
    pf = [q for q in F.fns if q.endswith("::try_from") and "ParserNode" in q and "TryFrom" in q]
    stops = []
    for q in pf:
        for v_, lp_, iff in _directive_stop_tests(F.fn(q)["hir"]["value"]):
            stops.append((v_, iff))
            if not any(y.get("k") == "Break" for y in walk(iff["then"], pats=False)):
                R.bad(f"macro-skip|leaves|{v_}", f"the macro-skipping loop compares a directive with {v_} but does not `break` when they are equal: the macro never ends and the rest of the file is discarded", loc(iff))
            else:
                R.ok(f"macro-skip|leaves|{v_}", detail=f"`break` on {v_}", where=loc(iff))
    stop_vs = sorted({v for v, _ in stops})
    if not stops:
        R.bad("macro-skip|stop", "UNEXTRACTABLE: no loop that stops on a DirectiveToken variant (the macro-skipping loop) found in the node parser", None)
        return
    for d in rd["macro_close"]:
        v = text2var.get(d)
        if v in stop_vs:
            R.ok(f"macro-close|{d}", detail=f"{d} -> {v}, on which the macro-skipping loop stops", where=loc(stops[0][1]))
        else:
            R.bad(f"macro-close|{d}", f"the macro-skipping loop stops on {stop_vs} only, and `{d}` (how RARS closes a macro) {'maps to ' + v if v else 'is not a known directive'}: after `.macro .. {d}` every following line of the file is discarded without a diagnostic", loc(stops[0][1]))


@rule("C17", "C17.k.value-lists-take-numbers-only", floor=1)
@rule("C07", "C07.n.lists-that-cross-lines-take-numbers-only", floor=1)
def c07n(F, R):
    """a decoder loop that steps over newline tokens (a value list continued on the following lines) may absorb nothing but numbers: a token that could begin a statement of its own - a name, a register, a string - must end the list, or a following line made of names (`halt now`, a misspelt mnemonic) disappears into the list without a diagnostic. Every place in such a loop where a token is consumed is justified either by "it is a line end" or by "it read as an immediate", and a token that is neither makes the loop leave"""
    p = F.method(PNODE, "try_from", trait_ref=r"TryFrom<&mut core::iter::adapters::peekable::Peekable")
    f = F.fn(p)
    body = f["hir"]["value"]
    pm = parent_map(body)
    lets = {}
    for s_ in walk(body, pats=False):
        if s_.get("k") == "Let" and s_["pat"].get("k") == "PBinding" and s_.get("init") is not None:
            lets.setdefault((s_["pat"]["name"], s_["pat"].get("lid")), s_)

    def line_end_test(c):
        """is this condition 'the token is a newline (or comment)'? follows one named boolean"""
        c = peel_cond(c)
        if c.get("k") == "LetExpr":
            vs = {short(v) for k_, v in pat_variants(c["pat"]) if k_ == "path" and v and "TokenType" in v}
            return bool(vs) and vs <= {"Newline", "Comment"} and "Newline" in vs
        c = peel(c)
        if c.get("k") == "Match" and len(c.get("arms", [])) == 2 and lit_value(c["arms"][0]["body"]) is True:
            vs = {short(v) for k_, v in pat_variants(c["arms"][0]["pat"]) if k_ == "path" and v and "TokenType" in v}
            return bool(vs) and vs <= {"Newline", "Comment"} and "Newline" in vs
        if c.get("k") == "Path" and c.get("res_kind") == "Local":
            st = lets.get((c["res"], c.get("lid"))) or next((v for (nm, _), v in lets.items() if nm == c["res"]), None)
            if st is not None:
                return line_end_test(st["init"])
        return False

    def kind_test(c):
        """`let Ok(x) = tok.as_<kind>()` / `tok.is_<kind>()` -> kind name, else None"""
        c = peel_cond(c)
        src = c["init"] if c.get("k") == "LetExpr" else c
        kinds = sorted({m["name"] for m in walk(src, pats=False) if m.get("k") == "MethodCall" and (m["name"].startswith("as_") or m["name"].startswith("is_"))} - {"is_ok", "is_err", "is_some", "is_none", "as_ref", "as_str"})
        return kinds

    n = 0
    for lp in walk(body, pats=False):
        if lp.get("k") != "Loop":
            continue
        inner = list(walk(lp["body"], pats=False))
        consumes = [m for m in inner if m.get("k") == "MethodCall" and m["name"] in ("get_any", "get_reg", "get_label", "get_string", "get_imm", "get_csrimm") and pm_loop(pm, m) is lp]
        tests_nl = [x for x in inner if (x.get("k") == "If" and line_end_test(x["cond"]))]
        if not consumes or not tests_nl:
            continue
        n += 1
        for i_, m in enumerate(consumes):
            reasons = []
            x = m
            while x is not lp and id(x) in pm:
                par = pm[id(x)]
                if par.get("k") == "If" and (par.get("then") is x or any(y is x for y in [par.get("then")])):
                    if line_end_test(par["cond"]):
                        reasons.append("line-end")
                    else:
                        ks = kind_test(par["cond"])
                        if ks:
                            reasons.append("kind:" + "+".join(ks))
                if par.get("k") == "Block":
                    for st in par.get("stmts", []):
                        if st is x or any(y is x for y in walk(st, pats=False)):
                            break
                        if st.get("k") == "Let" and st.get("els") is not None and st.get("init") is not None and any(y.get("k") in ("Break", "Ret") for y in walk(st["els"], pats=False)):
                            ks = sorted({mm["name"] for mm in walk(st["init"], pats=False) if mm.get("k") == "MethodCall" and mm["name"].startswith("as_")} - {"as_ref", "as_str"})
                            if ks:
                                reasons.append("kind:" + "+".join(ks))
                x = par
            key = f"loop#{n}|consume#{i_ + 1}"
            kinds = [r_ for r_ in reasons if r_.startswith("kind:")]
            if "line-end" in reasons:
                R.ok(key, detail="a line end is stepped over", where=loc(m))
            elif kinds == ["kind:as_imm"]:
                R.ok(key, detail="absorbs a token only if it read as a number", where=loc(m))
            elif kinds:
                R.bad(key + "|" + kinds[0][5:], f"a list that continues over newlines absorbs a token under a `{kinds[0][5:]}` test: a following line that consists of such tokens vanishes into the list - no node of its own, no parse error", loc(m))
            else:
                R.bad(key + "|unjustified", "a list that continues over newlines consumes a token without having established that it is a number or a line end", loc(m))
        # leaving: some break/return whose reaching means "neither a line end nor a number", or the loop condition itself fails on read errors
        leaves = [y for y in inner if y.get("k") in ("Break", "Ret") and not (y.get("exp") or "").startswith("desugar:") and pm_loop(pm, y) is lp]
        tries = [y for y in inner if y.get("k") == "Match" and y.get("src") == "TryDesugar"]
        real_leaves = [y for y in leaves if not any(z is y for t_ in tries for z in walk(t_, pats=False))]
        if real_leaves:
            R.ok(f"loop#{n}|leaves", detail="a token that is not taken ends the list", where=loc(real_leaves[0]))
        else:
            R.bad(f"loop#{n}|final-else", "the value-list loop has no way out for a token that is neither a line end nor a number: nothing is consumed and the loop spins for ever on that token", loc(lp))
        # once the list has stepped over a line end the statement can no longer fail: the recovery that follows an error skips
        # to the *next* newline, which by now is the end of the following line
        x, after = lp, []
        while id(x) in pm:
            par = pm[id(x)]
            if par.get("k") == "Block":
                seen_ = False
                for st in par.get("stmts", []) + ([par["expr"]] if par.get("expr") is not None else []):
                    if seen_:
                        after.append(st)
                    elif st is x or any(y is x for y in walk(st, pats=False)):
                        seen_ = True
            if par.get("k") in ("Match", "Closure") and par.get("src") in (None, "Normal"):
                break   # the arm of the token-kind dispatch: what follows belongs to other statements
            x = par
        late = []
        for st in after:
            for y in walk(st, pats=False):
                if y.get("k") == "Match" and y.get("src") == "TryDesugar":
                    late.append(y)
                if y.get("k") == "Ret" and any(c_.get("k") == "Call" and short(callee_of(c_) or "") == "Err" for c_ in walk(y.get("e") or {}, pats=False)) and not any(y is z for t_ in walk(st, pats=False) if t_.get("k") == "Match" and t_.get("src") == "TryDesugar" for z in walk(t_, pats=False)):
                    late.append(y)
                if y.get("k") == "Call" and short(callee_of(y) or "") == "Err" and (callee_of(y) or "").startswith("core::result") and st is y:
                    late.append(y)
        if late:
            R.bad(f"loop#{n}|error-after-the-line-end", "the statement can still end in an error after its value list has stepped over the line end: the error recovery then skips to the next newline - the end of the *following* line - and that line disappears without nodes or a diagnostic of its own", loc(late[0]))
        else:
            R.ok(f"loop#{n}|no-error-after-the-line-end", detail="nothing after the list loop can fail", where=loc(lp))
    if n == 0:
        R.bad("shape", "UNEXTRACTABLE: no decoder loop that steps over newline tokens (the data value list) found", f["sp"])


def pm_loop(pm, node):
    """innermost Loop that contains node"""
    x = node
    while id(x) in pm:
        x = pm[id(x)]
        if x.get("k") == "Loop":
            return x
    return None


@rule("C07", "C07.o.a-skipped-region-ends-only-at-its-terminator", floor=1)
def c07o(F, R):
    """the loop that discards a macro body leaves only at the closing directive or at the end of the input: a lexical error inside the discarded text (a `%parameter`) must not end the skip, or the rest of the body is parsed as code - one bad line changes how the following lines are read"""
    p = F.method(PNODE, "try_from", trait_ref=r"TryFrom<&mut core::iter::adapters::peekable::Peekable")
    f = F.fn(p)
    body = f["hir"]["value"]
    DT = "riscv_analysis::parser::directive::DirectiveToken"
    loops = []
    for lp in walk(body, pats=False):
        if lp.get("k") != "Loop":
            continue
        if any(l_ is lp for _, l_, _ in _directive_stop_tests(body)):
            loops.append(lp)
    if not loops:
        R.bad("shape", "UNEXTRACTABLE: no loop that discards tokens up to a closing directive found", f["sp"])
        return
    pm = parent_map(body)
    for n_, lp in enumerate(loops):
        reads = [m for m in walk(lp["body"], pats=False) if m.get("k") == "MethodCall" and m["name"] in ("get_any", "peek_any")]
        probs = []
        for m in reads:
            x = m
            for _ in range(4):
                x = pm.get(id(x))
                if x is None:
                    break
                if x.get("k") == "Match" and x.get("src") == "TryDesugar":
                    probs.append((m, "`?` on the read: any lexical error leaves the loop"))
                    break
                if x.get("k") == "Match" and x.get("src") != "TryDesugar":
                    for a in x["arms"]:
                        vs = [v for k_, v in pat_variants(a["pat"]) if k_ == "path" and v]
                        is_err = any(v.endswith("Result::Err") for v in vs) or not vs
                        names_eof = any(v.endswith("UnexpectedEOF") for v in vs) or any((y.get("res") or "").endswith("UnexpectedEOF") for y in walk(a["pat"]))
                        is_ok = any(v.endswith("Result::Ok") for v in vs)
                        if is_ok or names_eof:
                            continue
                        # any other arm (Err(_), a binding that is then `?`-ed): must not leave the loop
                        leaves = [y for y in walk(a["body"], pats=False) if y.get("k") in ("Break", "Ret")]
                        if leaves:
                            probs.append((a, "an error other than the end of the input leaves the loop"))
                    break
        key = f"skip-loop#{n_ + 1}"
        if probs:
            R.bad(key, f"the loop that discards a macro body can be left before its closing directive: {probs[0][1]} - after `.macro push %r` the `%` is not a token, the skip stops, and the body of the macro is linted as if it were code", loc(probs[0][0]))
        else:
            R.ok(key, detail="left only at the closing directive or at the end of the input", where=loc(lp))

@rule("C07", "C07.q.the-last-line-ends-even-without-a-newline", floor=2)
def c07q(F, R):
    """a file whose last line has no line break is read as if it had one: at the end of the input, in the middle of a statement, `AnnotatedLexer::get_any` hands out one synthetic newline, remembered in a flag so that it is handed out once. The flag starts false wherever an AnnotatedLexer is built and only that arm sets it: a lexer born with the flag already set never ends the last statement, and an incomplete last line (`jal` at the end of the file) vanishes without a parse error"""
    cands = [q for q in F.fns if short(q) == "get_any" and "AnnotatedLexer" in q and "hir" in F.fns[q]]
    if not cands:
        raise Anchor("AnnotatedLexer::get_any not found")
    g = F.fn(cands[0])
    body = g["hir"]["value"]
    flag = None
    for m in walk(body, pats=False):
        if m.get("k") != "Match" or m.get("src") not in (None, "Normal"):
            continue
        for a in m["arms"]:
            is_none = any(k_ == "path" and (v or "").endswith("Option::None") for k_, v in pat_variants(a["pat"]))
            if not is_none or a.get("guard") is None:
                continue
            negs = [u for u in walk(a["guard"], pats=False) if u.get("k") == "Unary" and u["op"] == "Not" and peel(u["a"]).get("k") == "Field" and ekey(peel(u["a"])["e"]).lstrip("&*") == "self"]
            sets = [x for x in walk(a["body"], pats=False) if x.get("k") == "Assign" and peel(x["l"]).get("k") == "Field" and ekey(peel(x["l"])["e"]).lstrip("&*") == "self" and lit_value(x["r"]) is True]
            for u in negs:
                fld = peel(u["a"])["name"]
                if any(peel(x["l"])["name"] == fld for x in sets):
                    gives_newline = any(y.get("k") == "Path" and (y.get("res") or "").endswith("TokenType::Newline") for y in walk(a["body"], pats=False))
                    flag = (fld, a, gives_newline)
    if flag is None:
        R.bad("shape", "UNEXTRACTABLE: no `None if .. && !self.<flag> => { self.<flag> = true; .. }` arm found in AnnotatedLexer::get_any: the end of the input in the middle of a statement no longer ends the statement", g["sp"])
        return
    fld, arm, gives = flag
    if gives:
        R.ok("arm", detail=f"at the end of the input `{fld}` is set and a Newline token is handed out", where=loc(arm))
    else:
        R.bad("arm", "the end-of-input arm of get_any does not hand out a Newline token", loc(arm))
    # every construction starts with the flag cleared
    n = 0
    ALS = None
    for q, f in sorted(F.fns.items()):
        if "hir" not in f:
            continue
        for st in walk(f["hir"]["value"], pats=False):
            if st.get("k") == "Struct" and (st.get("res") or st.get("path") or "").split("<")[0].endswith("AnnotatedLexer"):
                fs = {x["name"]: x["e"] for x in st["fields"]}
                if fld not in fs:
                    continue
                n += 1
                key = f"init|{short(q.split('::{closure')[0])}|{n}"
                v = lit_value(fs[fld])
                if v is False:
                    R.ok(key, detail=f"`{fld}: false` at construction", where=loc(st))
                elif v is True:
                    R.bad(f"init|{short(q.split('::{closure')[0])}", f"an AnnotatedLexer is built with `{fld}` already set: the newline that ends an unterminated last line is never handed out, and a last line that is not a complete statement disappears without a parse error", loc(st))
                else:
                    R.bad(key + "|unextractable", f"UNEXTRACTABLE: `{fld}` is initialised with an expression", loc(st))
    if n == 0:
        R.bad("init|shape", "UNEXTRACTABLE: no construction of AnnotatedLexer found", g["sp"])
    # nobody else sets it
    for q, f in sorted(F.fns.items()):
        if "hir" not in f:
            continue
        for x in walk(f["hir"]["value"], pats=False):
            if x.get("k") == "Assign" and peel(x["l"]).get("k") == "Field" and peel(x["l"])["name"] == fld and "AnnotatedLexer" in ((peel(x["l"])["e"].get("ty") or "") + q):
                inside = any(y is x for y in walk(arm["body"], pats=False))
                if not inside:
                    R.bad(f"other-writer|{short(q)}", f"`{fld}` is also written outside the end-of-input arm", loc(x))


@rule("C09", "C09.g.range-ends-are-positions-of-characters", floor=1)
def c09g(F, R):
    """both ends of every token range are cursor positions (`get_pos()` at the first and at the last character): the lexer never derives an end by moving a `Position` itself - a range whose end was advanced by one is exclusive where all others are inclusive, and a node that ends in such a token (`0(sp)`) is reported one character too long"""
    POS = "riscv_analysis::parser::position::Position"
    mutators = set()
    for name, pth in inherent_methods_of(F, POS).items():
        g = F.fns.get(pth)
        if not g or "hir" not in g:
            continue
        for a in walk(g["hir"]["value"], pats=False):
            if a.get("k") in ("Assign", "AssignOp"):
                l = peel(a["l"])
                if l.get("k") == "Field" and ekey(l["e"]).lstrip("&*") == "self":
                    mutators.add(pth)
    if not mutators:
        R.ok("no-position-mutators", detail="Position has no mutating method")
        return
    n = 0
    for q, g in sorted(F.fns.items()):
        if "hir" not in g or "::lexer::" not in q or "Lexer" not in q:
            continue
        n += 1
        calls = [m for m in walk(g["hir"]["value"], pats=False) if m.get("k") in ("MethodCall", "Call") and callee_of(m) in mutators]
        if calls:
            R.bad(f"{short(root_fn_(q))}|{short(callee_of(calls[0]))}", f"the lexer moves a Position with `{short(callee_of(calls[0]))}` to build a range in `{short(root_fn_(q))}`: that end is one past the token's last character, while every other token's range ends on its last character", loc(calls[0]))
    if n == 0:
        raise Anchor("no lexer functions in the fact base")
    if not any(True for _ in []):
        R.ok("lexer", detail=f"{n} lexer bodies examined, {len(mutators)} Position mutators, none applied")


def inherent_methods_of(F, ty):
    out = {}
    for i in F.impls:
        if i["self_ty"] == ty and i.get("trait") is None:
            for it in i["items"]:
                out[it["name"]] = it["path"]
    return out


def root_fn_(path):
    return path.split("::{closure")[0]
