"""C13 — each class of meaning-preserving respelling is absorbed by a table
before analysis (C13.b and C13.d are registered from p_c14 / p_c08)."""
from .core import rule
from .facts import *
from .p_c08 import from_str_table, arm_table, INST

P = "riscv_analysis::parser::"


def param_uses(f, idx=0):
    """All Path nodes that refer to parameter #idx, with their parent node."""
    pat = f["hir"]["params"][idx]
    if pat.get("k") != "PBinding":
        raise Anchor(f"{f['path']}: parameter {idx} is not a simple binding")
    lid, name = pat["lid"], pat["name"]
    out = []
    stack = [(f["hir"]["value"], None)]
    while stack:
        n, parent = stack.pop()
        if n.get("k") == "Path" and n.get("res_kind") == "Local" and n.get("lid") == lid:
            out.append((n, parent))
        for c in children(n):
            stack.append((c, n))
    return out


@rule("C13", "C13.a.case-folding", floor=2)
def c13a(F, R):
    """mnemonics, directives, CSR names and immediates are lower-cased before their tables / radix logic"""
    for ty in (INST, P + "directive::DirectiveToken", P + "imm::CsrImm", P + "imm::Imm"):
        p = F.method(ty, "from_str", trait="core::str::traits::FromStr")
        f = F.fn(p)
        uses = param_uses(f, 0)
        if not uses:
            R.bad(f"{short(ty)}", f"{short(ty)}::from_str never uses its argument", f["sp"])
            continue
        bad = []
        for n, parent in uses:
            okk = False
            if parent and parent.get("k") == "MethodCall" and parent.get("recv") is n and parent["name"] == "to_lowercase":
                okk = True
            elif parent and parent.get("k") == "Call" and any(a is n for a in parent["args"]):
                c = callee_of(parent) or ""
                # delegation to another case-folding from_str of this table
                if c.endswith("::from_str") and any(c == F.method(t2, "from_str", trait="core::str::traits::FromStr")
                                                    for t2 in (P + "imm::Imm", INST)):
                    okk = True
            if not okk:
                bad.append(n)
        if bad:
            R.bad(f"{short(ty)}", f"{short(ty)}::from_str uses its raw (not lower-cased) argument", loc(bad[0]))
        else:
            R.ok(f"{short(ty)}", detail=f"{len(uses)} use(s) of the argument, all through to_lowercase()", where=f["sp"])


@rule("C13", "C13.c.separators", floor=3)
def c13c(F, R):
    """the lexer treats exactly space, tab and comma as separators"""
    p = F.method(P + "lexer::Lexer", "is_ws")
    f = F.fn(p)
    chars = set()
    shape_ok = True

    def rec(e):
        nonlocal shape_ok
        e = peel(e)
        if e.get("k") == "Binary" and e["op"] == "Or":
            rec(e["a"])
            rec(e["b"])
        elif e.get("k") == "Binary" and e["op"] == "Eq":
            v = lit_value(e["b"]) if peel(e["a"]).get("k") == "Path" else lit_value(e["a"])
            if isinstance(v, str) and len(v) == 1:
                chars.add(v)
            else:
                shape_ok = False
        elif e.get("k") == "Match":  # matches!(ch, ' ' | '\t' | ',')
            for k, arm in arm_table(e):
                tv = lit_value(arm["body"])
                if isinstance(k, str) and k != "_" and tv is True:
                    chars.add(k)
                elif k == "_" and tv is False:
                    pass
                else:
                    shape_ok = False
        else:
            shape_ok = False
    rec(f["hir"]["value"])
    if not shape_ok:
        R.bad("shape", "UNEXTRACTABLE: Lexer::is_ws is not a disjunction of character comparisons", f["sp"])
        return
    want = {" ", "\t", ","}
    for c in sorted(want | chars):
        if c in want and c in chars:
            R.ok(f"sep|{c!r}")
        elif c in want:
            R.bad(f"sep|{c!r}", f"separator {c!r} is no longer skipped between operands", f["sp"])
        else:
            R.bad(f"sep|{c!r}", f"{c!r} is treated as a separator; programs using it as content change meaning", f["sp"])


class RadixUnx(Exception):
    pass


def _prefix_alternatives(e, lets, depth=0):
    """the (prefix, radix) pairs an Option-valued expression can carry: `s.strip_prefix(P).map(|d| (d, R))`, chained with `.or_else(|| ..)` / `.or(..)`; through one named local"""
    e = peel(e)
    while e.get("k") == "Block" and not e.get("stmts") and e.get("expr") is not None:
        e = peel(e["expr"])
    if depth > 6:
        raise RadixUnx("prefix expression too deep")
    if e.get("k") == "Path" and e.get("res_kind") == "Local" and e["res"] in lets:
        return _prefix_alternatives(lets[e["res"]]["init"], lets, depth + 1)
    if e.get("k") == "Closure":
        return _prefix_alternatives(e["body"], lets, depth + 1)
    if e.get("k") == "MethodCall" and e["name"] in ("or_else", "or") and len(e["args"]) == 1:
        return _prefix_alternatives(e["recv"], lets, depth + 1) + _prefix_alternatives(e["args"][0], lets, depth + 1)
    if e.get("k") == "MethodCall" and e["name"] == "map" and len(e["args"]) == 1:
        r = peel(e["recv"])
        cl = peel(e["args"][0])
        if r.get("k") == "MethodCall" and r["name"] == "strip_prefix" and r["args"] and cl.get("k") == "Closure":
            pref = lit_value(r["args"][0])
            b = peel(cl["body"])
            while b.get("k") == "Block" and not b.get("stmts") and b.get("expr") is not None:
                b = peel(b["expr"])
            if b.get("k") == "Tup" and len(b.get("elems", [])) == 2 and isinstance(lit_value(b["elems"][1]), int):
                return [(pref, lit_value(b["elems"][1]), 1)]
    raise RadixUnx("prefix expression not of the form strip_prefix(P).map(|d| (d, R)) [.or_else(..)]")


def radix_sites(F):
    """every `from_str_radix` call in Imm::from_str - and in the private helpers of Imm it calls - with the (prefix, radix) pairs under which it runs -> (fn, [(call, [(prefix, radix)], problem)])"""
    p = F.method(P + "imm::Imm", "from_str", trait="core::str::traits::FromStr")
    f = F.fn(p)
    from .p_parse import parent_map
    from .p_c06 import _imm_fns

    def sites_in(g, bind=None, depth=0):
        """bind: {param name: [(prefix, radix)]} for a helper whose radix is a parameter"""
        body = g["hir"]["value"]
        pm = parent_map(body)
        lets = {}
        for st in walk(body, pats=False):
            if st.get("k") == "Let" and st["pat"].get("k") == "PBinding" and st.get("init") is not None:
                lets.setdefault(st["pat"]["name"], st)
        out = []

        def enclosing_tests(node):
            tests, x = [], node
            while id(x) in pm:
                par = pm[id(x)]
                if par.get("k") == "If" and par.get("then") is x:
                    c = par["cond"]
                    while c.get("k") in ("DropTemps", "Use"):
                        c = c["e"]
                    if c.get("k") == "LetExpr":
                        tests.append(c)
                x = par
            return tests

        def alts_for(rad, tests):
            """the (prefix, radix) pairs for a radix expression under the given `if let` tests"""
            lv = lit_value(rad)
            for c in tests:
                init = peel(c["init"])
                if isinstance(lv, int) and init.get("k") == "MethodCall" and init["name"] == "strip_prefix" and init["args"]:
                    return [(lit_value(init["args"][0]), lv)], None
                if rad.get("k") == "Path" and rad.get("res_kind") == "Local":
                    tups = [t_ for t_ in walk(c["pat"]) if t_.get("k") == "PTuple"]
                    bound = [b["name"] for b in walk(c["pat"]) if b.get("k") == "PBinding"]
                    if rad["res"] in bound and tups and len(tups[0].get("pats", [])) == 2 and any(b.get("k") == "PBinding" and b["name"] == rad["res"] for b in walk(tups[0]["pats"][1])):
                        try:
                            return [(a, b) for a, b, _ in _prefix_alternatives(c["init"], lets)], None
                        except RadixUnx as ex:
                            return None, str(ex)
            return None, None
        for m in walk(body, pats=False):
            if m.get("k") != "Call":
                continue
            cal = callee_of(m) or ""
            if short(cal) == "from_str_radix":
                rad = peel(m["args"][1])
                if bind is not None and rad.get("k") == "Path" and rad.get("res_kind") == "Local" and rad["res"] in bind:
                    out.append((m, bind[rad["res"]], None))
                    continue
                alts, prob = alts_for(rad, enclosing_tests(m))
                out.append((m, alts, prob))
            elif depth < 2 and cal in helpers and cal != g["path"]:
                # a private helper of Imm: its parameters take the radix (and the digits) of this call site
                h = F.fn(cal)
                pn = [p_.get("name") for p_ in h["hir"]["params"]]
                b2 = {}
                for i_, a_ in enumerate(m["args"]):
                    if i_ < len(pn) and pn[i_] and isinstance(lit_value(a_), int) and not isinstance(lit_value(a_), bool):
                        alts, prob = alts_for(peel(a_), enclosing_tests(m))
                        if alts:
                            b2[pn[i_]] = alts
                if b2:
                    pending.setdefault(cal, {})
                    for k_, v_ in b2.items():
                        pending[cal].setdefault(k_, [])
                        pending[cal][k_] += [x for x in v_ if x not in pending[cal][k_]]
        return out
    helpers = {q for q in _imm_fns(F) if q.startswith(P + "imm::Imm::") and q != p}
    pending = {}
    res = sites_in(f)
    for cal, b2 in sorted(pending.items()):
        res += sites_in(F.fn(cal), bind=b2, depth=1)
    return f, res


@rule("C13", "C13.e.radix-table", floor=3)
@rule("C17", "C17.radix-table", floor=3)
def c13e(F, R):
    """Imm::from_str: prefix 0x <-> radix 16, 0b <-> radix 2, no prefix <-> decimal"""
    f, sites = radix_sites(F)
    want = {"0x": 16, "0b": 2}
    found = {}
    for m, alts, prob in sites:
        if prob:
            R.bad("radix|unextractable", f"UNEXTRACTABLE: {prob}", loc(m))
        elif alts is None:
            R.bad("radix|unguarded", "from_str_radix call that is not under a strip_prefix test", loc(m))
        else:
            for pref, r in alts:
                found.setdefault(pref, []).append(r)
    for pref, r in want.items():
        if found.get(pref) == [r]:
            R.ok(f"prefix|{pref}", detail=f"{pref!r} -> radix {r}")
        else:
            R.bad(f"prefix|{pref}", f"prefix {pref!r} is parsed with radix {found.get(pref)}; expected [{r}]", f["sp"])
    for pref, r in found.items():
        if pref not in want and r:
            R.bad(f"prefix|{pref}", f"unexpected radix prefix {pref!r} -> {r}", f["sp"])
    dec = [m for m in walk(f["hir"]["value"]) if m.get("k") == "MethodCall" and m["name"] == "parse"]
    if len(dec) == 1 and (dec[0].get("gargs") or [None])[-1] in ("i32", "u32", "i64"):
        R.ok("decimal", detail=f"unprefixed literals go through str::parse::<{dec[0]['gargs'][-1]}>")
    else:
        R.bad("decimal", f"expected exactly one decimal `parse` call, found {len(dec)}", f["sp"])


@rule("C17", "C17.h.immediate-token-kinds", floor=2)
@rule("C13", "C13.i.immediate-token-kinds", floor=2)
def c13i(F, R):
    """an immediate operand may be a number (symbol token) or a character literal (char token): both token kinds survive the path from the token to the `Imm` - the generic operand classifier `Token::as_type` hands the whole token to `TryFrom<Token>`, and `TryFrom<Token> for Imm` answers for both kinds; a classifier that looks at symbol tokens only makes `li a0, 'A'` an error while `li a0, 65` is fine"""
    TT = P + "token::TokenType"
    need = {"Symbol", "Char"}
    # (a) TryFrom<Token> for Imm
    tf = [q for q in F.fns if q.endswith("::try_from") and "imm::Imm as core::convert::TryFrom<" in q and "Token" in q]
    if not tf:
        raise Anchor("TryFrom<Token> for Imm not found")
    f = F.fn(tf[0])
    kinds = set()
    for m in find_matches(f["hir"]["value"]):
        for a in m["arms"]:
            vs = {short(v) for k, v in pat_variants(a["pat"]) if k == "path" and v and "TokenType" in v}
            is_err = peel(a["body"]).get("k") == "Call" and short(callee_of(peel(a["body"])) or "") == "Err"
            if vs and not is_err:
                kinds |= vs
    if need <= kinds:
        R.ok("TryFrom<Token> for Imm", detail=f"accepts token kinds {sorted(kinds)}", where=f["sp"])
    else:
        R.bad("TryFrom<Token> for Imm", f"TryFrom<Token> for Imm accepts only {sorted(kinds)}; immediates are written as {sorted(need)} tokens", f["sp"])
    # (b) the operand classifier
    at = [q for q in F.fns if q.endswith("::as_type") and "Token" in q]
    if not at:
        raise Anchor("Token::as_type not found")
    g = F.fn(at[0])
    body = g["hir"]["value"]
    convs = [c for c in walk(body, pats=False) if c.get("k") in ("Call", "MethodCall") and short(callee_of(c) or declared_callee(c) or c.get("name") or "") in ("try_from", "try_into", "from_str", "parse")]
    if not convs:
        R.bad("as_type", "UNEXTRACTABLE: Token::as_type performs no conversion", g["sp"])
        return
    from .p_parse import parent_map
    pm = parent_map(body)
    for c in convs:
        nm = short(callee_of(c) or declared_callee(c) or c.get("name") or "")
        guards = set()
        x = c
        while id(x) in pm:
            par = pm[id(x)]
            if par.get("k") == "If":
                cnd = par["cond"]
                while cnd.get("k") in ("DropTemps", "Use"):
                    cnd = cnd["e"]
                if cnd.get("k") == "LetExpr" and any(y is x for y in walk(par["then"], pats=False)):
                    guards |= {short(v) for k_, v in pat_variants(cnd["pat"]) if k_ == "path" and v and "TokenType" in v}
            if par.get("k") == "Match" and par.get("src") in (None, "Normal"):
                for a in par["arms"]:
                    if any(y is x for y in walk(a["body"], pats=False)):
                        guards |= {short(v) for k_, v in pat_variants(a["pat"]) if k_ == "path" and v and "TokenType" in v}
            x = par
        if nm in ("from_str", "parse"):
            R.bad("as_type", f"Token::as_type converts the token's text with `{nm}` (under {sorted(guards) or 'no'} token-kind test): whatever `TryFrom<Token>` accepts besides a symbol - a character literal for an immediate - is no longer an operand (`li a0, 'A'` is rejected, `li a0, 65` is not)", loc(c))
        elif guards and not need <= guards:
            R.bad("as_type", f"Token::as_type only converts tokens of kind {sorted(guards)}: a character literal is no longer an immediate", loc(c))
        else:
            R.ok("as_type", detail="the whole token goes to TryFrom<Token>", where=loc(c))


@rule("C13", "C13.j.comments-count-as-line-ends", floor=2)
def c13j(F, R):
    """wherever the decoder asks whether the next token is the end of the line, a comment token gets the same answer as a newline token (a comment is followed by its newline): otherwise adding a comment after a line changes how the statement - an omitted operand, a list of values that continues on the next line - is read"""
    p = [q for q in F.fns if q.endswith("for riscv_analysis::parser::node::ParserNode>::try_from") and "Peekable" in q]
    if not p:
        raise Anchor("decoder ParserNode::try_from not found")
    f = F.fn(p[0])
    body = f["hir"]["value"]
    n = 0
    def kinds(pat):
        return {short(v) for k_, v in pat_variants(pat) if k_ == "path" and v and "TokenType" in v}
    for x in walk(body, pats=False):
        if x.get("k") == "If":
            c = x["cond"]
            while c.get("k") in ("DropTemps", "Use"):
                c = c["e"]
            if c.get("k") == "LetExpr":
                ks = kinds(c["pat"])
                if "Newline" in ks or "Comment" in ks:
                    n += 1
                    if {"Newline", "Comment"} <= ks:
                        R.ok(f"if-let#{n}", detail="newline and comment alike", where=loc(x))
                    else:
                        R.bad(f"if-let#{n}|{'+'.join(sorted(ks))}", f"the decoder tests the next token for {sorted(ks)} only: with a comment at the end of the line the other answer is taken (`.word 1  # first` + `2` on the next line is read differently from the same lines without the comment)", loc(x))
        if x.get("k") == "Match" and not x.get("src") or (x.get("k") == "Match" and x.get("src") == "Normal"):
            arms = [(kinds(a["pat"]), a) for a in x["arms"]]
            allk = set().union(*[k for k, _ in arms]) if arms else set()
            if "Newline" in allk or "Comment" in allk:
                n += 1
                if {"Newline", "Comment"} <= allk:
                    R.ok(f"match#{n}", detail="newline and comment both have an arm", where=loc(x))
                else:
                    R.bad(f"match#{n}|{'+'.join(sorted(allk & {'Newline', 'Comment'}))}", f"a match on the token kind handles {sorted(allk & {'Newline', 'Comment'})} but not the other line end", loc(x))


@rule("C17", "C17.j.one-number-grammar", floor=3)
@rule("C13", "C13.k.one-number-grammar", floor=3)
def c13k(F, R):
    """source text is turned into a number in exactly one place, `Imm::from_str` (sign, `0x`, `0b`, decimal): every other reader of a numeric operand - a CSR number, a data value - goes through it, so that all notations are accepted wherever a number is; a second hand-written reader (`from_str_radix` / `str::parse::<int>` elsewhere in the parser) knows fewer notations and the same program written with `0b..` is read differently"""
    home = F.method(P + "imm::Imm", "from_str", trait="core::str::traits::FromStr")
    home_alts = {id(m): alts for m, alts, _ in radix_sites(F)[1]}
    from .p_c06 import _imm_fns
    home_helpers = {q_ for q_ in _imm_fns(F) if q_.startswith(P + "imm::Imm::") and q_ != home}   # private helpers of Imm that from_str calls
    n_home = 0
    for q, g in sorted(F.fns.items()):
        if "mir" not in g and "hir" not in g:
            continue
        if not q.startswith("riscv_analysis::parser::") and "riscv_analysis::parser::" not in q.split(" as ")[0]:
            continue
        if "hir" not in g:
            continue
        for c in walk(g["hir"]["value"], pats=False):
            if c.get("k") not in ("Call", "MethodCall"):
                continue
            cal = callee_of(c) or declared_callee(c) or ""
            isint = re.search(r"<impl [iu](\d+|size)>::from_str_radix$", cal) is not None
            if c.get("k") == "MethodCall" and c["name"] == "parse" and re.match(r"^[iu](\d+|size)$", (c.get("gargs") or ["?"])[-1] or ""):
                isint = True
            if not isint:
                continue
            root = q.split("::{closure")[0]
            if root == home or root in home_helpers:
                k_ = max(1, len(home_alts.get(id(c)) or []))
                for _ in range(k_):
                    n_home += 1
                    R.ok(f"Imm::from_str|{n_home}", detail="the number reader", where=loc(c))
            else:
                R.bad(f"{short(root)}|{short(cal) or 'parse'}", f"`{root}` reads a number from source text by itself (`{short(cal) or 'parse'}`) instead of through Imm::from_str: it does not know every notation Imm::from_str accepts (sign, 0x, 0b), so an operand written in the missing notation is rejected there and accepted everywhere else", loc(c))
    if n_home < 3:
        R.bad("home", f"Imm::from_str contains {n_home} number conversions; expected the hexadecimal, binary and decimal readers", F.fn(home)["sp"])
    # the CSR operand reader hands numbers on to Imm::from_str
    cp = F.method(P + "imm::CsrImm", "from_str", trait="core::str::traits::FromStr")
    cg = F.fn(cp)
    if any(c.get("k") in ("Call", "MethodCall") and (callee_of(c) or "") == home for c in walk(cg["hir"]["value"], pats=False)):
        R.ok("CsrImm::from_str", detail="numeric CSR operands are read by Imm::from_str", where=cg["sp"])
    else:
        R.bad("CsrImm::from_str", "CsrImm::from_str does not pass a numeric operand to Imm::from_str", cg["sp"])
