"""Symbolic path enumeration of the operand-decoding arms of
`<ParserNode as TryFrom<&mut Peekable<Lexer>>>::try_from` (rules R3, R3b).

This is *not* execution: it walks the HIR tree of one match arm, forks at every
`if let Ok(..) = tok.as_<kind>()` test and records, per syntactic path, which
token-reading helpers are called in which order and which constructor
parameter each read value reaches.  The output is a finite table
`token sequence -> node fields`, compared with the reference tables.
"""
import copy
from .facts import peel, callee_of, short, lit_value, pat_variants, walk

READS = {"get_reg": "r", "get_imm": "i", "get_label": "l", "get_csrimm": "c", "get_string": "s", "get_any": None,
         "expect_rparen": ")", "_expect_lparen": "("}
AS = {"as_reg": "r", "as_imm": "i", "as_label": "l", "as_csrimm": "c", "as_lparen": "(", "as_rparen": ")", "as_string": "s"}


class Unextractable(Exception):
    pass


class State:
    def __init__(self):
        self.toks = []       # kinds; index = token id
        self.consumed = 0
        self.env = {}        # local name -> value
        self.trace = []
        self.eofq = []       # token ids read through `?` (end of file aborts the decode there)

    def fork(self):
        return copy.deepcopy(self)

    def peek(self):
        if len(self.toks) == self.consumed:
            self.toks.append(None)
        return ("tok", self.consumed)

    def get(self, kind=None):
        v = self.peek()
        i = v[1]
        if kind is not None:
            if self.toks[i] not in (None, kind):
                return None
            self.toks[i] = kind
        self.consumed += 1
        return v


def try_inner(e):
    """`X?` -> X ; otherwise e."""
    e0 = e
    while e.get("k") in ("DropTemps", "Use"):
        e = e["e"]
    if e.get("k") == "Match" and e.get("src") == "TryDesugar":
        sc = e["scrut"]
        if sc.get("k") == "Call" and sc["args"]:
            return sc["args"][0], True
    return e0, False


# set by the caller: `get_any` answers UnexpectedEOF only when no token of the statement has been read (rule C07.j)
GET_ANY_EOF_SAFE = False


class Decoder:
    def __init__(self, F, lex_name="lex", ctor_params=None):
        self.F = F
        self.lex = lex_name
        self.outcomes = []

    # ---- expression evaluation (may consume tokens) -> value
    def ev(self, e, st):
        e, was_try = try_inner(e)
        e = peel_keep_clone(e)
        if was_try and e.get("k") == "MethodCall" and (e["name"] == "peek_any" or (e["name"] == "get_any" and not (GET_ANY_EOF_SAFE and st.consumed >= 1))):
            r = e["recv"]
            if r.get("k") == "Path" and r.get("res") == self.lex:
                st.eofq.append(st.consumed)
        k = e.get("k")
        if k == "Path":
            if e.get("res_kind") == "Local":
                return st.env.get(e["res"], ("unknown", e["res"]))
            return ("name", short(e.get("res")))
        if k == "Lit":
            return ("lit", e["lit"]["v"])
        if k == "Unary" and e.get("op") == "Neg":
            v = self.ev(e["a"], st)
            if v[0] == "lit":
                return ("lit", -v[1])
            return ("unknown", "neg")
        if k == "Binary" and not e.get("callee"):
            a = self.ev(e["a"], st)
            b = self.ev(e["b"], st)
            return ("bin", e["op"], a, b)
        if k == "Field":
            base = e["e"]
            if base.get("k") == "Path" and base.get("res") == self.lex:
                return ("lexfield", e["name"])
            return ("field", self.ev(base, st), e["name"])
        if k == "MethodCall":
            name = e["name"]
            recv = e["recv"]
            if recv.get("k") == "Path" and recv.get("res") == self.lex:
                if name in READS:
                    v = st.get(READS[name])
                    if v is None:
                        raise Infeasible()
                    return v
                if name == "peek_any":
                    return st.peek()
                # a helper of the annotated lexer that is itself a straight line of reads (`get_reg()?; expect_rparen()?; Ok(reg)`):
                # interpreted in place, on the same token state (inlining bound 2)
                c = callee_of(e)
                g = self.F.fns.get(c or "")
                if g and "hir" in g and getattr(self, "_depth", 0) < 2:
                    body = peel_keep_clone(g["hir"]["value"])
                    if body.get("k") == "Block":
                        sub = Decoder(self.F, lex_name="self")
                        sub._depth = getattr(self, "_depth", 0) + 1
                        saved = st.env
                        st.env = {}
                        try:
                            for stm in body.get("stmts", []):
                                if stm.get("k") == "Let" and stm["pat"].get("k") == "PBinding" and stm.get("init") is not None:
                                    st.env[stm["pat"]["name"]] = sub.ev(stm["init"], st)
                                elif stm.get("k") in ("Semi", "Expr") and stm.get("e") is not None:
                                    sub.ev(stm["e"], st)
                                else:
                                    raise Unextractable(f"statement in lexer helper `{name}`")
                            tail = body.get("expr")
                            if tail is None:
                                val = ("unit",)
                            else:
                                t2, _ = try_inner(tail)
                                t2 = peel_keep_clone(t2)
                                if t2.get("k") == "Call" and short(callee_of(t2) or "") == "Ok" and len(t2["args"]) == 1:
                                    val = sub.ev(t2["args"][0], st)
                                else:
                                    val = sub.ev(tail, st)
                        finally:
                            st.env = saved
                        return val
                raise Unextractable(f"unknown lexer helper `{name}`")
            rv = self.ev(recv, st)
            if name == "and_then" and e["args"]:
                # `tok_result.and_then(|t| t.as_<kind>())`
                cl = peel_keep_clone(e["args"][0])
                if cl.get("k") == "Closure":
                    body = peel_keep_clone(cl["body"])
                    if body.get("k") == "MethodCall" and body["name"] in AS:
                        return ("as", AS[body["name"]], rv)
                raise Unextractable("and_then with an unknown closure")
            if name in ("clone", "get", "value", "get_cloned", "to_owned", "token", "into", "get_mut"):
                return rv
            if name in AS:
                return ("as", AS[name], rv)
            return ("call", name, rv)
        if k == "Call":
            c = callee_of(e) or ""
            args = e["args"]
            s = short(c)
            if c.endswith("::With::<T>::new") or s == "new" and "With" in c:
                return self.ev(args[0], st)
            if c.endswith("imm::Imm::new"):
                return self.ev(args[0], st)
            if s in ("Ok", "Some", "Err") and e["f"].get("res_kind", "").startswith("Ctor"):
                return (s.lower(), self.ev(args[0], st) if args else None)
            if "ParserNode::new_" in c or "::new_" in c and "ParserNode" in c:
                return self.node(c, args, st)
            if e["f"].get("res_kind", "").startswith("Ctor"):
                return ("ctor", short(e["f"].get("res")), [self.ev(a, st) for a in args])
            if s == "new" and c.startswith("alloc::boxed::Box"):
                return self.ev(args[0], st)
            if s == "from_str":
                return ("call", c, [self.ev(a, st) for a in args])
            return ("call", c, [self.ev(a, st) for a in args])
        if k == "Struct":
            return ("struct", short(e.get("res")), {f["name"]: self.ev(f["e"], st) for f in e["fields"]})
        if k == "Match":
            # nested table on an already-known name: `match inst { P::A => X, .. }`
            sv = self.ev(e["scrut"], st)
            if sv[0] == "name":
                for a in e["arms"]:
                    for kind, v in pat_variants(a["pat"]):
                        if kind == "path" and short(v) == sv[1]:
                            return self.ev(a["body"], st)
                raise Unextractable(f"no arm for {sv[1]} in nested match")
            return ("unknown", "match")
        if k == "Block" and not e.get("stmts") and e.get("expr"):
            return self.ev(e["expr"], st)
        if k == "Tup" and not e["elems"]:
            return ("unit",)
        if k == "Tup":
            return ("tuple", [self.ev(x, st) for x in e["elems"]])
        if k == "Call":
            return ("unknown", "call")
        if k == "Array":
            return ("array", [self.ev(x, st) for x in e["elems"]])
        return ("unknown", k)

    def node(self, ctor_path, args, st):
        f = self.F.fn(ctor_path)
        params = [p.get("name") for p in f["hir"]["params"]]
        if len(params) != len(args):
            raise Unextractable(f"{ctor_path}: arity")
        fields = {}
        for p, a in zip(params, args):
            fields[p] = self.ev(a, st)
        return ("node", short(ctor_path), fields)

    # ---- statement / control interpretation: generator of (state, result)
    def run_block(self, b, st):
        """Yield (state, value) for each path that completes the block normally;
        paths that `return` are appended to self.outcomes."""
        states = [st]
        for s in b.get("stmts", []):
            nxt = []
            for st1 in states:
                try:
                    nxt += [x for x, _ in self.run_stmt(s, st1)]
                except Infeasible:
                    pass
            states = nxt
        for st1 in states:
            if b.get("expr") is not None:
                try:
                    yield from self.run_expr(b["expr"], st1)
                except Infeasible:
                    pass
            else:
                yield st1, ("unit",)

    def run_stmt(self, s, st):
        k = s["k"]
        if k == "Let":
            if s.get("init") is None:
                yield st, None
                return
            for st1, v in self.run_expr(s["init"], st):
                bind(s["pat"], v, st1)
                yield st1, None
        elif k in ("Semi", "Expr"):
            for st1, v in self.run_expr(s["e"], st):
                yield st1, None
        else:
            yield st, None

    def run_expr(self, e, st):
        while e.get("k") in ("DropTemps", "Use"):
            e = e["e"]
        k = e.get("k")
        if k == "Block":
            yield from self.run_block(e, st)
            return
        if k == "Ret":
            if e.get("e") is None:
                self.outcomes.append((st, ("unit",)))
                return
            for st1, v in self.run_expr(e["e"], st):
                self.outcomes.append((st1, v))
            return
        if k == "If":
            cond = e["cond"]
            while cond.get("k") in ("DropTemps", "Use"):
                cond = cond["e"]
            if cond.get("k") == "LetExpr":
                st_c = st.fork()
                v = self.ev(cond["init"], st_c)
                # positive branch
                pos = st_c.fork()
                ok = refine(cond["pat"], v, pos, True)
                if ok:
                    yield from self.run_expr(e["then"], pos)
                neg = st_c.fork()
                if e.get("else") is not None:
                    yield from self.run_expr(e["else"], neg)
                else:
                    yield neg, ("unit",)
                return
            # a named "the line ends here" test (see the `match lex.peek_any()` form below): the next token is a line end and stays unconsumed
            cv = peel_keep_clone(cond)
            if cv.get("k") == "Path" and cv.get("res_kind") == "Local" and isinstance(st.env.get(cv["res"]), tuple) and st.env[cv["res"]][0] == "lineend?":
                i = st.env[cv["res"]][1]
                pos = st.fork()
                while len(pos.toks) <= i:
                    pos.toks.append(None)
                if pos.toks[i] in (None, "$"):
                    pos.toks[i] = "$"
                    yield from self.run_expr(e["then"], pos)
                neg = st.fork()
                if e.get("else") is not None:
                    yield from self.run_expr(e["else"], neg)
                else:
                    yield neg, ("unit",)
                return
            # `matches!(tok.token_type(), TokenType::A | TokenType::B(_))`: the token ends the statement (newline / comment)
            mc = peel_keep_clone(cond)
            if mc.get("k") == "Match" and len(mc["arms"]) == 2:
                sc = peel_keep_clone(mc["scrut"])
                if sc.get("k") == "MethodCall" and sc["name"] == "token_type":
                    tv = self.ev(sc["recv"], st.fork())
                    vs = {short(v) for kind, v in pat_variants(mc["arms"][0]["pat"]) if kind == "path"}
                    tb, fb = lit_value(mc["arms"][0]["body"]), lit_value(mc["arms"][1]["body"])
                    if tv and tv[0] == "tok" and vs and vs <= {"Newline", "Comment"} and tb is True and fb is False:
                        i = tv[1]
                        pos = st.fork()
                        if pos.toks[i] in (None, "$"):
                            pos.toks[i] = "$"
                            yield from self.run_expr(e["then"], pos)
                        neg = st.fork()
                        if e.get("else") is not None:
                            yield from self.run_expr(e["else"], neg)
                        else:
                            yield neg, ("unit",)
                        return
            # an operand *value* check that rejects the statement: `if !<range>.contains(&imm.value()) { return Err(..) }` -
            # no token is read in either part, and the accepted path simply goes on
            reads = [m for m in walk(e, pats=False) if m.get("k") == "MethodCall" and (m["name"].startswith("get_") or m["name"].startswith("peek_")) and m["name"] not in ("get_mut", "get_cloned")]
            rejects = any(r_.get("k") == "Ret" for r_ in walk(e["then"], pats=False)) and any(c_.get("k") == "Call" and short(callee_of(c_) or "") == "Err" for c_ in walk(e["then"], pats=False))
            if e.get("else") is None and rejects and not reads:
                yield st, ("unit",)
                return
            raise Unextractable(f"unsupported if-condition at {e.get('sp')}")
        if k == "Match" and e.get("src") != "TryDesugar":
            # `match lex.peek_any() { Ok(t) => matches!(t.token_type(), Newline | Comment(_)), Err(UnexpectedEOF) => true, Err(_) => false }`:
            # "the line (or the input) ends here", decided on the next token without consuming it
            sc0 = peel_keep_clone(e["scrut"])
            if sc0.get("k") == "MethodCall" and sc0["name"] == "peek_any" and sc0["recv"].get("k") == "Path" and sc0["recv"].get("res") == self.lex:
                ok_arm = [a for a in e["arms"] if any(kind == "path" and (v or "").endswith("Result::Ok") for kind, v in pat_variants(a["pat"]))]
                err_arms = [a for a in e["arms"] if a not in ok_arm]
                if len(ok_arm) == 1 and all(isinstance(lit_value(a["body"]), bool) for a in err_arms):
                    b = peel_keep_clone(ok_arm[0]["body"])
                    while b.get("k") == "Block" and not b.get("stmts") and b.get("expr") is not None:
                        b = peel_keep_clone(b["expr"])
                    if b.get("k") == "Match" and len(b["arms"]) == 2 and peel_keep_clone(b["scrut"]).get("k") == "MethodCall" and peel_keep_clone(b["scrut"])["name"] == "token_type":
                        vs = {short(v) for kind, v in pat_variants(b["arms"][0]["pat"]) if kind == "path"}
                        eof_arm = [a for a in err_arms if any((y.get("res") or "").endswith("UnexpectedEOF") for y in walk(a["pat"]))]
                        if vs and vs <= {"Newline", "Comment"} and lit_value(b["arms"][0]["body"]) is True and lit_value(b["arms"][1]["body"]) is False:
                            tok = st.peek()
                            yield st, ("lineend?", tok[1], bool(eof_arm) and lit_value(eof_arm[0]["body"]) is True)
                            return
            sv_state = st.fork()
            sv = self.ev(e["scrut"], sv_state)
            if sv[0] == "name":
                yield sv_state, self.ev(e, st)
                return
            raise Unextractable(f"unsupported match at {e.get('sp')}")
        if k == "Assign":
            # `*imm.get_mut() = new_imm`
            l = peel_keep_clone(e["l"])
            tgt = l
            while tgt.get("k") in ("Unary", "MethodCall", "Field"):
                tgt = tgt.get("a") or tgt.get("recv") or tgt.get("e")
            v = self.ev(e["r"], st)
            if tgt.get("k") == "Path" and tgt.get("res_kind") == "Local":
                st.env[tgt["res"]] = v
                yield st, ("unit",)
                return
            raise Unextractable("assignment target")
        if k == "Loop":
            raise Unextractable(f"loop at {e.get('sp')}")
        v = self.ev(e, st)
        yield st, v


class Infeasible(Exception):
    pass


def peel_keep_clone(e):
    while True:
        k = e.get("k")
        if k in ("DropTemps", "Use", "Type", "AddrOf"):
            e = e["e"]
        elif k == "Unary" and e.get("op") == "Deref":
            e = e["a"]
        elif k == "Block" and not e.get("stmts") and e.get("expr") is not None:
            e = e["expr"]
        else:
            return e


def bind(pat, v, st):
    k = pat.get("k")
    if k == "PBinding":
        st.env[pat["name"]] = v
    elif k == "PTuple" and v and v[0] == "tuple":
        for p, x in zip(pat["pats"], v[1]):
            bind(p, x, st)


def refine(pat, v, st, positive):
    """`if let Ok(x) = tok.as_reg()`: constrain the token kind, bind x."""
    pv = pat_variants(pat)
    if pat.get("k") == "PTupleStruct" and short(pat.get("res")) == "Ok" and v[0] == "as":
        kind, tv = v[1], v[2]
        if tv[0] != "tok":
            raise Unextractable("as_* on a non-token")
        i = tv[1]
        if st.toks[i] not in (None, kind):
            return False
        st.toks[i] = kind
        inner = pat["pats"][0] if pat["pats"] else None
        if inner is not None and inner.get("k") == "PBinding":
            st.env[inner["name"]] = tv
        return True
    raise Unextractable(f"unsupported if-let pattern {pv} at {pat.get('sp')}")


def name_tokens(st):
    """Symbol names for the consumed tokens: r1.. i1.. l1.. c1.. '(' ')' '?'."""
    counts = {}
    names = {}
    seq = []
    for i in range(st.consumed):
        k = st.toks[i]
        if k in ("(", ")", "$"):
            names[i] = k
        elif k is None:
            names[i] = "?"
        else:
            counts[k] = counts.get(k, 0) + 1
            names[i] = f"{k}{counts[k]}"
        seq.append(names[i])
    return seq, names


def sym(v, names):
    """Render a value as a reference-table symbol."""
    if v is None:
        return None
    t = v[0]
    if t == "tok":
        return names.get(v[1], "?peeked")
    if t == "lit":
        return v[1]
    if t == "name":
        return v[1]
    if t == "bin":
        a, b = sym(v[2], names), sym(v[3], names)
        op = {"Shl": "<<", "Shr": ">>", "Add": "+", "Sub": "-"}.get(v[1], v[1])
        return f"{a}{op}{b}"
    if t == "lexfield":
        return "@" + v[1]
    if t == "node":
        return {"node": v[1], **{k: sym(x, names) for k, x in v[2].items()}}
    if t in ("ok", "err", "some"):
        return {t: sym(v[1], names)}
    if t == "ctor":
        return {"ctor": v[1], "args": [sym(x, names) for x in v[2]]}
    if t == "array":
        return [sym(x, names) for x in v[1]]
    if t == "call":
        return {"call": short(v[1]) if isinstance(v[1], str) else str(v[1])}
    return "?" + t


def decode_arm(F, body, env, lex_name="lex"):
    """Enumerate the paths of one arm body.  Returns a list of
    (token sequence, outcome symbol)."""
    d = Decoder(F, lex_name)
    st = State()
    st.env.update(env)
    res = []
    for st1, v in d.run_expr(body, st):
        d.outcomes.append((st1, v))
    for st1, v in d.outcomes:
        seq, names = name_tokens(st1)
        res.append((seq, sym(v, names)))
        # optional look-aheads: tokens read through `?` whose kind the successful path never established
        opt = sorted({i for i in st1.eofq if i < len(st1.toks) and st1.toks[i] in (None, "$")} | {i for i in st1.eofq if i >= len(st1.toks)})
        EOF_OPTIONAL[id(res[-1][1]) if isinstance(res[-1][1], (dict, list)) else (tuple(seq), str(res[-1][1]))] = (opt, st1.consumed)
    return res


EOF_OPTIONAL = {}


def eof_optional(seq, symv):
    """(token positions read through `?` that the path did not depend on, number of consumed tokens)"""
    key = id(symv) if isinstance(symv, (dict, list)) else (tuple(seq), str(symv))
    return EOF_OPTIONAL.get(key, ([], len(seq)))
