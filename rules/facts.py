"""Indexes and tree helpers over the fact base (E2 support)."""
import re
from collections import defaultdict

LIB = "riscv_analysis"


class Facts:
    def __init__(self, crates, info=None):
        self.crates = crates
        self.info = info or {}
        self.fns = {}
        self.adts = {}
        self.impls = []
        self.traits = {}
        for c in crates:
            for f in c["fns"]:
                f["crate"] = c["crate"]
                self.fns[f["path"]] = f
            for a in c["adts"]:
                self.adts[a["path"]] = a
            for i in c["impls"]:
                i["crate"] = c["crate"]
                self.impls.append(i)
            for t in c["traits"]:
                self.traits[t["path"]] = t
        self._closure_children = defaultdict(list)
        for p, f in self.fns.items():
            if f.get("def_kind") == "Closure":
                self._closure_children[f["parent"]].append(p)
        self._cg = None
        # named constants whose value is a literal: `const EXIT: i32 = 10;` reads as 10 wherever it is mentioned
        CONSTS.clear()
        for p, f in self.fns.items():
            if f.get("def_kind") in ("Const", "AssocConst", "Static") or ("hir" in f and not f["hir"].get("params")):
                if "hir" not in f:
                    continue
                v = f["hir"]["value"]
                while isinstance(v, dict) and v.get("k") in ("Block",) and not v.get("stmts") and v.get("expr") is not None:
                    v = v["expr"]
                lv = _plain_lit(v)
                if lv is not None and f.get("def_kind") not in ("Fn", "AssocFn", "Closure"):
                    CONSTS[p] = lv

    # ---------------------------------------------------------------- lookups
    def fn(self, path):
        f = self.fns.get(path)
        if f is None:
            raise Anchor(f"function `{path}` not found in the fact base")
        return f

    def find_fns(self, regex):
        r = re.compile(regex)
        return sorted(p for p in self.fns if r.search(p))

    def adt(self, path):
        a = self.adts.get(path)
        if a is None:
            raise Anchor(f"type `{path}` not found in the fact base")
        return a

    def variants(self, path):
        return [v["name"] for v in self.adt(path)["variants"]]

    def struct_fields(self, path):
        a = self.adt(path)
        return [(f["name"], f["ty"]) for f in a["variants"][0]["fields"]]

    def impls_of(self, trait):
        return [i for i in self.impls if i.get("trait") == trait or (i.get("trait") or "").split("::")[-1] == trait]

    def impl_method(self, trait, self_ty, name):
        for i in self.impls:
            if i.get("trait") == trait and i["self_ty"] == self_ty:
                for it in i["items"]:
                    if it["name"] == name:
                        return it["path"]
        raise Anchor(f"impl {trait} for {self_ty} :: {name} not found")

    def closures_of(self, path):
        """All closure bodies (transitively) defined inside fn `path`."""
        out = []
        stack = [path]
        while stack:
            p = stack.pop()
            for c in self._closure_children.get(p, []):
                out.append(c)
                stack.append(c)
        return out

    # ---------------------------------------------------------------- call graph (MIR)
    def callgraph(self):
        """path -> set of callee paths (resolved when possible).  Closures are
        attached to their parent; virtual / unresolved trait calls are expanded
        by class-hierarchy analysis over workspace impls."""
        if self._cg is not None:
            return self._cg
        trait_impls = defaultdict(set)  # trait method path -> impl method paths
        for i in self.impls:
            if i.get("trait"):
                for it in i["items"]:
                    if it.get("trait_item"):
                        trait_impls[it["trait_item"]].add(it["path"])
        cg = defaultdict(set)
        sites = defaultdict(list)
        self._generic_edges = set()
        for p, f in self.fns.items():
            m = f.get("mir")
            if not m:
                continue
            for c in self._closure_children.get(p, []):
                cg[p].add(c)
            for bi, b in enumerate(m["blocks"]):
                t = b["term"]
                if t["k"] != "Call":
                    continue
                callee = t.get("callee")
                res = t.get("resolved")
                targets = set()
                if callee is None:
                    targets.add("<indirect>")
                elif res and not t.get("virtual") and res != callee:
                    targets.add(res)
                elif res and not t.get("virtual") and callee not in trait_impls:
                    targets.add(res)
                else:
                    # trait method not resolved statically: CHA
                    impls = trait_impls.get(callee)
                    if impls:
                        targets |= impls
                        if callee in self.fns:
                            targets.add(callee)  # default body
                    else:
                        targets.add(res or callee)
                cg[p] |= targets
                sites[p].append((bi, t, targets))
                ga = t.get("gargs") or []
                if callee is not None and ga and re.fullmatch(r"_*[A-Z][A-Za-z0-9]{0,2}|__[A-Z]", ga[0] or ""):
                    # `<T as Trait>::m` with T a type parameter of the caller: type-directed, depth bounded by type nesting
                    for q in targets:
                        self._generic_edges.add((p, q))
        self._cg = cg
        self._sites = sites
        return cg

    def call_sites(self, path):
        self.callgraph()
        return self._sites.get(path, [])

    def reachable(self, roots):
        cg = self.callgraph()
        seen = set()
        stack = list(roots)
        parent = {}
        while stack:
            p = stack.pop()
            if p in seen:
                continue
            seen.add(p)
            for q in cg.get(p, ()):
                if q not in seen:
                    parent.setdefault(q, p)
                    stack.append(q)
        return seen, parent

    def callers_of(self, target):
        """[(caller path, block index, terminator)] for every MIR call whose
        target set contains `target`."""
        self.callgraph()
        out = []
        for p, ss in self._sites.items():
            for bi, t, targets in ss:
                if target in targets:
                    out.append((p, bi, t))
        return out


class Anchor(Exception):
    """A rule's anchor is missing: fail closed."""


# -------------------------------------------------------------------- HIR tree helpers
CHILD_KEYS = ("f", "recv", "e", "a", "b", "l", "r", "cond", "then", "else", "scrut", "init", "body",
              "expr", "idx", "base", "guard", "els", "value", "pat", "sub", "lo", "hi", "mid")
LIST_KEYS = ("args", "elems", "stmts", "arms", "fields", "params", "pats", "before", "after")


PAT_KEYS = {"pat", "sub", "lo", "hi", "mid", "pats", "before", "after", "params"}


def children(n, pats=True):
    if n.get("k") == "Block":  # source order: statements, then the tail expression
        for x in n.get("stmts", []):
            yield x
        if isinstance(n.get("expr"), dict):
            yield n["expr"]
        return
    for k in CHILD_KEYS:
        if not pats and k in PAT_KEYS:
            continue
        v = n.get(k)
        if isinstance(v, dict):
            yield v
    for k in LIST_KEYS:
        if not pats and k in PAT_KEYS:
            continue
        v = n.get(k)
        if isinstance(v, list):
            for x in v:
                if isinstance(x, dict):
                    yield x


def walk(n, pats=True):
    """Pre-order walk over every expression / statement / arm / field dict
    (pats=False: do not descend into patterns)."""
    stack = [n]
    while stack:
        x = stack.pop()
        yield x
        cs = list(children(x, pats))
        stack.extend(reversed(cs))


def is_expr(n):
    return "k" in n


def peel(e):
    """Strip wrappers that do not change the value: blocks without statements,
    DropTemps, Use, type ascription, `&`, `*`, `.clone()`, `.into()`, `Box::new`."""
    while True:
        k = e.get("k")
        if k == "Block" and not e.get("stmts") and e.get("expr") is not None:
            e = e["expr"]
        elif k in ("DropTemps", "Use", "Type"):
            e = e["e"]
        elif k == "AddrOf":
            e = e["e"]
        elif k == "Unary" and e.get("op") == "Deref" and not e.get("callee"):
            e = e["a"]
        elif k == "MethodCall" and e.get("name") in ("clone", "into", "to_owned", "as_ref", "borrow") and not e.get("args"):
            e = e["recv"]
        elif k == "Call" and callee_of(e) in ("alloc::boxed::Box::<T>::new", "core::clone::Clone::clone", "alloc::rc::Rc::<T>::new"):
            e = e["args"][0]
        else:
            return e


def callee_of(e):
    """Resolved def-path of the function a Call / MethodCall / overloaded op targets."""
    k = e.get("k")
    if k == "MethodCall" or k in ("Binary", "AssignOp", "Unary", "Index"):
        return e.get("resolved") or e.get("callee")
    if k == "Call":
        f = e["f"]
        while f.get("k") in ("DropTemps", "Use"):
            f = f["e"]
        if f.get("k") == "Path":
            return f.get("resolved") or f.get("res")
    return None


def declared_callee(e):
    k = e.get("k")
    if k == "MethodCall" or k in ("Binary", "AssignOp", "Unary", "Index"):
        return e.get("callee")
    if k == "Call":
        f = e["f"]
        if f.get("k") == "Path":
            return f.get("res")
    return None


def pat_variants(p):
    """Flatten a pattern into the list of resolved paths / literals it names at
    the top level (through `|`, `&`, bindings `x @ ..`)."""
    k = p.get("k")
    if k == "POr":
        out = []
        for q in p["pats"]:
            out += pat_variants(q)
        return out
    if k in ("PRef", "PBox", "PDeref"):
        return pat_variants(p["pat"])
    if k == "PBinding":
        if p.get("sub"):
            return pat_variants(p["sub"])
        return [("bind", p["name"])]
    if k == "PWild":
        return [("wild", None)]
    if k in ("PTupleStruct", "PStruct"):
        return [("path", p.get("res"))]
    if k == "PExpr":
        e = p["e"]
        if e["k"] == "Path":
            return [("path", e.get("res"))]
        if e["k"] == "Lit":
            v = e["lit"]["v"]
            if e.get("neg"):
                v = -v
            return [("lit", v)]
    if k == "PGuard":
        return pat_variants(p["pat"])
    return [("other", k)]


def find_matches(root, pred=None):
    for n in walk(root):
        if n.get("k") == "Match" and (pred is None or pred(n)):
            yield n


def short(path):
    return path.split("::")[-1] if path else path


def loc(n):
    return n.get("sp", "?")


CONSTS = {}


def _plain_lit(e):
    e = peel(e) if isinstance(e, dict) else {}
    if e.get("k") == "Lit":
        return e["lit"]["v"]
    if e.get("k") == "Unary" and e.get("op") == "Neg":
        v = _plain_lit(e["a"])
        if isinstance(v, int):
            return -v
    return None


def lit_value(e):
    e = peel(e)
    if e.get("k") == "Lit":
        return e["lit"]["v"]
    if e.get("k") == "Path" and e.get("res_kind") in ("Const", "AssocConst") and e.get("res") in CONSTS:
        return CONSTS[e["res"]]
    if e.get("k") == "PExpr" and isinstance(e.get("e"), dict):
        return lit_value(e["e"])
    if e.get("k") == "Unary" and e.get("op") == "Neg":
        v = lit_value(e["a"])
        if isinstance(v, int):
            return -v
    return None


def _method(self, self_ty, name, trait=None, trait_ref=None):
    """Def-path of method `name` of the impl identified by self type and
    (optionally) trait / trait-ref regex.  Robust against moving the impl."""
    hits = []
    for i in self.impls:
        if i["self_ty"] != self_ty:
            continue
        if trait is None and trait_ref is None and i.get("trait") is not None:
            continue
        if trait is not None and i.get("trait") != trait and (i.get("trait") or "").split("::")[-1] != trait:
            continue
        if trait_ref is not None and not re.search(trait_ref, i.get("trait_ref") or ""):
            continue
        for it in i["items"]:
            if it["name"] == name:
                hits.append(it["path"])
    if len(hits) != 1:
        raise Anchor(f"method {name} of impl {trait or trait_ref or ''} for {self_ty}: {len(hits)} candidates")
    return hits[0]


Facts.method = _method


def fmt_template(v):
    """Decode a core::fmt::Arguments template byte string (dumped latin-1) into
    [('lit', text) | ('arg', index)]."""
    b = v.encode("latin-1")
    i = 0
    out = []
    nxt = 0
    while i < len(b):
        n = b[i]
        i += 1
        if n == 0:
            break
        if n < 128:
            out.append(("lit", b[i:i + n].decode("utf-8", "replace")))
            i += n
        elif n == 128:
            ln = b[i] | (b[i + 1] << 8)
            i += 2
            out.append(("lit", b[i:i + ln].decode("utf-8", "replace")))
            i += ln
        else:
            idx = None
            if n & 1:
                i += 4
            if n & 2:
                i += 2
            if n & 4:
                i += 2
            if n & 8:
                idx = b[i] | (b[i + 1] << 8)
                i += 2
            if idx is None:
                idx = nxt
            nxt = idx + 1
            out.append(("arg", idx))
    return out


SIGN_PLUS = 1 << 21


def fmt_template_ex(v):
    """like fmt_template but each placeholder is ('arg', index, flags) (flags = core::fmt option word, 0 if none)"""
    b = v.encode("latin-1")
    i = 0
    out = []
    nxt = 0
    while i < len(b):
        n = b[i]
        i += 1
        if n == 0:
            break
        if n < 128:
            out.append(("lit", b[i:i + n].decode("utf-8", "replace")))
            i += n
        elif n == 128:
            ln = b[i] | (b[i + 1] << 8)
            i += 2
            out.append(("lit", b[i:i + ln].decode("utf-8", "replace")))
            i += ln
        else:
            idx = None
            flags = 0
            if n & 1:
                flags = int.from_bytes(b[i:i + 4], "little")
                i += 4
            if n & 2:
                i += 2
            if n & 4:
                i += 2
            if n & 8:
                idx = b[i] | (b[i + 1] << 8)
                i += 2
            if idx is None:
                idx = nxt
            nxt = idx + 1
            out.append(("arg", idx, flags))
    return out


def format_calls_ex(e):
    """Every format_args! expansion under e: list of piece lists where a placeholder is
    ('arg', {'e': argument expression, 'ty': its type, 'how': 'display'|'debug'|.., 'flags': int})."""
    out = []
    for blk in walk(e):
        if blk.get("k") != "Block" or len(blk.get("stmts") or []) != 2 or blk.get("expr") is None:
            continue
        s0, s1 = blk["stmts"]
        if not (s0.get("k") == "Let" and s1.get("k") == "Let" and (s0.get("exp") or "").startswith("desugar:FormatLiteral")):
            continue
        tup = peel(s0["init"])
        arr = peel(s1["init"])
        if tup.get("k") != "Tup" or arr.get("k") != "Array":
            continue
        exprs = []
        for x in tup["elems"]:
            x = peel(x)
            exprs.append(x["e"] if x.get("k") == "AddrOf" else x)
        hows = []
        for c in arr["elems"]:
            c = peel(c)
            r = callee_of(c) or ""
            a = peel(c["args"][0])
            ai = int(a["name"]) if a.get("k") == "Field" else None
            hows.append((short(r).replace("new_", ""), ai))
        tmpl = None
        for n in walk(blk["expr"]):
            if n.get("k") == "Lit" and n["lit"]["t"] == "bytestr":
                tmpl = fmt_template_ex(n["lit"]["v"])
        if tmpl is None:
            continue
        pcs = []
        for pc in tmpl:
            if pc[0] == "lit":
                pcs.append(pc)
            else:
                how, ai = hows[pc[1]]
                ex = exprs[ai]
                pcs.append(("arg", {"e": ex, "ty": (ex.get("ty") or "").lstrip("&"), "how": how, "flags": pc[2]}))
        out.append(pcs)
    return out


def format_calls_resolved(e, lets=None):
    """format_calls_ex with the placeholders that are fixed text folded into the literal pieces: a string / char constant
    (`{PREFIX}` with `const PREFIX: &str = "so"`) or literal, directly or through an immutable local (`lets`, see local_inits);
    a placeholder that names such a local otherwise gets the local's initialiser as its expression"""
    out = []
    for pcs in format_calls_ex(e):
        res = []
        for pc in pcs:
            if pc[0] == "arg":
                a = dict(pc[1])
                x = peel(a["e"])
                hops = 0
                while lets and x.get("k") == "Path" and x.get("res_kind") == "Local" and x.get("res") in lets and hops < 4:
                    x = peel(lets[x["res"]])
                    hops += 1
                while x.get("k") in ("AddrOf", "DropTemps", "Use") or (x.get("k") == "Unary" and x.get("op") == "Deref"):
                    x = peel(x.get("e") or x.get("a"))
                lv = lit_value(x)
                if isinstance(lv, str) and a["how"] == "display" and not a["flags"]:
                    pc = ("lit", lv)
                else:
                    a["e"] = x
                    pc = ("arg", a)
            if pc[0] == "lit" and res and res[-1][0] == "lit":
                res[-1] = ("lit", res[-1][1] + pc[1])
            else:
                res.append(pc)
        out.append(res)
    return out


def format_pieces(e):
    """All format templates (and plain literal format strings) inside expression e:
    list of piece lists."""
    out = []
    for n in walk(e):
        if n.get("k") == "Call":
            c = callee_of(n) or ""
            if c.startswith("core::fmt::Arguments") and c.endswith("::new") and n["args"]:
                a = peel(n["args"][0])
                if a.get("k") == "Lit" and a["lit"]["t"] == "bytestr":
                    out.append(fmt_template(a["lit"]["v"]))
            elif c.startswith("core::fmt::Arguments") and c.endswith("::from_str") and n["args"]:
                a = peel(n["args"][0])
                if a.get("k") == "Lit":
                    out.append([("lit", a["lit"]["v"])])
    return out


def for_loops(root):
    """Every `for PAT in ITER { BODY }` under root: dicts with pat, iter, body, node."""
    for m in walk(root):
        if m.get("k") == "Match" and m.get("src") == "ForLoopDesugar" and m["scrut"].get("k") == "Call" \
                and short(m["scrut"]["f"].get("res") or "") == "into_iter":
            it = m["scrut"]["args"][0]
            loop = m["arms"][0]["body"]
            while loop.get("k") in ("DropTemps", "Use") or (loop.get("k") == "Block" and not loop.get("stmts")):
                loop = loop.get("e") or loop.get("expr")
            if loop.get("k") != "Loop":
                continue
            inner = None
            for st in loop["body"].get("stmts", []) + ([{"e": loop["body"]["expr"]}] if loop["body"].get("expr") else []):
                e = st.get("e")
                while e is not None and e.get("k") in ("DropTemps", "Use"):
                    e = e["e"]
                if e is not None and e.get("k") == "Match" and e.get("src") == "ForLoopDesugar":
                    inner = e
                    break
            if inner is None:
                continue
            for a in inner["arms"]:
                if short(a["pat"].get("res") or "") == "Some":
                    p = a["pat"]
                    pat = p["fields"][0]["pat"] if p.get("fields") else (p["pats"][0] if p.get("pats") else None)
                    yield {"pat": pat, "iter": it, "body": a["body"], "node": m}


def ekey(e):
    """Canonical text of an expression modulo `&`, `*`, `.clone()`, `Rc::clone(&_)`."""
    e = peel(e)
    k = e.get("k")
    if k == "Path":
        if e.get("res_kind") == "Local":
            return e["res"]
        return short(e.get("res") or "?")
    if k == "Field":
        return ekey(e["e"]) + "." + e["name"]
    if k == "MethodCall":
        return ekey(e["recv"]) + "." + e["name"] + "(" + ",".join(ekey(a) for a in e["args"]) + ")"
    if k == "Call":
        c = callee_of(e) or ""
        if short(c) == "clone" and len(e["args"]) == 1:
            return ekey(e["args"][0])
        return short(c) + "(" + ",".join(ekey(a) for a in e["args"]) + ")"
    if k == "Lit":
        return repr(e["lit"]["v"])
    if k == "Index":
        return ekey(e["e"]) + "[" + ekey(e["idx"]) + "]"
    return "<" + str(k) + ">"


def method_calls(root, resolved_paths=None, names=None):
    """MethodCall / path-call nodes under root whose resolved callee is in resolved_paths (or name in names)."""
    for n in walk(root):
        if n.get("k") in ("MethodCall", "Call"):
            c = callee_of(n)
            if resolved_paths is not None and c in resolved_paths:
                yield n
            elif names is not None and n.get("k") == "MethodCall" and n["name"] in names:
                yield n


def call_recv_args(n):
    """(receiver expr, [arg exprs]) for a method call written either as x.m(a) or T::m(x, a)."""
    if n["k"] == "MethodCall":
        return n["recv"], n["args"]
    return (n["args"][0] if n["args"] else None), n["args"][1:]


class BoolUnx(Exception):
    pass


def closure_like(F, e):
    """a closure expression, or a named function passed where a closure is expected (`.reduce(meet)`), as {params, body}"""
    e = peel(e)
    if e.get("k") == "Closure":
        return e
    if e.get("k") == "Path" and F is not None:
        g = F.fns.get(e.get("res") or "")
        if g and "hir" in g:
            return {"k": "Closure", "params": g["hir"]["params"], "body": g["hir"]["value"], "sp": g["sp"], "def": g["path"]}
    return None


def local_inits(body):
    """name -> initialiser of every immutable `let name = <expr>;` under body (a named sub-expression)"""
    out, dup = {}, set()
    for st in walk(body, pats=False):
        if st.get("k") == "Let" and st["pat"].get("k") == "PBinding" and st.get("init") is not None and st.get("els") is None:
            if ", Mut)" in (st["pat"].get("mode") or ""):
                continue
            nm = st["pat"]["name"]
            if nm in out:
                dup.add(nm)
            out[nm] = st["init"]
    for nm in dup:
        out.pop(nm, None)   # shadowed names are ambiguous: not expanded
    return out


def walk_expanded(e, lets, depth=0):
    """the nodes of e, and of the initialisers of the named locals it mentions (transitively, closures included)"""
    for n in walk(e, pats=False):
        yield n
        if n.get("k") == "Path" and n.get("res_kind") == "Local" and lets and n.get("res") in lets and depth < 3:
            yield from walk_expanded(lets[n["res"]], lets, depth + 1)


def bool_eval(e, classify, env, lets=None, depth=0):
    """truth value of a HIR condition built from `&&`, `||`, `!`, `== true/false` over atoms; `classify(expr)` names an atom
    (looked up in env) or returns None. With `lets` (see local_inits) a named boolean stands for its initialiser."""
    e = peel(e)
    while e.get("k") in ("DropTemps", "Use") or (e.get("k") == "Block" and not e.get("stmts") and e.get("expr") is not None):
        e = peel(e["e"] if e.get("k") != "Block" else e["expr"])
    a = classify(e)
    if a is not None:
        if a not in env:
            raise BoolUnx(f"atom {a}")
        return env[a]
    k = e.get("k")
    if k == "Lit" and e["lit"]["t"] == "bool":
        return e["lit"]["v"]
    if k == "Path" and e.get("res_kind") == "Local" and lets and e.get("res") in lets and depth < 4:
        return bool_eval(lets[e["res"]], classify, env, lets, depth + 1)
    if k == "Unary" and e["op"] == "Not":
        return not bool_eval(e["a"], classify, env, lets, depth)
    if k == "Binary" and e["op"] in ("And", "Or"):
        x = bool_eval(e["a"], classify, env, lets, depth)
        y = bool_eval(e["b"], classify, env, lets, depth)
        return (x and y) if e["op"] == "And" else (x or y)
    if k == "Binary" and e["op"] in ("Eq", "Ne"):
        x = bool_eval(e["a"], classify, env, lets, depth)
        y = bool_eval(e["b"], classify, env, lets, depth)
        return (x == y) if e["op"] == "Eq" else (x != y)
    raise BoolUnx(ekey(e)[:60])


def bool3(e, classify, env, lets=None, depth=0):
    """three-valued version of bool_eval: atoms missing from env (and anything not understood) are unknown (None)"""
    e = peel(e)
    while e.get("k") in ("DropTemps", "Use") or (e.get("k") == "Block" and not e.get("stmts") and e.get("expr") is not None):
        e = peel(e["e"] if e.get("k") != "Block" else e["expr"])
    a = classify(e)
    if a is not None:
        return env.get(a)
    k = e.get("k")
    if k == "Lit" and e["lit"]["t"] == "bool":
        return e["lit"]["v"]
    if k == "Path" and e.get("res_kind") == "Local" and lets and e.get("res") in lets and depth < 4:
        return bool3(lets[e["res"]], classify, env, lets, depth + 1)
    if k == "Unary" and e["op"] == "Not":
        v = bool3(e["a"], classify, env, lets, depth)
        return None if v is None else not v
    if k == "Binary" and e["op"] in ("And", "Or"):
        x = bool3(e["a"], classify, env, lets, depth)
        y = bool3(e["b"], classify, env, lets, depth)
        if e["op"] == "And":
            return False if (x is False or y is False) else (True if (x is True and y is True) else None)
        return True if (x is True or y is True) else (False if (x is False and y is False) else None)
    return None


def path_forces(pm, node, classify, atom, value, lets=None):
    """True if `node` can only be reached when `atom` has `value`: assuming the opposite contradicts one of the path constraints"""
    for c, want in path_constraints(pm, node):
        v = bool3(c, classify, {atom: not value}, lets)
        if v is not None and v != want:
            return True
    return False



def path_constraints(pm, node):
    """conditions that hold whenever `node` is reached inside its function body, as [(cond expr, value)]:
    the enclosing `if` branches, and earlier statements of the enclosing blocks of the form `if C { continue | break | return }`"""
    out = []
    x = node
    while id(x) in pm:
        par = pm[id(x)]
        if par.get("k") == "If":
            c = par["cond"]
            while c.get("k") in ("DropTemps", "Use"):
                c = c["e"]
            if c.get("k") != "LetExpr":
                if par.get("then") is x or any(y is x for y in [par.get("then")]):
                    out.append((c, True))
                elif par.get("else") is x:
                    out.append((c, False))
        if par.get("k") == "Block":
            for st in par.get("stmts", []):
                if st is x or any(y is x for y in walk(st, pats=False)):
                    break
                e = peel(st.get("e") or {})
                if e.get("k") == "If" and e.get("else") is None:
                    c = e["cond"]
                    while c.get("k") in ("DropTemps", "Use"):
                        c = c["e"]
                    if c.get("k") != "LetExpr":
                        th = peel(e["then"])
                        last = (th.get("stmts") or [{}])[-1] if th.get("k") == "Block" else {}
                        tail = peel(th.get("expr") or last.get("e") or {}) if th.get("k") == "Block" else th
                        if tail.get("k") in ("Continue", "Break", "Ret"):
                            out.append((c, False))
        x = par
    return out


def implied_by_path(pm, node, classify, atom):
    """True if `node` can only be reached when `atom` holds (judged from path_constraints; other atoms are unknown)"""
    for c, want in path_constraints(pm, node):
        try:
            v = bool_eval(c, classify, {atom: False})
        except BoolUnx:
            continue
        if v != want:
            return True
    return False


class LinUnx(Exception):
    pass


def linform(e, lets=None, depth=0, atom=None):
    """an integer expression as a linear form {name: coefficient, "": constant} over parameters / `self.<field>`s: literals,
    `+`, `-`, `saturating_sub` (read as `-`), casts, named locals (through `lets`, see local_inits - shadowing `let x = x + 1`
    is followed in order by the caller). Raises LinUnx on anything else."""
    e = peel(e)
    while e.get("k") in ("DropTemps", "Use", "Cast") or (e.get("k") == "Block" and not e.get("stmts") and e.get("expr") is not None):
        e = peel(e["e"] if e.get("k") != "Block" else e["expr"])
    if depth > 8:
        raise LinUnx("too deep")
    if atom is not None:
        nm = atom(e)
        if nm is not None:
            return {nm: 1, "": 0}
    lv = lit_value(e)
    if isinstance(lv, int) and not isinstance(lv, bool):
        return {"": lv}
    k = e.get("k")
    if k == "Field" and ekey(e["e"]).lstrip("&*") == "self":
        return {e["name"]: 1, "": 0}
    if k == "Path" and e.get("res_kind") == "Local":
        if lets is not None and e["res"] in lets:
            return linform(lets[e["res"]], lets, depth + 1, atom)
        return {e["res"]: 1, "": 0}
    if k == "Unary" and e.get("op") == "Deref":
        return linform(e["a"], lets, depth + 1, atom)
    if k == "Binary" and e["op"] in ("Add", "Sub"):
        a, b = linform(e["a"], lets, depth + 1, atom), linform(e["b"], lets, depth + 1, atom)
        sgn = 1 if e["op"] == "Add" else -1
        out = dict(a)
        for n, c in b.items():
            out[n] = out.get(n, 0) + sgn * c
        return out
    if k == "MethodCall" and e["name"] in ("saturating_sub", "wrapping_sub", "saturating_add", "wrapping_add") and len(e["args"]) == 1:
        a, b = linform(e["recv"], lets, depth + 1, atom), linform(e["args"][0], lets, depth + 1, atom)
        sgn = -1 if e["name"].endswith("sub") else 1
        out = dict(a)
        for n, c in b.items():
            out[n] = out.get(n, 0) + sgn * c
        return out
    raise LinUnx(ekey(e)[:50])


def lin_eq(a, b):
    keys = set(a) | set(b)
    return all(a.get(k, 0) == b.get(k, 0) for k in keys)


def prange_contains(p, v):
    """does the range pattern `lo..=hi` / `lo..hi` (HIR `PRange`, field `end` = Included | Excluded) contain v? None if not literal"""
    lo, hi = lit_value(p.get("lo") or {}), lit_value(p.get("hi") or {})
    if lo is None or hi is None or type(lo) is not type(hi) or type(v) is not type(lo):
        return None
    return (lo <= v <= hi) if "Included" in (p.get("end") or "Included") else (lo <= v < hi)


def inline_self_helpers(F, f, prefix, depth=1):
    """a copy of f's HIR body in which calls of private helper methods (`self.helper(a, &mut b)`, callee path starting with
    `prefix`, body available, not recursive) are replaced by the helper's body, its parameters renamed to the argument locals.
    A block of a long function that was moved into a helper of the same type reads, for the rules, as if it were still in place.
    -> (body, [inlined callee paths])"""
    import copy
    body = copy.deepcopy(f["hir"]["value"])
    inlined = []

    def rename(node, sub):
        for n in walk(node, pats=True):
            if n.get("k") == "Path" and n.get("res_kind") == "Local" and n.get("res") in sub:
                n["res"] = sub[n["res"]]

    def visit(node, d):
        if isinstance(node, dict):
            for key, val in list(node.items()):
                if isinstance(val, dict):
                    rep = try_inline(val, d)
                    if rep is not None:
                        node[key] = rep
                        visit(rep, d + 1)
                    else:
                        visit(val, d)
                elif isinstance(val, list):
                    for i, x in enumerate(val):
                        if isinstance(x, dict):
                            rep = try_inline(x, d)
                            if rep is not None:
                                val[i] = rep
                                visit(rep, d + 1)
                            else:
                                visit(x, d)

    def try_inline(m, d):
        if m.get("k") not in ("MethodCall", "Call") or d > depth:
            return None
        c = callee_of(m) or ""
        g = F.fns.get(c)
        if not g or "hir" not in g or not c.startswith(prefix) or c == f["path"]:
            return None
        if m["k"] == "MethodCall":
            r = peel(m["recv"])
            if not (r.get("k") == "Path" and r.get("res") == "self"):
                return None
            params = [p_.get("name") for p_ in g["hir"]["params"]][1:]
        else:
            # an associated function without a receiver: `Self::helper(a, &b)`
            params = [p_.get("name") for p_ in g["hir"]["params"]]
            if params and params[0] == "self":
                return None
        if len(params) != len(m["args"]) or any(p_ is None for p_ in params):
            return None
        sub = {}
        for p_, a in zip(params, m["args"]):
            a2 = peel(a)
            while a2.get("k") == "AddrOf":
                a2 = peel(a2["e"])
            if a2.get("k") == "Path" and a2.get("res_kind") == "Local":
                sub[p_] = a2["res"]
            else:
                return None   # an argument that is not a plain local: keep the call
        b = copy.deepcopy(g["hir"]["value"])
        rename(b, sub)
        inlined.append(c)
        return b
    visit(body, 0)
    return body, inlined
