"""Indexes and tree helpers over the fact base (E2 support)."""
import re
from collections import defaultdict

LIB = "riscv_analysis"


class Facts:
    def __init__(self, crates, info=None):
        self.crates = crates
        self.info = info or {}
        self.fns = {}
        self.adts = {}
        self.impls = []
        self.traits = {}
        for c in crates:
            for f in c["fns"]:
                f["crate"] = c["crate"]
                self.fns[f["path"]] = f
            for a in c["adts"]:
                self.adts[a["path"]] = a
            for i in c["impls"]:
                i["crate"] = c["crate"]
                self.impls.append(i)
            for t in c["traits"]:
                self.traits[t["path"]] = t
        self._closure_children = defaultdict(list)
        for p, f in self.fns.items():
            if f.get("def_kind") == "Closure":
                self._closure_children[f["parent"]].append(p)
        self._cg = None

    # ---------------------------------------------------------------- lookups
    def fn(self, path):
        f = self.fns.get(path)
        if f is None:
            raise Anchor(f"function `{path}` not found in the fact base")
        return f

    def find_fns(self, regex):
        r = re.compile(regex)
        return sorted(p for p in self.fns if r.search(p))

    def adt(self, path):
        a = self.adts.get(path)
        if a is None:
            raise Anchor(f"type `{path}` not found in the fact base")
        return a

    def variants(self, path):
        return [v["name"] for v in self.adt(path)["variants"]]

    def struct_fields(self, path):
        a = self.adt(path)
        return [(f["name"], f["ty"]) for f in a["variants"][0]["fields"]]

    def impls_of(self, trait):
        return [i for i in self.impls if i.get("trait") == trait]

    def impl_method(self, trait, self_ty, name):
        for i in self.impls:
            if i.get("trait") == trait and i["self_ty"] == self_ty:
                for it in i["items"]:
                    if it["name"] == name:
                        return it["path"]
        raise Anchor(f"impl {trait} for {self_ty} :: {name} not found")

    def closures_of(self, path):
        """All closure bodies (transitively) defined inside fn `path`."""
        out = []
        stack = [path]
        while stack:
            p = stack.pop()
            for c in self._closure_children.get(p, []):
                out.append(c)
                stack.append(c)
        return out

    # ---------------------------------------------------------------- call graph (MIR)
    def callgraph(self):
        """path -> set of callee paths (resolved when possible).  Closures are
        attached to their parent; virtual / unresolved trait calls are expanded
        by class-hierarchy analysis over workspace impls."""
        if self._cg is not None:
            return self._cg
        trait_impls = defaultdict(set)  # trait method path -> impl method paths
        for i in self.impls:
            if i.get("trait"):
                for it in i["items"]:
                    if it.get("trait_item"):
                        trait_impls[it["trait_item"]].add(it["path"])
        cg = defaultdict(set)
        sites = defaultdict(list)
        for p, f in self.fns.items():
            m = f.get("mir")
            if not m:
                continue
            for c in self._closure_children.get(p, []):
                cg[p].add(c)
            for bi, b in enumerate(m["blocks"]):
                t = b["term"]
                if t["k"] != "Call":
                    continue
                callee = t.get("callee")
                res = t.get("resolved")
                targets = set()
                if callee is None:
                    targets.add("<indirect>")
                elif res and not t.get("virtual") and res != callee:
                    targets.add(res)
                elif res and not t.get("virtual") and callee not in trait_impls:
                    targets.add(res)
                else:
                    # trait method not resolved statically: CHA
                    impls = trait_impls.get(callee)
                    if impls:
                        targets |= impls
                        if callee in self.fns:
                            targets.add(callee)  # default body
                    else:
                        targets.add(res or callee)
                cg[p] |= targets
                sites[p].append((bi, t, targets))
        self._cg = cg
        self._sites = sites
        return cg

    def call_sites(self, path):
        self.callgraph()
        return self._sites.get(path, [])

    def reachable(self, roots):
        cg = self.callgraph()
        seen = set()
        stack = list(roots)
        parent = {}
        while stack:
            p = stack.pop()
            if p in seen:
                continue
            seen.add(p)
            for q in cg.get(p, ()):
                if q not in seen:
                    parent.setdefault(q, p)
                    stack.append(q)
        return seen, parent

    def callers_of(self, target):
        """[(caller path, block index, terminator)] for every MIR call whose
        target set contains `target`."""
        self.callgraph()
        out = []
        for p, ss in self._sites.items():
            for bi, t, targets in ss:
                if target in targets:
                    out.append((p, bi, t))
        return out


class Anchor(Exception):
    """A rule's anchor is missing: fail closed."""


# -------------------------------------------------------------------- HIR tree helpers
CHILD_KEYS = ("f", "recv", "e", "a", "b", "l", "r", "cond", "then", "else", "scrut", "init", "body",
              "expr", "idx", "base", "guard", "els", "value")
LIST_KEYS = ("args", "elems", "stmts", "arms", "fields", "params")


def children(n):
    for k in CHILD_KEYS:
        v = n.get(k)
        if isinstance(v, dict):
            yield v
    for k in LIST_KEYS:
        v = n.get(k)
        if isinstance(v, list):
            for x in v:
                if isinstance(x, dict):
                    yield x


def walk(n):
    """Pre-order walk over every expression / statement / arm / field dict."""
    stack = [n]
    while stack:
        x = stack.pop()
        yield x
        cs = list(children(x))
        stack.extend(reversed(cs))


def is_expr(n):
    return "k" in n


def peel(e):
    """Strip wrappers that do not change the value: blocks without statements,
    DropTemps, Use, type ascription, `&`, `*`, `.clone()`, `.into()`, `Box::new`."""
    while True:
        k = e.get("k")
        if k == "Block" and not e.get("stmts") and e.get("expr") is not None:
            e = e["expr"]
        elif k in ("DropTemps", "Use", "Type"):
            e = e["e"]
        elif k == "AddrOf":
            e = e["e"]
        elif k == "Unary" and e.get("op") == "Deref" and not e.get("callee"):
            e = e["a"]
        elif k == "MethodCall" and e.get("name") in ("clone", "into", "to_owned", "as_ref", "borrow") and not e.get("args"):
            e = e["recv"]
        elif k == "Call" and callee_of(e) in ("alloc::boxed::Box::<T>::new", "core::clone::Clone::clone", "alloc::rc::Rc::<T>::new"):
            e = e["args"][0]
        else:
            return e


def callee_of(e):
    """Resolved def-path of the function a Call / MethodCall / overloaded op targets."""
    k = e.get("k")
    if k == "MethodCall" or k in ("Binary", "AssignOp", "Unary", "Index"):
        return e.get("resolved") or e.get("callee")
    if k == "Call":
        f = e["f"]
        while f.get("k") in ("DropTemps", "Use"):
            f = f["e"]
        if f.get("k") == "Path":
            return f.get("resolved") or f.get("res")
    return None


def declared_callee(e):
    k = e.get("k")
    if k == "MethodCall" or k in ("Binary", "AssignOp", "Unary", "Index"):
        return e.get("callee")
    if k == "Call":
        f = e["f"]
        if f.get("k") == "Path":
            return f.get("res")
    return None


def pat_variants(p):
    """Flatten a pattern into the list of resolved paths / literals it names at
    the top level (through `|`, `&`, bindings `x @ ..`)."""
    k = p.get("k")
    if k == "Or":
        out = []
        for q in p["pats"]:
            out += pat_variants(q)
        return out
    if k in ("Ref", "Box", "Deref"):
        return pat_variants(p["pat"])
    if k == "Binding":
        if p.get("sub"):
            return pat_variants(p["sub"])
        return [("bind", p["name"])]
    if k == "Wild":
        return [("wild", None)]
    if k in ("TupleStruct", "Struct"):
        return [("path", p.get("res"))]
    if k == "Expr":
        e = p["e"]
        if e["k"] == "Path":
            return [("path", e.get("res"))]
        if e["k"] == "Lit":
            v = e["lit"]["v"]
            if e.get("neg"):
                v = -v
            return [("lit", v)]
    if k == "Guard":
        return pat_variants(p["pat"])
    return [("other", k)]


def find_matches(root, pred=None):
    for n in walk(root):
        if n.get("k") == "Match" and (pred is None or pred(n)):
            yield n


def short(path):
    return path.split("::")[-1] if path else path


def loc(n):
    return n.get("sp", "?")


def lit_value(e):
    e = peel(e)
    if e.get("k") == "Lit":
        return e["lit"]["v"]
    if e.get("k") == "Unary" and e.get("op") == "Neg":
        v = lit_value(e["a"])
        if isinstance(v, int):
            return -v
    return None


def _method(self, self_ty, name, trait=None, trait_ref=None):
    """Def-path of method `name` of the impl identified by self type and
    (optionally) trait / trait-ref regex.  Robust against moving the impl."""
    hits = []
    for i in self.impls:
        if i["self_ty"] != self_ty:
            continue
        if trait is None and trait_ref is None and i.get("trait") is not None:
            continue
        if trait is not None and i.get("trait") != trait:
            continue
        if trait_ref is not None and not re.search(trait_ref, i.get("trait_ref") or ""):
            continue
        for it in i["items"]:
            if it["name"] == name:
                hits.append(it["path"])
    if len(hits) != 1:
        raise Anchor(f"method {name} of impl {trait or trait_ref or ''} for {self_ty}: {len(hits)} candidates")
    return hits[0]


Facts.method = _method
