"""MIR helpers: CFG, dominators, def-use tracing over the JSON fact base."""
from collections import defaultdict


class Body:
    def __init__(self, f):
        self.f = f
        self.path = f["path"]
        m = f["mir"]
        self.m = m
        self.blocks = m["blocks"]
        self.nargs = m["arg_count"]
        self.locals = m["locals"]
        self.succ = [self._succ(b["term"]) for b in self.blocks]
        self.pred = defaultdict(list)
        for i, ss in enumerate(self.succ):
            for s in ss:
                self.pred[s].append(i)
        self.idom = [b["idom"] for b in self.blocks]
        # defs: local -> [(bb, idx, kind, payload)]; idx == len(stmts) for the terminator
        self.defs = defaultdict(list)
        for bi, b in enumerate(self.blocks):
            for si, s in enumerate(b["stmts"]):
                if s["k"] == "Assign":
                    self.defs[s["place"]["l"]].append((bi, si, s))
                elif s["k"] == "SetDiscriminant":
                    self.defs[s["place"]["l"]].append((bi, si, s))
            t = b["term"]
            if t["k"] == "Call":
                self.defs[t["dest"]["l"]].append((bi, len(b["stmts"]), t))
        self.names = {}
        for d in m["debug"]:
            if not d["place"]["p"]:
                self.names.setdefault(d["place"]["l"], d["name"])

    @staticmethod
    def _succ(t, unwind=False):
        k = t["k"]
        out = []
        if k == "Goto":
            out = [t["target"]]
        elif k == "SwitchInt":
            out = [b for _, b in t["targets"]] + [t["otherwise"]]
        elif k in ("Call", "Drop", "Assert"):
            if t.get("target") is not None:
                out = [t["target"]]
            if unwind and t.get("unwind") is not None:
                out.append(t["unwind"])
        return out

    def dominates(self, a, b):
        """block a dominates block b"""
        while b is not None:
            if a == b:
                return True
            b = self.idom[b]
        return False

    def dom_chain(self, b):
        out = []
        b = self.idom[b]
        while b is not None:
            out.append(b)
            b = self.idom[b]
        return out

    def local_name(self, l):
        if l in self.names:
            return self.names[l]
        if 1 <= l <= self.nargs:
            return f"arg{l}"
        return f"_{l}"

    def ty(self, l):
        return self.locals[l]["ty"]

    # ------------------------------------------------------------ value tracing
    def trace(self, op, depth=0, seen=None):
        """Symbolic origin of an operand as a small expression tree.
        Follows single-definition temporaries only (opt-level 0 MIR is close to SSA
        for temporaries); anything else is ('local', l)."""
        if depth > 40:
            return ("deep",)
        k = op["k"]
        if k == "const":
            if "int" in op:
                return ("const", op["int"], op["ty"])
            if "fn" in op:
                return ("fn", op.get("resolved") or op["fn"])
            return ("constv", op["v"], op["ty"])
        if k not in ("copy", "move"):
            return ("unknown", k)
        return self.trace_place(op["place"], depth, seen)

    def trace_place(self, pl, depth=0, seen=None):
        l, proj = pl["l"], pl["p"]
        seen = seen or set()
        if 1 <= l <= self.nargs and len(self.defs.get(l, [])) == 0:
            base = ("param", l, self.local_name(l))
            return base if not proj else ("proj", base, tuple(proj))
        ds = self.defs.get(l, [])
        if len(ds) != 1 or (l, tuple(proj)) in seen:
            base = ("local", l, self.local_name(l), self.ty(l))
            return base if not proj else ("proj", base, tuple(proj))
        seen = seen | {(l, tuple(proj))}
        bi, si, s = ds[0]
        if s["k"] == "Call":
            v = ("call", s.get("resolved") or s.get("callee") or "<indirect>", tuple(self.trace(a, depth + 1, seen) for a in s["args"]))
            return v if not proj else ("proj", v, tuple(proj))
        if s["k"] != "Assign" or s["place"]["p"]:
            base = ("local", l, self.local_name(l), self.ty(l))
            return base if not proj else ("proj", base, tuple(proj))
        rv = s["rv"]
        rk = rv["k"]
        if rk == "Use":
            v = self.trace(rv["op"], depth + 1, seen)
            return v if not proj else ("proj", v, tuple(proj))
        if rk == "Aggregate" and rv.get("agg") == "tuple" and proj and proj[0].startswith("f"):
            idx = int(proj[0][1:])
            v = self.trace(rv["ops"][idx], depth + 1, seen)
            return v if len(proj) == 1 else ("proj", v, tuple(proj[1:]))
        if rk == "Cast":
            v = ("cast", rv["cast"], rv["from"], rv["to"], self.trace(rv["op"], depth + 1, seen))
        elif rk == "BinaryOp":
            op = rv["op"]
            v = ("bin", op, rv["aty"], self.trace(rv["a"], depth + 1, seen), self.trace(rv["b"], depth + 1, seen))
            if proj and proj[0] == "f0" and op.endswith("WithOverflow"):
                proj = proj[1:]
        elif rk == "UnaryOp":
            v = ("un", rv["op"], self.trace(rv["a"], depth + 1, seen))
        elif rk in ("Ref", "RawPtr", "CopyForDeref"):
            inner = self.trace_place(rv["place"], depth + 1, seen)
            v = ("ref", inner) if rk != "CopyForDeref" else inner
        elif rk == "Discriminant":
            v = ("discr", self.trace_place(rv["place"], depth + 1, seen))
        elif rk == "Aggregate":
            v = ("agg", rv.get("adt") or rv.get("closure") or rv.get("agg"), rv.get("variant"),
                 tuple(self.trace(o, depth + 1, seen) for o in rv["ops"]))
        else:
            v = ("rv", rk)
        return v if not proj else ("proj", v, tuple(proj))

    # ------------------------------------------------------------ path queries
    def reachable_from(self, b, avoid=(), unwind=False):
        """Blocks reachable from b (inclusive) without entering `avoid`."""
        seen = set()
        st = [b]
        while st:
            x = st.pop()
            if x in seen or x in avoid:
                continue
            seen.add(x)
            for s in self._succ(self.blocks[x]["term"], unwind):
                st.append(s)
        return seen

    def calls(self):
        for bi, b in enumerate(self.blocks):
            t = b["term"]
            if t["k"] == "Call":
                yield bi, t


def strip_casts(v):
    while v and v[0] == "cast":
        v = v[4]
    return v


def fmt(v):
    """Compact rendering of a trace tree."""
    if not isinstance(v, tuple):
        return str(v)
    t = v[0]
    if t == "param":
        return v[2]
    if t == "local":
        return v[2]
    if t == "const":
        return str(v[1])
    if t == "constv":
        return str(v[1])
    if t == "cast":
        return f"({fmt(v[4])} as {v[3]})"
    if t == "bin":
        return f"{v[1]}({fmt(v[3])}, {fmt(v[4])})"
    if t == "un":
        return f"{v[1]}({fmt(v[2])})"
    if t == "call":
        return v[1].split("::")[-1] + "(" + ", ".join(fmt(a) for a in v[2]) + ")"
    if t == "proj":
        return fmt(v[1]) + "".join("." + p for p in v[2])
    if t == "ref":
        return "&" + fmt(v[1])
    if t == "discr":
        return "discr(" + fmt(v[1]) + ")"
    if t == "agg":
        return f"{v[1]}::{v[2]}(" + ", ".join(fmt(a) for a in v[3]) + ")"
    if t == "fn":
        return v[1]
    return str(v)
