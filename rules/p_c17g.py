"""C17.g / C13.h: the three notations of an immediate accept the same 32-bit range.

A tiny interval evaluator over the type-checked HIR of the arms of `Imm::from_str` that turn a parsed
magnitude `m` into the immediate.  Every value is `sign * m` (or a constant) of some integer type, with
an interval of magnitudes for which the conversions so far succeed; `try_from`, `checked_*` and negation
narrow the interval, a same-width `as` cast reinterprets (two's complement), `T::from` widens.  Anything
else is UNEXTRACTABLE (fail closed)."""
from .facts import *
from .core import rule, Anchor
from .g1 import ty_range, ty_bits

IMM = "riscv_analysis::parser::imm::Imm"


class Unx(Exception):
    pass


def _strip(e):
    e = peel(e)
    while True:
        if e.get("k") in ("DropTemps", "Use"):
            e = peel(e["e"])
        elif e.get("k") == "Block" and not e.get("stmts") and e.get("expr") is not None:
            e = peel(e["expr"])
        else:
            return e


class V:
    """value = sign * m (sign 0: the constant `c`), of type ty, defined for m in [lo, hi] (lo > hi: never)"""

    def __init__(self, sign, ty, lo, hi, c=0):
        self.sign, self.ty, self.lo, self.hi, self.c = sign, ty, lo, hi, c

    def copy(self, **kw):
        v = V(self.sign, self.ty, self.lo, self.hi, self.c)
        for k, x in kw.items():
            setattr(v, k, x)
        return v

    def within(self, rng):
        """narrow to the magnitudes for which the value lies in rng"""
        a, b = rng
        if self.sign == 0:
            return self.copy() if a <= self.c <= b else self.copy(lo=1, hi=0)
        if self.sign == 1:
            return self.copy(lo=max(self.lo, a), hi=min(self.hi, b))
        return self.copy(lo=max(self.lo, -b), hi=min(self.hi, -a))


NEVER = "never"


def _closure_of(e):
    e = _strip(e)
    if e.get("k") == "Closure":
        return e
    return None


def _ty_of_impl(callee, kind):
    """`<i32 as TryFrom<i64>>::try_from` / `TryFrom<i64> for i32>::try_from` -> 'i32'"""
    import re
    m = re.search(r"for (\w+)>::" + kind + "$", callee) or re.search(r"<(\w+) as [^>]*>+::" + kind + "$", callee)
    return m.group(1) if m else None


def ev(e, env, mul):
    e = _strip(e)
    k = e.get("k")
    if k == "Path" and e.get("res_kind") == "Local":
        if e["res"] in env:
            return env[e["res"]]
        raise Unx(f"unknown local `{e['res']}`")
    lv = lit_value(e)
    if isinstance(lv, int) and not isinstance(lv, bool):
        return V(0, e.get("ty") or "i32", 0, 1 << 70, lv)
    if k == "Path" and short(e.get("res") or "") == "None":
        return NEVER
    if k == "Cast":
        v = ev(e["e"], env, mul)
        if v == NEVER:
            return v
        t = e.get("ty") or e.get("to")
        bs, bt = ty_bits(v.ty), ty_bits(t)
        if not bs or not bt or bt < bs:
            raise Unx(f"cast {v.ty} as {t}")
        return v.copy(ty=t)          # same width: two's-complement reinterpretation; wider: value kept
    if k == "Unary" and e.get("op") == "Neg":
        v = ev(e["a"], env, mul)
        if v == NEVER:
            return v
        n = v.copy(sign=-v.sign, c=-v.c)
        return n.within(ty_range(v.ty))
    if k == "Call":
        c = callee_of(e) or ""
        s = short(c)
        if s in ("Ok", "Some") or c.endswith("imm::Imm"):
            return ev(e["args"][0], env, mul)
        if s == "Err":
            return NEVER
        if s == "from" and len(e["args"]) == 1:
            v = ev(e["args"][0], env, mul)
            t = _ty_of_impl(c, "from") or e.get("ty")
            if v == NEVER:
                return v
            if not ty_range(t):
                raise Unx(f"From into {t}")
            return v.copy(ty=t)
        if s == "try_from" and len(e["args"]) == 1:
            v = ev(e["args"][0], env, mul)
            t = _ty_of_impl(c, "try_from")
            if v == NEVER:
                return v
            if not ty_range(t):
                raise Unx(f"TryFrom into {t} ({c})")
            return v.within(ty_range(t)).copy(ty=t)
        raise Unx(f"call {c}")
    if k == "MethodCall":
        n = e["name"]
        r = ev(e["recv"], env, mul)
        if n in ("ok", "ok_or", "ok_or_else", "map_err", "copied", "cloned"):
            return r
        if n in ("or", "or_else") and len(e["args"]) == 1:
            # an alternative widens what is accepted, unless it is itself a failure
            a_ = _closure_of(e["args"][0])
            alt = ev(a_["body"] if a_ is not None else e["args"][0], env, mul)
            if alt == NEVER or (alt != NEVER and alt.lo > alt.hi):
                return r
            if r == NEVER or r.lo > r.hi:
                return alt
            raise Unx(f"`.{n}(..)` with an alternative that can succeed")
        if n in ("map", "and_then") and len(e["args"]) == 1:
            if r == NEVER:
                return r
            cl = _closure_of(e["args"][0])
            if cl is None:
                a = _strip(e["args"][0])
                if a.get("k") == "Path" and (a.get("res") or "").endswith("imm::Imm"):
                    return r
                raise Unx(f"{n}({ekey(a)[:30]})")
            ps = [b["name"] for p_ in cl.get("params") or [] for b in walk(p_) if b.get("k") == "PBinding"]
            if len(ps) != 1:
                raise Unx("closure parameters")
            env2 = dict(env)
            env2[ps[0]] = r
            return ev(cl["body"], env2, mul)
        if n in ("checked_mul",) and len(e["args"]) == 1:
            a = ev(e["args"][0], env, mul)
            if r == NEVER or a == NEVER:
                return NEVER
            if a.sign != 0 or a.c not in (1, -1):
                raise Unx("checked_mul by something other than the sign")
            return r.copy(sign=r.sign * a.c, c=r.c * a.c).within(ty_range(r.ty))
        if n == "checked_neg" and not e["args"]:
            if r == NEVER:
                return r
            return r.copy(sign=-r.sign, c=-r.c).within(ty_range(r.ty))
        raise Unx(f"method {n}")
    if k == "If" and e.get("else") is not None:
        c = _strip(e["cond"])
        t = _mul_test(c, mul)
        if t is None:
            raise Unx("condition")
        return ev(e["then"] if t else e["else"], env, mul)
    raise Unx(f"{k} {ekey(e)[:40]}")


_SV = {1: 1, -1: -1}     # what the sign local holds without / after a `-` (an integer factor, or a flag)


def _mul_test(c, mul):
    """truth of `mul == 1`, `mul < 0`, `negated`, `!negated` ... for a known sign; None if it is about something else"""
    c = _strip(c)
    if c.get("k") == "Path" and c.get("res") == "mul" and isinstance(_SV[mul], bool):
        return _SV[mul]
    if c.get("k") == "Unary" and c.get("op") == "Not":
        t = _mul_test(c["a"], mul)
        return None if t is None else not t
    if c.get("k") == "Binary" and c["op"] in ("Eq", "Ne", "Lt", "Gt", "Le", "Ge"):
        a, b = _strip(c["a"]), _strip(c["b"])
        def val(x):
            if x.get("k") == "Path" and x.get("res") == "mul":
                return _SV[mul]
            if x.get("k") == "Unary" and x.get("op") == "Neg":
                v = val(_strip(x["a"]))
                return None if v is None else -v
            lv = lit_value(x)
            return lv if isinstance(lv, (int, bool)) else None
        x, y = val(a), val(b)
        if x is None or y is None or isinstance(x, bool) != isinstance(y, bool):
            return None
        return {"Eq": x == y, "Ne": x != y, "Lt": x < y, "Gt": x > y, "Le": x <= y, "Ge": x >= y}[c["op"]]
    return None


def _sign_var(f):
    """the local that carries the sign: bound by `let (s, <name>) = if let Some(..) = s.strip_prefix('-') { (.., -1) } else { (.., 1) }`
    (or the `match` form, or a flag `true` / `false` instead of the factor)"""
    r = _sign_info(f)
    return r[0] if r else None


def _sign_info(f):
    """(name of the sign local, {-1: what it holds after a `-`, 1: what it holds otherwise})"""
    for st in walk(f["hir"]["value"], pats=False):
        if st.get("k") == "Let" and st["pat"].get("k") == "PTuple" and st.get("init") and any(m.get("k") == "MethodCall" and m["name"] == "strip_prefix" for m in walk(st["init"], pats=False)):
            names = [b["name"] for b in walk(st["pat"]) if b.get("k") == "PBinding"]
            if len(names) != 2:
                continue
            stripped = {b["name"] for p_ in walk(st["init"]) if p_.get("k") == "PTupleStruct" and short(p_.get("res") or "") == "Some" for b in walk(p_) if b.get("k") == "PBinding"}
            vals = {}
            for t in walk(st["init"], pats=False):
                if t.get("k") == "Tup" and len(t["elems"]) == 2:
                    x = _strip(t["elems"][1])
                    lv = lit_value(x)
                    if x.get("k") == "Unary" and x.get("op") == "Neg" and isinstance(lit_value(_strip(x["a"])), int):
                        lv = -lit_value(_strip(x["a"]))
                    if not isinstance(lv, (int, bool)):
                        continue
                    first = _strip(t["elems"][0])
                    side = -1 if (first.get("k") == "Path" and first.get("res") in stripped) else 1
                    vals[side] = lv
            if set(vals) == {1, -1} and vals[1] != vals[-1] and (isinstance(vals[1], bool) or (vals[1], vals[-1]) == (1, -1)):
                return names[1], vals
    return None


def number_matches(F):
    """the `match <parse of the digits> { Ok(i) if <sign test> => .. }` of each notation, in Imm::from_str and in the private helpers of Imm it
    calls: [(notation, parse type, match node, name of the sign variable in that function)]"""
    import re
    from .p_c13 import radix_sites
    from .p_c06 import _imm_fns
    p = F.method(IMM, "from_str", trait="FromStr")
    f = F.fn(p)
    sv = _sign_var(f)
    sites = radix_sites(F)[1]
    out = []
    fns = [(f, sv)]
    for q in sorted(_imm_fns(F)):
        if q == p or not q.startswith(IMM + "::") or "hir" not in F.fns[q]:
            continue
        # the helper's name for the sign: the parameter that receives the caller's sign variable
        h = F.fn(q)
        pn = [p_.get("name") for p_ in h["hir"]["params"]]
        hsv = None
        for c in walk(f["hir"]["value"], pats=False):
            if c.get("k") == "Call" and callee_of(c) == q:
                for i_, a_ in enumerate(c["args"]):
                    a2 = _strip(a_)
                    if a2.get("k") == "Path" and a2.get("res") == sv and i_ < len(pn):
                        hsv = pn[i_]
        fns.append((h, hsv))
    for g, gsv in fns:
        for n in walk(g["hir"]["value"], pats=False):
            if n.get("k") != "Match":
                continue
            sc = _strip(n["scrut"])
            if sc.get("k") == "Call" and short(callee_of(sc) or "") == "from_str_radix":
                alts = next((a for c_, a, _ in sites if c_ is sc), None)
                radixes = [r for _, r in alts] if alts else [lit_value(sc["args"][1])]
                m = re.search(r"<impl (\w+)>::from_str_radix", callee_of(sc) or "")
                for radix in radixes:
                    out.append(({16: "hex", 2: "binary", 10: "decimal", 8: "octal"}.get(radix, f"radix{radix}"), m.group(1) if m else None, n, gsv))
            elif sc.get("k") == "MethodCall" and sc["name"] == "parse":
                out.append(("decimal", (sc.get("gargs") or [None])[-1], n, gsv))
    return f, out


WANT = {1: (0, 2 ** 32 - 1), -1: (0, 2 ** 31)}


@rule("C13", "C13.h.notations-accept-the-same-range", floor=6)
@rule("C17", "C17.g.notations-accept-the-same-range", floor=6)
def c17g(F, R):
    """a 32-bit value may be written in any notation: after the optional sign, hexadecimal, binary and decimal magnitudes are accepted on the same range - 0..=0xFFFFFFFF without a sign (read as the two's-complement word), 0..=0x80000000 after `-` - and yield sign x magnitude as a 32-bit value; `0xFFFFFFFF` accepted and `4294967295` rejected is the same value read differently"""
    f, ms = number_matches(F)
    si = _sign_info(f)
    if si is None:
        R.bad("sign", "UNEXTRACTABLE: no `let (s, sign) = if let Some(..) = s.strip_prefix('-') ..` in Imm::from_str", f["sp"])
        return
    _SV.clear()
    _SV.update(si[1])
    seen = set()
    for nota, pty, m, sv in ms:
        seen.add(nota)
        if sv is None:
            R.bad(f"{nota}|sign", f"UNEXTRACTABLE: the {nota} branch is read in a helper that does not receive the sign", loc(m))
            continue
        rng = ty_range(pty)
        if not rng:
            R.bad(f"{nota}|parse-type", f"UNEXTRACTABLE: {nota} magnitude parsed as `{pty}`", loc(m))
            continue
        for mul in (1, -1):
            key = f"{nota}|{'unsigned' if mul == 1 else 'negated'}"
            try:
                arm = None
                for a in m["arms"]:
                    pv = [short(v) for k_, v in pat_variants(a["pat"]) if k_ == "path" and v]
                    if "Ok" not in pv:
                        continue
                    g = a.get("guard")
                    if g is not None:
                        g2 = _rename(g, sv)
                        t = _mul_test(g2, mul)
                        if t is None:
                            raise Unx("guard on something other than the sign")
                        if not t:
                            continue
                    arm = a
                    break
                if arm is None:
                    raise Unx("no Ok arm")
                bs = [b["name"] for b in walk(arm["pat"]) if b.get("k") == "PBinding"]
                if len(bs) != 1:
                    raise Unx("Ok pattern")
                env = {bs[0]: V(1, pty, max(0, rng[0]), rng[1]), sv: V(0, "i32", 0, 1 << 70, mul)}
                v = ev(_rename(arm["body"], sv), {bs[0]: env[bs[0]], "mul": env[sv]}, mul)
            except Unx as ex:
                R.bad(key + "|unextractable", f"UNEXTRACTABLE: {nota} arm for sign {mul:+d}: {ex}", loc(m))
                continue
            want = WANT[mul]
            if v == NEVER or v.lo > v.hi:
                R.bad(key, f"{nota} literals {'after `-`' if mul < 0 else 'without a sign'} are never accepted", loc(m))
            elif ty_bits(v.ty) != 32:
                R.bad(key, f"{nota} literals end as `{v.ty}`, not a 32-bit value", loc(m))
            elif v.sign != mul:
                R.bad(key, f"{nota} literal {'after `-`' if mul < 0 else 'without a sign'} yields {v.sign:+d} x magnitude", loc(m))
            elif (v.lo, v.hi) != want:
                R.bad(key, f"{nota} magnitudes {'after `-`' if mul < 0 else 'without a sign'} are accepted on {v.lo}..={v.hi}, the 32-bit range is {want[0]}..={want[1]}: "
                      + ("a value that hexadecimal spells `0xFFFFFFFF` is rejected when written `4294967295` (the same word in another notation is read differently)" if v.hi < want[1] else "a literal that does not fit in 32 bits is accepted"), loc(m))
            else:
                R.ok(key, detail=f"{nota} {'-' if mul < 0 else ''}m accepted for m in {v.lo}..={v.hi} as {v.ty}", where=loc(m))
    for need in ("hex", "binary", "decimal"):
        if need not in seen:
            R.bad(f"{need}|missing", f"no {need} branch found in Imm::from_str", f["sp"])


def _rename(e, sv):
    """view of e in which the sign local is called `mul` (the evaluator's name for it)"""
    if sv == "mul":
        return e
    import copy
    e2 = copy.deepcopy(e)
    for n in walk(e2, pats=False):
        if n.get("k") == "Path" and n.get("res_kind") == "Local" and n.get("res") == sv:
            n["res"] = "mul"
    return e2


@rule("C17", "C17.i.lui-operand-fits-the-shift", floor=1)
def c17i(F, R):
    """`lui`/`auipc` place their operand in the upper 20 bits by shifting it left by 12: before the shift the operand is tested against a range of at most 20 bits and rejected otherwise - an unchecked shift silently drops the high bits (`lui a0, 0x100000` would be read as 0)"""
    p = [q for q in F.fns if q.endswith("for riscv_analysis::parser::node::ParserNode>::try_from") and "Peekable" in q]
    if not p:
        raise Anchor("decoder ParserNode::try_from not found")
    f = F.fn(p[0])
    from .p_parse import parent_map
    body = f["hir"]["value"]
    pm = parent_map(body)
    shifts = [b for b in walk(body, pats=False) if (b.get("k") == "Binary" and b["op"] == "Shl" and isinstance(lit_value(b["b"]), int))
              or (b.get("k") == "MethodCall" and b["name"] in ("wrapping_shl", "checked_shl", "overflowing_shl", "unbounded_shl") and b["args"] and isinstance(lit_value(b["args"][0]), int))]
    if not shifts:
        R.bad("shift", "UNEXTRACTABLE: no shift by a constant in the decoder (the lui/auipc operand)", f["sp"])
        return
    for n_, sh in enumerate(shifts):
        amount = lit_value(sh["b"]) if sh.get("k") == "Binary" else lit_value(sh["args"][0])
        operand = ekey(sh["a"] if sh.get("k") == "Binary" else sh["recv"])
        bits = 32 - amount
        # the enclosing block: an earlier statement must reject operands outside a range that fits `bits`
        blk = pm.get(id(sh))
        st = sh
        while blk is not None and blk.get("k") != "Block":
            st = blk
            blk = pm.get(id(blk))
        # climb to the statement of the block that contains the shift
        guard = None
        if blk is not None:
            idx = None
            for i, s_ in enumerate(blk.get("stmts", [])):
                if any(y is sh for y in walk(s_, pats=False)):
                    idx = i
            stmts = blk.get("stmts", [])[:idx] if idx is not None else blk.get("stmts", [])
            for s_ in stmts:
                e = peel(s_.get("e") or {})
                if e.get("k") != "If":
                    continue
                if not any(y.get("k") == "Ret" for y in walk(e["then"], pats=False)) or not any(c.get("k") == "Call" and short(callee_of(c) or "") == "Err" for c in walk(e["then"], pats=False)):
                    continue
                c = _strip(e["cond"])
                if c.get("k") == "Unary" and c.get("op") == "Not":
                    inner = _strip(c["a"])
                    if inner.get("k") == "MethodCall" and inner["name"] == "contains" and ekey(inner["args"][0]).lstrip("&*") == operand.lstrip("&*"):
                        r = _strip(inner["recv"])
                        lo = hi = None
                        if r.get("k") == "Call" and len(r["args"]) == 2 and (callee_of(r) or declared_callee(r) or "").endswith("::new"):
                            lo, hi = lit_value(r["args"][0]), lit_value(r["args"][1])
                        elif r.get("k") == "Struct":
                            fs = {x["name"]: lit_value(x["e"]) for x in r["fields"]}
                            lo, hi = fs.get("start"), (fs.get("end") - 1 if isinstance(fs.get("end"), int) else None)
                        if isinstance(lo, int) and isinstance(hi, int):
                            guard = (lo, hi, e)
        key = f"shift#{n_ + 1}|by-{amount}"
        if guard is None:
            R.bad(key, f"`{operand} << {amount}` is not preceded by a test that rejects operands outside {bits} bits: a wider literal is silently cut off (`lui a0, 0x100000` reads as 0, `lui a0, 0xFFFFFFFF` as -4096)", loc(sh))
        else:
            lo, hi, e = guard
            if lo >= -(1 << (bits - 1)) and hi <= (1 << bits) - 1:
                R.ok(key, detail=f"operand tested against {lo}..={hi} (fits {bits} bits) before the shift", where=loc(e))
            else:
                R.bad(key, f"the operand is tested against {lo}..={hi}, which does not fit the {bits} bits that survive `<< {amount}`", loc(e))
