"""C16 — every analysis failure is explained at a real place in the user's files."""
from .core import rule, exempt
from .facts import *
from .g1 import reachable_bodies, path_to
from .p_c08 import self_match, arm_table, ctor_names

CFGERR = "riscv_analysis::passes::cfg_error::CfgError"
GENERIC = ("UnexpectedError", "AssertionError")


def constructions(F, enum, within=None):
    """[(root fn, variant, node)] for every expression that builds a variant of `enum`."""
    out = []
    for p, f in sorted(F.fns.items()):
        if "hir" not in f or (within is not None and p.split("::{closure")[0] not in within and p not in within):
            continue
        if (f.get("exp") or "").startswith("Derive"):
            continue
        for n in walk(f["hir"]["value"], pats=False):
            if n.get("k") == "Path" and (n.get("res") or "").startswith(enum + "::") and (n.get("res_kind") or "").startswith("Ctor"):
                out.append((p, short(n["res"]), n))
    return out


@rule("C16", "C16.a.no-generic-error", floor=2)
def c16a(F, R):
    """no construction of CfgError::UnexpectedError / AssertionError in code reachable from gen_full_cfg"""
    roots = [p for p in F.fns if p.endswith("::Manager::gen_full_cfg")]
    if not roots:
        raise Anchor("Manager::gen_full_cfg not found")
    seen, parent = reachable_bodies(F, roots)
    cons = constructions(F, CFGERR)
    if not cons:
        raise Anchor("no CfgError construction found at all")
    for p, v, n in cons:
        root = p.split("::{closure")[0]
        reach = p in seen or root in seen
        key = f"{root}|CfgError::{v}"
        if v in GENERIC and reach:
            R.bad(key, f"`{root}` can return the generic `CfgError::{v}`: the user is told 'Unexpected error' with no file and no location", loc(n))
        else:
            R.ok(key + ("" if reach else "|unreachable"), detail=f"CfgError::{v} built in {short(root)}", where=loc(n), trivial=(not reach))


@rule("C16", "C16.b.no-unlocated-error", floor=6)
def c16b(F, R):
    """no DiagnosticLocation arm returns a nil file / empty range for a CfgError variant that is constructed on a reachable path"""
    roots = [p for p in F.fns if p.endswith("::Manager::gen_full_cfg")]
    seen, _ = reachable_bodies(F, roots)
    built = {v for p, v, n in constructions(F, CFGERR) if p in seen or p.split("::{closure")[0] in seen}
    for meth, bad_callee in (("file", "nil"), ("range", "default")):
        p = F.method(CFGERR, meth, trait="DiagnosticLocation")
        m = self_match(F, p, CFGERR)
        for v, arm in arm_table(m):
            if v == "_":
                R.bad(f"{meth}|wildcard", "wildcard arm in a location table", loc(arm))
                continue
            placeholder = any(n.get("k") == "Call" and short(callee_of(n) or "") == bad_callee for n in walk(arm["body"]))
            key = f"{meth}|{v}"
            if placeholder and v in built:
                R.bad(key, f"CfgError::{v} is constructed on a reachable path but its `{meth}` is the placeholder `{bad_callee}()`: the diagnostic points at no file (and default output hides it)", loc(arm))
            elif placeholder:
                R.ok(key + "|never-built", detail=f"{v}: placeholder location, but the variant is never constructed", trivial=True)
            else:
                R.ok(key, detail=f"CfgError::{v}.{meth}() comes from its payload")


@rule("C16", "C16.c.label-errors-carry-tokens", floor=2)
def c16c(F, R):
    """LabelsNotDefined is built only from a non-empty set of the offending label tokens, DuplicateLabel from the duplicated label's own token"""
    np_ = [q for q in F.fns if q.endswith("Cfg::new_with_predefined_call_names")]
    if not np_:
        raise Anchor("Cfg::new_with_predefined_call_names not found")
    f = F.fn(np_[0])
    # LabelsNotDefined(x) under `if !x.is_empty()`
    done = False
    for n in walk(f["hir"]["value"]):
        if n.get("k") == "If":
            built = [c for c in walk(n["then"]) if c.get("k") == "Call" and (callee_of(c) or "").endswith("CfgError::LabelsNotDefined")]
            if not built:
                continue
            done = True
            arg = ekey(built[0]["args"][0])
            c = peel(n["cond"])
            okk = c.get("k") == "Unary" and c["op"] == "Not" and peel(c["a"]).get("k") == "MethodCall" and peel(c["a"])["name"] == "is_empty" and ekey(peel(c["a"])["recv"]) == arg
            if okk:
                R.ok("labels-construction-guard", detail=f"LabelsNotDefined({arg}) only under `!{arg}.is_empty()`", where=loc(n))
            else:
                R.bad("labels-construction-guard", f"LabelsNotDefined({arg}) is not guarded by `!{arg}.is_empty()`: its location arms unwrap the first element", loc(n))
            # provenance of the set: derived from call/jump/load names minus label names
            lets = {s["pat"]["name"]: s for s in walk(f["hir"]["value"]) if s.get("k") == "Let" and s["pat"].get("k") == "PBinding"}
            src = lets.get(arg)
            used_locals = {x["res"] for x in walk(src["init"]) if x.get("k") == "Path" and x.get("res_kind") == "Local"} if src else set()
            used = set()
            for l in used_locals:
                li = lets.get(l)
                if li is not None:
                    used |= {short(callee_of(c) or "") for c in walk(li["init"], pats=False) if c.get("k") in ("MethodCall", "Call")}
            if {"call_names", "jump_names", "load_names", "label_names"} <= used:
                R.ok("undefined-set-provenance", detail="undefined = (calls ∪ jumps ∪ loads) \\ labels, all LabelStringTokens of the using instructions")
            else:
                R.bad("undefined-set-provenance", f"the undefined-label set is built from {sorted(used)}", loc(src) if src else f["sp"])
    if not done:
        R.bad("labels-construction-guard|missing", "UNEXTRACTABLE: construction of LabelsNotDefined not found under an if", f["sp"])
    # DuplicateLabel(s.name) under `if !all_labels.insert(s.name.clone())`
    dd = False
    for n in walk(f["hir"]["value"]):
        if n.get("k") == "If":
            built = [c for c in walk(n["then"]) if c.get("k") == "Call" and (callee_of(c) or "").endswith("CfgError::DuplicateLabel")]
            if not built:
                continue
            dd = True
            arg = ekey(built[0]["args"][0])
            c = peel(n["cond"])
            # every label is tested: nothing in the label's arm lets a label skip the test
            from .p_parse import parent_map as _pmap
            from .facts import path_constraints
            _pm = _pmap(f["hir"]["value"])
            arm_body = None
            x_ = n
            while id(x_) in _pm:
                par_ = _pm[id(x_)]
                if par_.get("k") == "Match" and par_.get("src") in (None, "Normal"):
                    for a_ in par_["arms"]:
                        if (a_ is x_ or a_["body"] is x_ or any(y is x_ for y in walk(a_["body"], pats=False))) and any("ParserNode::Label" in (v or "") for k_, v in pat_variants(a_["pat"]) if k_ == "path"):
                            arm_body = a_["body"]
                    if arm_body is not None:
                        break
                x_ = par_
            if arm_body is not None:
                inside = {id(y) for y in walk(arm_body, pats=False)}
                skips = [(cnd, want) for cnd, want in path_constraints(_pm, n) if id(cnd) in inside or any(id(y) in inside for y in walk(cnd, pats=False))]
                if skips:
                    R.bad("duplicate-test-for-every-label", f"the duplicate test is only reached when `{ekey(skips[0][0])[:60]}` is {skips[0][1]}: a label for which it is not - one defined in `.data`, say - can be defined twice without a word, and every reference silently means the last definition", loc(skips[0][0]))
                else:
                    R.ok("duplicate-test-for-every-label", detail="every `ParserNode::Label` reaches the duplicate test", where=loc(n))
            def _core(x):
                """the label expression without `.clone()`, `.as_str()`, `&`"""
                x = peel(x)
                while x.get("k") in ("AddrOf",) or (x.get("k") == "MethodCall" and x["name"] in ("clone", "as_str", "to_string", "to_owned", "borrow", "as_ref") and not x["args"]):
                    x = peel(x.get("e") or x.get("recv"))
                return ekey(x)
            okk = c.get("k") == "Unary" and c["op"] == "Not" and peel(c["a"]).get("k") == "MethodCall" and peel(c["a"])["name"] == "insert" and _core(peel(c["a"])["args"][0]) == _core(built[0]["args"][0])
            if okk:
                R.ok("duplicate-label-token", detail=f"DuplicateLabel({arg}) exactly when inserting {arg} into the set of seen labels fails")
            elif c.get("k") == "MethodCall" and c["name"] in ("contains", "contains_key") and c["args"] and _core(c["args"][0]) == _core(built[0]["args"][0]):
                # `if seen.contains(x) { Err(Duplicate(x)) }`: every label must enter `seen` in the same arm, unconditionally
                S = ekey(c["recv"]).lstrip("&*")
                from .p_parse import parent_map
                pm = parent_map(f["hir"]["value"])
                blk = pm.get(id(n))
                while blk is not None and blk.get("k") != "Block":
                    blk = pm.get(id(blk))
                ins = []
                for st in (blk or {}).get("stmts", []):
                    e = peel(st.get("e") or {})
                    if e.get("k") == "MethodCall" and e["name"] == "insert" and ekey(e["recv"]).lstrip("&*") == S and any(_core(a_) == _core(built[0]["args"][0]) for a_ in e["args"]):
                        ins.append(e)
                if ins:
                    R.ok("duplicate-label-token", detail=f"DuplicateLabel({arg}) when {S} already holds the label; every label is inserted into {S} in the same arm")
                else:
                    R.bad("duplicate-label-token", f"the duplicate test asks `{S}`, which does not receive every label where it is defined (no unconditional `{S}.insert(<label>)` next to the test): a second definition that arrives before the first one has reached `{S}` - two data labels in one .data block, the same label twice before one instruction - is not reported", loc(n))
            else:
                R.bad("duplicate-label-token", "DuplicateLabel is not built from the label whose insertion failed", loc(n))
    if not dd:
        R.bad("duplicate-label-token|missing", "UNEXTRACTABLE: construction of DuplicateLabel not found", f["sp"])


@rule("C18", "C18.k.analysis-failures-reach-the-list", floor=1)
@rule("C16", "C16.e.analysis-failures-reach-the-list", floor=1)
def c16e(F, R):
    """when building the graph or running the lints fails, the error is converted and appended to the list that is printed - in the CLI's pipeline and in the library entry point alike: the `Err(e)` arm of the call pushes `DiagnosticItem::from(e)`; an arm that drops the error leaves the user with no lints and no explanation"""
    sites = []
    for q in ("rva::main",):
        if q in F.fns:
            sites.append((q, F.fns[q]))
    for q, g in F.fns.items():
        if q.endswith("RVParser::<T>::run") and "hir" in g:
            sites.append((q, g))
    n = 0
    for q, g in sites:
        for m in find_matches(g["hir"]["value"]):
            if m.get("src") in ("TryDesugar", "ForLoopDesugar"):
                continue
            names = [short(callee_of(c) or "") for c in walk(m["scrut"], pats=False) if c.get("k") in ("Call", "MethodCall")]
            lets = {}
            sc = peel(m["scrut"])
            if sc.get("k") == "Path" and sc.get("res_kind") == "Local":
                for st in walk(g["hir"]["value"], pats=False):
                    if st.get("k") == "Let" and st["pat"].get("k") == "PBinding" and st["pat"]["name"] == sc["res"] and st.get("init") is not None:
                        names += [short(callee_of(c) or "") for c in walk(st["init"], pats=False) if c.get("k") in ("Call", "MethodCall")]
            if not ({"gen_full_cfg", "run"} & set(names)) or not any("Manager" in (callee_of(c) or "") for c in walk(g["hir"]["value"], pats=False) if c.get("k") in ("Call", "MethodCall")):
                continue
            if not any(nm in ("gen_full_cfg",) or nm == "run" for nm in names):
                continue
            for a in m["arms"]:
                if not any(v and v.endswith("Result::Err") for k_, v in pat_variants(a["pat"]) if k_ == "path"):
                    continue
                n += 1
                bs = {b["name"] for b in walk(a["pat"]) if b.get("k") == "PBinding"}
                pushes = [p_ for p_ in walk(a["body"], pats=False) if p_.get("k") == "MethodCall" and p_["name"] == "push" and "DiagnosticItem" in (p_["recv"].get("ty", "") + p_["recv"].get("aty", "") + ekey(p_["args"][0]))]
                conv = [p_ for p_ in pushes if any(x.get("k") == "Path" and x.get("res") in bs for x in walk(p_["args"][0], pats=False))]
                key = f"{short(q.split('::{closure')[0]) if 'main' not in q else 'rva::main'}|Err"
                if conv:
                    R.ok(key, detail="Err(e) => diagnostics.push(DiagnosticItem::from(e))", where=loc(a))
                else:
                    R.bad(key, f"in `{q}` the `Err(..)` arm of the analysis call does not append the error to the diagnostics: a program that cannot be analysed (undefined label, duplicate label, function without return) produces no output at all", loc(a))
    if n < 2:
        R.bad("coverage", f"found {n} `Err` arm(s) of Manager::gen_full_cfg / Manager::run in the CLI and the library entry point; expected both", None)
