"""C06 (crash clause), C17, C01.d, C08 R4 totality, C19 serializer path: G1 panic-site analysis."""
import re
from collections import defaultdict
from .core import rule, exempt
from .facts import *
from .g1 import *
from .mirutil import fmt, Body

TRUSTED_DERIVES = re.compile(r"^Derive:(Args|Subcommand|Parser|ValueEnum)$")


def brief(v, depth=0):
    """short, line-free operand descriptor"""
    if not isinstance(v, tuple):
        return str(v)
    t = v[0]
    if t in ("param", "local"):
        return re.sub(r"^_\d+$", "_", v[2])
    if t == "const":
        return str(v[1])
    if t == "constv":
        return str(v[1])[:30]
    if t == "cast":
        return f"({brief(v[4], depth)} as {v[3]})"
    if t == "proj":
        fs = [p for p in v[2] if p not in ("*",)]
        return brief(v[1], depth) + "".join("." + p.split(":")[1] if p.startswith("as:") else "." + p for p in fs)
    if t == "ref":
        return brief(v[1], depth)
    if t == "call":
        nm = v[1].split("::")[-1]
        if depth >= 1:
            return nm + "(..)"
        return nm + "(" + ",".join(brief(a, depth + 1) for a in v[2][:2]) + ")"
    if t == "bin":
        if depth >= 2:
            return v[1].replace("WithOverflow", "") + "(..)"
        return v[1].replace("WithOverflow", "") + "(" + brief(v[3], depth + 1) + "," + brief(v[4], depth + 1) + ")"
    if t == "un":
        return v[1] + "(" + brief(v[2], depth + 1) + ")"
    return t


def site_key(s, B, seen):
    root = s["fn"].split("::{closure")[0]
    t = s["term"]
    if s["what"] == "assert":
        ops = ",".join(brief(B.trace(o)) for o in t["ops"])
        base = f"{root}|{s['kind']}|{ops}"
    else:
        args = ",".join(brief(B.trace(a)) for a in t["args"][:2])
        base = f"{root}|call {s['kind'].split('::')[-1]}|{args}"
    seen[base] = seen.get(base, 0) + 1
    return base if seen[base] == 1 else f"{base}#{seen[base]}"


def run_g1(F, R, rule_id, select, roots=None):
    """Examine every panic site in bodies selected by `select(path)` among the reachable ones."""
    seen_b, parent = reachable_bodies(F, roots)
    D = Discharger(F)
    nsel = 0
    keys = {}
    for p in sorted(seen_b):
        if not select(p) or "mir" not in F.fns[p]:
            continue
        nsel += 1
        for s in sites_of(F, p):
            B = D.body(p)
            key = site_key(s, B, keys)
            exp = s.get("exp") or F.fns[p].get("exp") or ""
            if s["what"] == "call" and re.search(r"RefCell::<T>::(borrow|borrow_mut)$", s["kind"]):
                continue  # decided by the RefCell guard-liveness rule
            R.oblig(False)
            if TRUSTED_DERIVES.match(exp):
                R.obligations -= 1
                R.ok(key, trivial=True)
                continue
            d = D.discharge(s)
            if d:
                R.discharged += 1
                R.ok(key, detail=f"{d[0]}: {d[1]}", where=s["sp"])
                continue
            why = exempt(rule_id.split("@")[0], key) or exempt("G1", key)
            if why:
                R.discharged += 1
                R.ok(key, detail="E: " + why, where=s["sp"])
                continue
            chain = " <- ".join(short(x) for x in path_to(parent, p, 5))
            what = s["kind"] if s["what"] == "assert" else f"call to {s['kind']} ({s['why']})"
            R.bad(key, f"possible panic: {what} with operand types {s.get('op_tys', '')}; no discharge rule applies. Reached via {chain}", s["sp"])
    return nsel


@rule("C06", "G1.panic-sites", floor=60)
def c06_panics(F, R):
    """every arithmetic assert / panicking std call / explicit panic in code reachable from the lint entry points is discharged (D0-D5), exempted with a reason, or reported"""
    n = run_g1(F, R, "G1.panic-sites", lambda p: True)
    R.note(f"{n} reachable bodies examined; entry points: {[short(x) for x in entry_points(F)]}")


@rule("C06", "G1.recursion", floor=1)
def c06_recursion(F, R):
    """no cycle in the workspace call graph reachable from the entry points (stack depth would be input-bounded)"""
    seen_b, parent = reachable_bodies(F)
    cg = F.callgraph()
    nodes = sorted(p for p in seen_b)
    idx = {}
    low = {}
    onst = set()
    st = []
    sccs = []
    counter = [0]
    import sys
    sys.setrecursionlimit(10000)

    def strong(v):
        idx[v] = low[v] = counter[0]
        counter[0] += 1
        st.append(v)
        onst.add(v)
        for w in cg.get(v, ()):
            if w not in seen_b or (v, w) in F._generic_edges:
                continue
            if w not in idx:
                strong(w)
                low[v] = min(low[v], low[w])
            elif w in onst:
                low[v] = min(low[v], idx[w])
        if low[v] == idx[v]:
            comp = []
            while True:
                w = st.pop()
                onst.discard(w)
                comp.append(w)
                if w == v:
                    break
            if len(comp) > 1 or (v in cg.get(v, ()) and (v, v) not in F._generic_edges):
                sccs.append(sorted(comp))
    for v in nodes:
        if v not in idx:
            strong(v)
    R.ok("callgraph", detail=f"{len(nodes)} reachable bodies, {sum(len(cg.get(v, ())) for v in nodes)} edges, {len(sccs)} cycles")
    for comp in sccs:
        roots = sorted({c.split("::{closure")[0] for c in comp})
        key = "cycle|" + "+".join(roots)
        why = exempt("G1.recursion", key)
        if why:
            R.ok(key, detail="E: " + why)
        else:
            R.bad(key, f"recursion through {roots}: stack depth grows with the input", F.fns[comp[0]]["sp"])


@rule("C06", "G1.refcell-guards", floor=20)
def c06_refcell(F, R):
    """no Ref/RefMut guard of a cell is live across a call that may mutably (or, for RefMut, at all) borrow the same cell"""
    from .refcell import CellAnalysis
    A = CellAnalysis(F)
    summ = A.summaries()
    seen_b, parent = reachable_bodies(F)
    nguards = 0
    for p in sorted(seen_b):
        if "mir" not in F.fns[p]:
            continue
        for gl, kind, cell, bb, t in A.guards_in(p):
            nguards += 1
            root = p.split("::{closure")[0]
            gname = f"{short(cell[0])}.{cell[1]}"
            conflicts = []
            for b, ct in A.live_calls(p, gl, bb):
                for q in F.call_sites(p):
                    pass
                targets = [tg for (bi, tt, tgs) in F.call_sites(p) if bi == b for tg in tgs]
                for q in targets:
                    if q not in summ or (p, q) in F._generic_edges:
                        continue
                    B = A.body(p)
                    muts = {A.subst(c, B, ct) for c in summ[q]["mut"]}
                    reads = {A.subst(c, B, ct) for c in summ[q]["read"]}
                    bad = (cell in muts or ("?", "?") in muts or (cell == ("?", "?") and muts)) or \
                          (kind == "mut" and (cell in reads or ("?", "?") in reads))
                    if bad:
                        conflicts.append((q, ct))
            key = f"{root}|guard {kind} {gname}"
            if not conflicts:
                R.ok(f"{key}|{nguards}", detail=f"{kind} guard of {gname}: no conflicting borrow while live", where=t["sp"])
            else:
                seenq = set()
                for q, ct in conflicts:
                    if q in seenq:
                        continue
                    seenq.add(q)
                    k2 = f"{key}|across {short(q.split('::{closure')[0])}"
                    why = exempt("G1.refcell-guards", k2)
                    if why:
                        R.ok(k2, detail="E: " + why)
                    else:
                        R.bad(k2, f"a `{kind}` guard of `{gname}` is live across the call to `{q}`, which may borrow the same cell "
                              f"{'mutably' if kind == 'read' else ''}: BorrowMutError/BorrowError panic if both act on the same object", ct["sp"])
    R.note(f"{nguards} guards examined")


# ---------------------------------------------------------------------------- restricted views
def _imm_fns(F):
    P = "riscv_analysis::parser::"
    out = set()
    for ty in (P + "imm::Imm", P + "imm::CsrImm"):
        out.add(F.method(ty, "from_str", trait="FromStr"))
        out.add(F.method(ty, "try_from", trait_ref=r"TryFrom<riscv_analysis::parser::token::Token>"))
    # and the helpers of the literal module they call (a branch moved into `Imm::from_digits` is still literal parsing)
    work = list(out)
    while work:
        q = work.pop()
        g = F.fns.get(q)
        if not g or "hir" not in g:
            continue
        for c in walk(g["hir"]["value"], pats=False):
            if c.get("k") in ("Call", "MethodCall"):
                t = callee_of(c) or ""
                if t.startswith(P + "imm::") and t in F.fns and "hir" in F.fns[t] and t not in out and "{closure" not in t:
                    out.add(t)
                    work.append(t)
    return out


@rule("C17", "C17.literal-parsing-total", floor=2)
def c17_total(F, R):
    """literal parsing (Imm/CsrImm from_str, TryFrom<Token>, the lui shift) has no undischarged panic site"""
    fns = _imm_fns(F)
    tf = F.method("riscv_analysis::parser::node::ParserNode", "try_from", trait_ref=r"TryFrom<&mut core::iter::adapters::peekable::Peekable")
    sel = fns | {tf}
    n = run_g1(F, R, "G1.panic-sites", lambda p: p.split("::{closure")[0] in sel, roots=sorted(sel))
    if n < 5:
        R.bad("coverage", f"only {n} literal-parsing bodies were found")


@rule("C13", "C13.f.no-narrowing-casts-on-literals", floor=2)
@rule("C17", "C17.no-narrowing-casts", floor=2)
def c17_casts(F, R):
    """every integer cast applied while parsing a literal is same-width or widening (no silent truncation)"""
    n = 0
    for p in sorted(_imm_fns(F)):
        f = F.fns[p]
        for b in f["mir"]["blocks"]:
            for s in b["stmts"]:
                if s["k"] == "Assign" and s["rv"]["k"] == "Cast" and s["rv"]["cast"] == "IntToInt":
                    fr, to = s["rv"]["from"], s["rv"]["to"]
                    fb = 32 if fr == "char" else ty_bits(fr)
                    tb = ty_bits(to)
                    n += 1
                    key = f"{short(p.split('::{closure')[0])}|{p.split('>')[0].split(' for ')[-1].split('::')[-1] if ' for ' in p else ''}|{fr}->{to}|{n}"
                    if fb and tb and tb >= fb:
                        R.ok(key, detail=f"{fr} as {to} in {short(p)}", where=s.get("sp"))
                    else:
                        R.bad(f"{p}|{fr}->{to}", f"narrowing cast `{fr} as {to}` on a parsed literal: the value is silently truncated", s.get("sp"))
    if n < 3:
        R.bad("coverage", f"only {n} casts found in the literal parsers (expected >= 3)")


@rule("C01", "C01.d.offset-arithmetic-total", floor=1)
def c01d(F, R):
    """offset arithmetic in the value analysis and the stack lint is total (no trapping + on user immediates)"""
    def sel(p):
        sp = F.fns[p].get("sp", "")
        return "/analysis/available.rs" in sp or "/lints/stack.rs" in sp or "/analysis/gen_kill.rs" in sp
    n = run_g1(F, R, "G1.panic-sites", sel)
    R.ok("bodies", detail=f"{n} bodies of the value analysis / stack lint examined")


@rule("C08", "R4.folding-total", floor=8)
def c08_r4_total(F, R):
    """MathOp::operate is total: every arithmetic site is discharged (wrapping ops, guarded division, lossless widening)"""
    op = F.method("riscv_analysis::cfg::ops::MathOp", "operate")
    n = run_g1(F, R, "G1.panic-sites", lambda p: p.split("::{closure")[0] == op, roots=[op])
    # no trapping primitive op at all on the 32-bit operands
    f = F.fn(op)
    B = Body(f)
    for bi, b in enumerate(f["mir"]["blocks"]):
        t = b["term"]
        if t["k"] == "Assert" and t["kind"].startswith("Overflow(") and t["op_tys"][0] in ("i32", "u32"):
            R.bad(f"trap|{t['kind']}", f"32-bit {t['kind']} can trap on user-controlled operands", t["sp"])
    calls = [t.get("resolved") or t.get("callee") for _, t in B.calls()]
    need = ["wrapping_add", "wrapping_sub", "wrapping_mul", "wrapping_shl", "wrapping_shr"]
    for nm in need:
        if any(c and c.endswith("::" + nm) for c in calls):
            R.ok(f"wrap|{nm}")
        else:
            R.note(f"no call to {nm} (fine if the arm is implemented differently but totally)")


@rule("C08", "R4.operand-extension", floor=3)
def c08_r4_ext(F, R):
    """mulh / mulhsu / mulhu widen their operands with the signedness RV32M prescribes"""
    import json, os
    from .core import VERIF
    want = json.load(open(os.path.join(VERIF, "reference", "rv32im_formats.json")))["folding"]["extension"]
    MATHOP = "riscv_analysis::cfg::ops::MathOp"
    op = F.method(MATHOP, "operate")
    f = F.fn(op)
    B = Body(f)
    vidx = {v["name"]: v["idx"] for v in F.adt(MATHOP)["variants"]}
    sw = B.blocks[0]["term"]
    if sw["k"] != "SwitchInt":
        R.bad("shape", "UNEXTRACTABLE: MathOp::operate does not start with a switch on the operator", f["sp"])
        return
    tgt = {v: b for v, b in sw["targets"]}

    def ext(v):
        """'sign' | 'zero' | '?' for a 64-bit operand traced to a 32-bit parameter"""
        chain = []
        while True:
            if v[0] == "cast":
                chain.append((v[2], v[3]))
                v = v[4]
            elif v[0] == "call" and "convert::From" in v[1] and v[2]:
                m = re.search(r"From<(\w+)> for (\w+)>|<(\w+) as core::convert::From<(\w+)>>", v[1])
                if m:
                    a, b = (m.group(1), m.group(2)) if m.group(1) else (m.group(4), m.group(3))
                    chain.append((a, b))
                v = v[2][0]
            elif v[0] == "proj" and v[1][0] == "agg":
                return "?", None
            else:
                break
        if v[0] != "param":
            return "?", None
        # chain is outermost-first; the widening step decides
        for a, b in reversed(chain):
            if ty_bits(b) and ty_bits(a) and ty_bits(b) > ty_bits(a):
                return ("zero" if a.startswith("u") else "sign"), v[2]
        return "?", v[2]
    for name, (wx, wy) in sorted(want.items()):
        start = tgt.get(vidx[name])
        if start is None:
            R.bad(f"{name}|arm", f"no arm for MathOp::{name}", f["sp"])
            continue
        region = B.reachable_from(start)
        muls = []
        for b in region:
            for s in B.blocks[b]["stmts"]:
                if s["k"] == "Assign" and s["rv"]["k"] == "BinaryOp" and s["rv"]["op"].startswith("Mul") and s["rv"]["aty"] in ("i64", "u64", "i128", "u128"):
                    muls.append(s)
        if len(muls) != 1:
            R.bad(f"{name}|mul", f"UNEXTRACTABLE: expected one 64-bit multiplication in the {name} arm, found {len(muls)}", f["sp"])
            continue
        a, b = B.trace(muls[0]["rv"]["a"]), B.trace(muls[0]["rv"]["b"])
        ea, eb = ext(a), ext(b)
        got = {ea[1]: ea[0], eb[1]: eb[0]}
        if got.get("x") == wx and got.get("y") == wy:
            R.ok(name, detail=f"{name}: x {wx}-extended, y {wy}-extended", where=muls[0].get("sp"))
        else:
            R.bad(name, f"{name} multiplies x {got.get('x')}-extended by y {got.get('y')}-extended; RV32M: x {wx}, y {wy}", muls[0].get("sp"))


@rule("C19", "C19.serializer-total", floor=1)
def c19_ser_total(F, R):
    """hand-written Serialize/Display impls on the dump path have no undischarged panic site"""
    sel = set()
    for i in F.impls:
        if (i.get("trait") or "").endswith(("ser::Serialize", "fmt::Display")) and i["self_ty"].startswith("riscv_analysis::"):
            for it in i["items"]:
                if it["path"] in F.fns and not (F.fns[it["path"]].get("exp") or "").startswith("Derive"):
                    sel.add(it["path"])
    sel |= {p for p in F.fns if "test_wrapper" in p and "hir" in F.fns[p] and not (F.fns[p].get("exp") or "").startswith("Derive")}
    n = run_g1(F, R, "G1.panic-sites", lambda p: p.split("::{closure")[0] in sel, roots=sorted(sel))
    R.ok("bodies", detail=f"{n} serializer / display bodies examined")


# ---------------------------------------------------------------------------- R4 operator semantics (C08) / C01.e
def _sem(v):
    """semantic descriptor of a traced result: (prim, view, [operand names]) | ('const', n) | ('var', name) | None"""
    if v is None:
        return None
    t = v[0]
    if t == "const":
        return ("const", v[1])
    if t == "param":
        return ("var", v[2])
    if t == "cast":
        fb, tb = ty_bits(v[2]), ty_bits(v[3])
        inner = _sem(v[4])
        if inner and inner[0] == "bin_shr32_mul" and tb == 32:
            return ("mulh", None, inner[1])
        if fb == tb or (inner and inner[0] in ("var",)):
            return inner if inner and inner[0] != "var" else ("var", inner[1]) if inner else None
        return inner
    if t == "call":
        c = v[1]
        m = re.search(r"<impl ([iu])(\d+)>::(wrapping|overflowing)_(add|sub|mul|shl|shr|div|rem)$", c)
        if m:
            view = "signed" if m.group(1) == "i" else "unsigned"
            ops = [_opname(a) for a in v[2]]
            return ({"add": "add", "sub": "sub", "mul": "mul", "shl": "shl", "shr": "shr", "div": "div", "rem": "rem"}[m.group(4)], view, ops)
        if "From<bool>" in c or re.search(r"From<\w+> for \w+>::from$", c):
            return _sem(v[2][0]) if v[2] else None
        if re.search(r"Option::<T>::(unwrap_or|map_or)$", c) and len(v[2]) >= 2:
            inner, fb = v[2][0], v[2][1]
            while inner[0] == "cast":
                inner = inner[4]
            mm = re.search(r"<impl ([iu])(\d+)>::checked_(div|rem)$", inner[1]) if inner[0] == "call" else None
            if mm:
                view = "signed" if mm.group(1) == "i" else "unsigned"
                return ("checked_" + mm.group(3), view, [_opname(a) for a in inner[2]], _sem(fb))
        return None
    if t == "bin":
        op = v[1].replace("WithOverflow", "").replace("Unchecked", "")
        view = "signed" if (v[2] or "").startswith("i") else "unsigned"
        ops = [_opname(v[3]), _opname(v[4])]
        if op == "Shr" and v[4][0] == "const" and v[4][1] == 32 and strip_casts(v[3])[0] in ("bin", "proj"):
            inner = strip_casts(v[3])
            if inner[0] == "proj":
                inner = inner[1]
            if inner[0] == "bin" and inner[1].startswith("Mul"):
                return ("bin_shr32_mul", [_opname(inner[3]), _opname(inner[4])])
        return ({"Add": "add", "Sub": "sub", "Mul": "mul", "BitAnd": "bitand", "BitOr": "bitor", "BitXor": "bitxor", "Shl": "shl", "Shr": "shr",
                 "Lt": "lt", "Div": "div", "Rem": "rem"}.get(op, op.lower()), view, ops)
    if t == "proj":
        return _sem(v[1])
    return None


def _opname(v):
    """name of the 32-bit parameter an operand is derived from through casts / lossless conversions"""
    while True:
        if v[0] == "cast":
            v = v[4]
        elif v[0] == "call" and "convert::From" in v[1] and v[2]:
            v = v[2][0]
        elif v[0] == "proj":
            v = v[1]
        else:
            break
    if v[0] == "param":
        return v[2]
    if v[0] == "const":
        return v[1]
    return "?"


@rule("C08", "R4.operator-semantics", floor=18)
def c08_r4_sem(F, R):
    """each folding arm applies the RV32IM primitive of its operator, on the right operand view and order, and returns the architected value for a zero divisor"""
    import json, os
    from .core import VERIF
    ref = json.load(open(os.path.join(VERIF, "reference", "rv32im_formats.json")))["folding"]["semantics"]
    MATHOP = "riscv_analysis::cfg::ops::MathOp"
    f = F.fn(F.method(MATHOP, "operate"))
    B = Body(f)
    vidx = {v["name"]: v["idx"] for v in F.adt(MATHOP)["variants"]}
    sw = B.blocks[0]["term"]
    if sw["k"] != "SwitchInt":
        R.bad("shape", "UNEXTRACTABLE: MathOp::operate does not start with a switch on the operator", f["sp"])
        return
    tgt = {v: b for v, b in sw["targets"]}
    starts = set(tgt.values())
    for name, spec in sorted(ref.items()):
        if name.startswith("_"):
            continue
        start = tgt.get(vidx.get(name))
        if start is None:
            R.bad(f"{name}|arm", f"no arm for MathOp::{name}", f["sp"])
            continue
        # region of this arm: blocks reachable from its start (arms only meet at the common exit)
        region = B.reachable_from(start)
        results = []
        for b in sorted(region):
            blk = B.blocks[b]
            for s in blk["stmts"]:
                if s["k"] == "Assign" and s["place"]["l"] == 0 and not s["place"]["p"]:
                    rv = s["rv"]
                    if rv["k"] == "Use":
                        v = B.trace(rv["op"])
                    elif rv["k"] == "BinaryOp":
                        v = ("bin", rv["op"], rv["aty"], B.trace(rv["a"]), B.trace(rv["b"]))
                    elif rv["k"] == "Cast":
                        v = ("cast", rv["cast"], rv["from"], rv["to"], B.trace(rv["op"]))
                    else:
                        v = ("rv", rv["k"])
                    results.append((b, v))
            t = blk["term"]
            if t["k"] == "Call" and t["dest"]["l"] == 0 and not t["dest"]["p"]:
                results.append((b, ("call", t.get("resolved") or t.get("callee"), tuple(B.trace(a) for a in t["args"]))))
        sems = [(b, _sem(v)) for b, v in results]
        main = [s for b, s in sems if s and s[0] not in ("const", "var")]
        zero = [s for b, s in sems if s and s[0] in ("const", "var")]
        overflow_fallback = None
        if len(main) == 1 and main[0][0].startswith("checked_"):
            # `checked_div(y).unwrap_or(f)`: None covers y == 0 and, for the signed view, MIN / -1 as well
            ck = main[0]
            main = [(ck[0][len("checked_"):], ck[1], ck[2])]
            explicit_zero = list(zero)
            if explicit_zero:
                # the zero divisor has its own arm; `None` is then left for MIN / -1 alone
                if ck[1] == "signed":
                    want_fb = {"checked_div": ("var", "x"), "checked_rem": ("const", 0)}.get(ck[0])
                    if ck[3] != want_fb:
                        overflow_fallback = ck[3]
            else:
                zero = [ck[3]] if ck[3] else []
                if ck[1] == "signed":
                    overflow_fallback = ck[3]
        if len(main) != 1:
            R.bad(f"{name}", f"UNEXTRACTABLE: {name} arm has {len(main)} computed results ({sems})", f["sp"])
            continue
        prim, view, ops = main[0]
        problems = []
        if prim != spec["prim"]:
            problems.append(f"applies `{prim}`, RV32IM {name} is `{spec['prim']}`")
        if "view" in spec and view != spec["view"] and prim == spec["prim"]:
            problems.append(f"operates on the {view} view, RV32IM {name} is {spec['view']}")
        if "order" in spec and prim == spec["prim"] and list(ops[:2]) != spec["order"]:
            problems.append(f"operand order {ops[:2]}, expected {spec['order']}")
        if spec.get("commutative") and prim == spec["prim"] and sorted(map(str, ops[:2])) != ["x", "y"]:
            problems.append(f"operands {ops[:2]}, expected x and y")
        if "zero_divisor" in spec:
            want = spec["zero_divisor"]
            got = [(z[1]) for z in zero]
            if got != [want]:
                problems.append(f"returns {got} for a zero divisor, the architected result is {want}")
        elif zero:
            problems.append(f"has constant results {zero} besides the computed one")
        if overflow_fallback is not None:
            want_of = {"div": "the dividend (MIN)", "rem": 0}.get(prim)
            problems.append(f"uses a checked signed {prim} whose fallback {overflow_fallback[1]!r} is also returned for MIN / -1, where RV32M gives {want_of}")
        if problems:
            R.bad(name, f"MathOp::{name}: " + "; ".join(problems), f["sp"])
        else:
            R.ok(name, detail=f"{name}: {prim}{'/' + view if 'view' in spec else ''}({', '.join(map(str, ops[:2]))})" + (f", zero divisor -> {spec['zero_divisor']}" if "zero_divisor" in spec else ""))


@rule("C17", "C17.c.no-wrapping-on-literals", floor=2)
def c17_nowrap(F, R):
    """the literal parsers never apply wrap-around arithmetic to a parsed magnitude (an out-of-range literal must be rejected, not wrapped to another number)"""
    n = 0
    for p in sorted(_imm_fns(F)):
        f = F.fns[p]
        B = Body(f)
        n += 1
        hits = [(bi, t) for bi, t in B.calls() if re.search(r"<impl (i|u)\d+>::(wrapping|overflowing)_(add|sub|mul|neg|shl|abs|pow)$", t.get("resolved") or t.get("callee") or "")]
        name = ("CsrImm" if "CsrImm" in p else "Imm") + "::" + short(p)
        if not hits:
            R.ok(f"{name}", detail=f"{name}: no wrapping arithmetic")
        for bi, t in hits:
            c = (t.get("resolved") or t.get("callee")).split("::")[-1]
            R.bad(f"{name}|{c}", f"{name} applies `{c}` to a parsed literal: a magnitude that does not fit (e.g. -0x80000001) is silently wrapped to a different number instead of being rejected", t["sp"])
    if n < 2:
        R.bad("coverage", "literal parsers not found")


@rule("C17", "C17.d.decimal-magnitude-width", floor=1)
def c17_decwidth(F, R):
    """the decimal branch parses the magnitude in a type that can hold 2^31, so that -2147483648 (the most negative 32-bit value) is representable"""
    p = F.method("riscv_analysis::parser::imm::Imm", "from_str", trait="FromStr")
    f = F.fn(p)
    decs = [m for m in walk(f["hir"]["value"], pats=False) if m.get("k") == "MethodCall" and m["name"] == "parse"]
    if len(decs) != 1:
        R.bad("shape", f"UNEXTRACTABLE: expected one decimal `parse`, found {len(decs)}", f["sp"])
        return
    t = (decs[0].get("gargs") or ["?"])[-1]
    tr = ty_range(t)
    # the sign was stripped before (strip_prefix('-')): the parsed magnitude is >= 0
    if tr and tr[1] >= 2 ** 31:
        R.ok("decimal", detail=f"decimal magnitude parsed as {t}")
    else:
        R.bad("decimal", f"the decimal magnitude is parsed as `{t}` (max {tr[1] if tr else '?'}) after the sign was stripped: 2147483648 does not fit, so `-2147483648` is rejected although it is a 32-bit value", loc(decs[0]))


ONE_SHOT = {"strip_prefix", "starts_with"}
MULTI = {"trim_start_matches", "trim_left_matches", "trim_matches", "trim_end_matches", "trim_right_matches", "replace", "replacen",
         "split", "rsplit", "splitn", "rsplitn", "split_terminator", "matches", "rmatches", "contains", "find", "rfind", "strip_suffix", "ends_with",
         "split_once", "rsplit_once", "match_indices"}


@rule("C17", "C17.e.one-sign-only", floor=3)
def c17_sign(F, R):
    """the optional minus sign is removed by a one-shot operation, and a parser that itself accepts a sign (signed parse / from_str_radix) only sees text already tested not to start with '-': `--5` / `0x-1` are malformed, not numbers"""
    from .p_parse import parent_map
    n_ops = 0
    for p in sorted(_imm_fns(F)):
        f = F.fns[p]
        if "hir" not in f:
            continue
        name = ("CsrImm" if "CsrImm" in p else "Imm") + "::" + short(p.split("::{closure")[0])
        body = f["hir"]["value"]
        pm = parent_map(body)
        for m in walk(body, pats=False):
            if m.get("k") != "MethodCall" or not m["args"]:
                continue
            if not (declared_callee(m) or callee_of(m) or "").startswith("core::str::<impl str>::") and "<impl str>" not in (callee_of(m) or ""):
                continue
            a = lit_value(m["args"][0])
            if not (isinstance(a, str) and "-" in a):
                continue
            n_ops += 1
            key = f"{name}|{m['name']}({a!r})"
            if m["name"] in ONE_SHOT:
                R.ok(key, detail=f"{name}: `{m['name']}({a!r})` tests/removes at most one sign", where=loc(m))
            elif m["name"] in MULTI:
                R.bad(key, f"{name}: `{m['name']}({a!r})` acts on every '-' it finds, not on one optional sign: `--5` or `---0x10` are read as numbers instead of being rejected", loc(m))
            else:
                R.bad(key, f"UNCLASSIFIED: {name}: `{m['name']}({a!r})` is not a known one-shot sign operation", loc(m))
        # sign-accepting parsers
        for m in walk(body, pats=False):
            target = None
            if m.get("k") == "MethodCall" and m["name"] == "parse":
                t = (m.get("gargs") or ["?"])[-1]
                if re.fullmatch(r"i\d+|isize|f32|f64", t) or True:
                    target, X = t, ekey(m["recv"])
            elif m.get("k") == "Call" and short(callee_of(m) or "") == "from_str_radix":
                mm = re.search(r"<impl (\w+)>::from_str_radix", callee_of(m))
                t = mm.group(1) if mm else "?"
                if not t.startswith("u"):
                    target, X = t, ekey(m["args"][0])
            if target is None:
                continue
            key = f"{name}|guard|{short(callee_of(m) or m.get('name'))}::<{target}>"
            guarded = False
            x = m
            while id(x) in pm and not guarded:
                par = pm[id(x)]
                if par.get("k") == "If" and par.get("else") is x and _neg_guard(par, X):
                    guarded = True
                if par.get("k") == "Block":
                    for st in par.get("stmts") or []:
                        e = st.get("e") or st.get("init") if isinstance(st, dict) else None
                        if st is x or (isinstance(st, dict) and (st.get("e") is x or st.get("init") is x)):
                            break
                        if isinstance(st, dict) and st.get("k") == "Let" and any(b.get("name") == X for b in walk(st["pat"]) if b.get("k") == "PBinding"):
                            guarded = False
                        g = peel(st.get("e")) if isinstance(st, dict) and st.get("e") else None
                        if g and g.get("k") == "If" and _neg_guard(g, X, must_return=True):
                            guarded = True
                x = par
            if guarded:
                R.ok(key, detail=f"{name}: `{X}` reaches the sign-accepting parser {target} only after `{X}.starts_with('-')` was rejected", where=loc(m))
            else:
                R.bad(key, f"{name}: the text `{X}` handed to the {target} parser (which accepts its own leading '-') is not first tested for a residual '-': `--5` parses as a number", loc(m))
    if n_ops < 3:
        R.bad("coverage", f"only {n_ops} sign operations found in the literal parsers")


def _neg_guard(iff, X, must_return=False):
    c = iff["cond"]
    while c.get("k") in ("DropTemps", "Use"):
        c = c["e"]
    c = peel(c)
    if not (c.get("k") == "MethodCall" and c["name"] == "starts_with" and ekey(c["recv"]) == X and c["args"] and lit_value(c["args"][0]) == "-"):
        return False
    t = iff["then"]
    errs = [n for n in walk(t, pats=False) if n.get("k") == "Call" and short(callee_of(n) or "") == "Err"]
    oks = [n for n in walk(t, pats=False) if n.get("k") == "Call" and short(callee_of(n) or "") == "Ok"]
    rets = [n for n in walk(t, pats=False) if n.get("k") == "Ret"]
    return bool(errs) and not oks and (bool(rets) or not must_return)


@rule("C17", "C17.f.labels-never-look-like-numbers", floor=10)
def c17_labels(F, R):
    """an operand that is not a valid number must not be accepted as a label instead (load/store operands try the immediate first, then the label): `LabelString::from_str` rejects every text that starts with a digit, so `lw t0, 4294967296` or `0xfg` stay parse errors on the literal"""
    from .p_c14 import _char_pred
    p = F.method("riscv_analysis::parser::label::LabelString", "from_str", trait="FromStr")
    f = F.fn(p)
    body = f["hir"]["value"]
    # `let first = s.chars().next()..;  if <cond(first)> { return Err(()) }`
    first = None
    for st in walk(body, pats=False):
        if st.get("k") == "Let" and st["pat"].get("k") == "PBinding" and st.get("init") and any(m.get("k") == "MethodCall" and m["name"] == "chars" for m in walk(st["init"], pats=False)) \
                and any(m.get("k") == "MethodCall" and m["name"] == "next" for m in walk(st["init"], pats=False)):
            first = st["pat"]["name"]
    if first is None:
        R.bad("first-char", "UNEXTRACTABLE: LabelString::from_str no longer looks at the first character", f["sp"])
        return
    guard = None
    for n in walk(body, pats=False):
        if n.get("k") == "If" and any(x.get("k") == "Path" and x.get("res") == first for x in walk(n["cond"], pats=False)) and \
                any(c.get("k") == "Call" and short(callee_of(c) or "") == "Err" for c in walk(n["then"], pats=False)):
            guard = n
    if guard is None:
        R.bad("first-char", "UNEXTRACTABLE: no `if <test of the first character> { return Err }` in LabelString::from_str", f["sp"])
        return
    for d in "0123456789":
        v = _char_pred(guard["cond"], first, d, F)
        if v is True:
            R.ok(f"first-char|{d}", detail=f"a text starting with {d!r} is rejected as a label")
        elif v is False:
            R.bad("first-char|digit", f"LabelString::from_str accepts a name that starts with the digit {d!r}: a numeric literal that Imm::from_str refuses (`4294967296`, `0xfg`, `12ab`) is then taken for a label in `lw t0, <literal>` and the parse error on the literal disappears", loc(guard))
            break
        else:
            R.bad("first-char|unextractable", "UNEXTRACTABLE: cannot evaluate the first-character test of LabelString::from_str", loc(guard))
            break
