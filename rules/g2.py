"""G2 — hash-order flow analysis (DESIGN.md §3 G2)."""
import re
from .facts import *

HASH_TY = re.compile(r"(std::collections::hash::(set::HashSet|map::HashMap)|std::collections::(HashSet|HashMap)|hashbrown::)")
WRAP_TY = re.compile(r"riscv_analysis::cfg::available_value_map::AvailableValueMap")
ITER_METHODS = {"iter", "into_iter", "values", "keys", "drain", "iter_mut", "values_mut", "into_keys", "into_values",
                "union", "intersection", "difference", "symmetric_difference"}


def strip_ty(t):
    t = (t or "").strip()
    changed = True
    while changed:
        changed = False
        for pre in ("&mut ", "&"):
            if t.startswith(pre):
                t = t[len(pre):].strip()
                t = re.sub(r"^'\w+\s+", "", t)
                changed = True
        m = re.match(r"^(core::cell::Ref(Mut)?|alloc::rc::Rc|alloc::boxed::Box)<(?:'\w+,\s*)?(.*)>$", t)
        if m:
            t = m.group(3)
            # drop trailing allocator param of Rc/Box
            t = re.sub(r",\s*alloc::alloc::Global$", "", t)
            changed = True
    return t


def is_hash_ty(t):
    t = strip_ty(t)
    return bool(HASH_TY.match(t)) or bool(WRAP_TY.match(t))


def recv_ty(n):
    r = n["recv"]
    return r.get("aty") or r.get("ty") or ""


def derived_hash_fields(F, reach):
    """derive(Serialize) code that hands a std hash container straight to the serializer:
    [(fn path, field name, node)] for `serialize_field(_, "name", &self.field)` with a HashMap/HashSet typed field"""
    out = []
    for p, f in sorted(F.fns.items()):
        if "hir" not in f or not (f.get("exp") or "").startswith("Derive:Serialize") or p.split("::")[-1] != "serialize":
            continue
        for n in walk(f["hir"]["value"], pats=False):
            if n.get("k") == "Call" and short(callee_of(n) or declared_callee(n) or "") in ("serialize_field", "serialize_newtype_struct", "serialize_newtype_variant", "serialize_element") and n["args"]:
                a = n["args"][-1]
                t = strip_ty(a.get("ty") or "")
                if HASH_TY.match(t):
                    name = lit_value(n["args"][1]) if len(n["args"]) >= 3 else "?"
                    out.append((p, name, n))
    return out


def _base(t):
    return re.sub(r"<.*", "", strip_ty(t or ""))


def sources(F, reach, extra_fns=(), iter_types=()):
    """[(root fn, kind, node, parent map)]: every hash-ordered iteration in reachable bodies"""
    from .p_parse import parent_map
    out = []
    for p, f in sorted(F.fns.items()):
        if "hir" not in f or p not in reach:
            continue
        if (f.get("exp") or "").startswith("Derive"):
            continue
        pm = parent_map(f["hir"]["value"])
        loops = {id(lp["iter"]): lp for lp in for_loops(f["hir"]["value"])}
        loop_cores = set()
        for lp in loops.values():
            c = peel(lp["iter"])
            loop_cores.add(id(c))
            if c.get("k") == "Call" and short(callee_of(c) or "") == "into_iter" and c.get("args"):
                loop_cores.add(id(peel(c["args"][0])))
        for n in walk(f["hir"]["value"], pats=False):
            if n.get("k") == "MethodCall" and n["name"] in ITER_METHODS and (is_hash_ty(recv_ty(n)) or is_hash_ty(n["recv"].get("ty"))):
                out.append((p, "method", n, pm))
            elif n.get("k") == "MethodCall" and n["name"] == "serialize" and HASH_TY.match(strip_ty(recv_ty(n)) or strip_ty(n["recv"].get("ty"))):
                out.append((p, "serialize", n, pm))
            elif n.get("k") in ("MethodCall", "Call") and callee_of(n) in extra_fns:
                out.append((p, "wrapper", n, pm))
            elif n.get("k") in ("MethodCall", "Call") and _base(n.get("ty")) in iter_types and id(n) not in loop_cores and short(callee_of(n) or "") != "into_iter" \
                    and not (n.get("k") == "MethodCall" and _base(recv_ty(n) or n["recv"].get("ty")) in iter_types):
                # an expression that produces an iterator type whose `next` yields in hash order (`cfg.iter_nexts(x)`)
                # and is consumed by adapters instead of a `for` loop
                out.append((p, "wrapper", n, pm))
        for lp in loops.values():
            it = lp["iter"]
            t = it.get("aty") or it.get("ty") or ""
            core = peel(it)
            already = core.get("k") == "MethodCall" and core["name"] in ITER_METHODS and (is_hash_ty(recv_ty(core)) or is_hash_ty(core["recv"].get("ty")))
            already = already or (core.get("k") in ("MethodCall", "Call") and callee_of(core) in extra_fns)
            base = re.sub(r"<.*", "", strip_ty(t))
            if (is_hash_ty(t) or base in iter_types) and not already:
                out.append((p, "for", lp, pm))
    return out


ADAPTERS = {"unique", "unique_by", "dedup", "dedup_by", "dedup_by_key", "filter", "map", "cloned", "copied", "filter_map", "flat_map", "flatten", "inspect", "chain", "peekable", "by_ref",
            "into_iter", "iter", "clone", "borrow", "as_ref", "deref", "unwrap_or_default"}
POSITIONAL = {"enumerate", "take", "skip", "step_by", "zip", "rev", "nth", "last", "take_while", "skip_while", "first", "position",
              "find", "find_map", "min_by_key", "max_by_key", "min_by", "max_by", "next_back", "windows", "chunks", "fuse_first"}
SORTERS = {"sorted", "sorted_by", "sorted_by_key", "sorted_unstable", "sorted_unstable_by", "sorted_unstable_by_key", "sorted_by_cached_key"}
ORDER_FREE = {"any", "all", "count", "sum", "product", "min", "max", "contains", "is_empty", "len", "contains_key", "is_subset", "is_superset", "is_disjoint"}
SETLIKE = re.compile(r"^(std::collections::hash::(set::HashSet|map::HashMap)|std::collections::(HashSet|HashMap|BTreeMap|BTreeSet)|alloc::collections::btree::(map::BTreeMap|set::BTreeSet)|"
                     r"riscv_analysis::cfg::register_set::RegisterSet|riscv_analysis::cfg::available_value_map::AvailableValueMap)")
SEQLIKE = re.compile(r"^(alloc::vec::Vec|alloc::string::String|alloc::collections::vec_deque::VecDeque|alloc::vec::into_iter::IntoIter)")
COMMUTATIVE_OPS = {"BitAnd", "BitOr", "BitXor", "BitAndAssign", "BitOrAssign", "BitXorAssign", "Add", "AddAssign"}
DIAGMGR = "riscv_analysis::passes::diagnostic_manager::DiagnosticManager"


def commutative_closure(cl):
    """closure body is `acc OP x` / `{ acc OP= x; acc }` with OP commutative-associative"""
    body = peel(cl["body"])
    if body.get("k") == "Binary" and body["op"] in COMMUTATIVE_OPS:
        return body["op"]
    if body.get("k") == "Block":
        ops = [s["e"] for s in body.get("stmts", []) if s.get("k") in ("Semi", "Expr")]
        if len(ops) == 1:
            e = ops[0]
            while e.get("k") in ("DropTemps", "Use"):
                e = e["e"]
            if e.get("k") == "AssignOp" and e["op"] in COMMUTATIVE_OPS and body.get("expr") is not None:
                return e["op"]
    return None


def diag_kinds(body):
    """kinds of diagnostics pushed into a DiagnosticManager inside `body` (LintError variant or builder code)."""
    kinds = []
    for n in walk(body, pats=False):
        if n.get("k") == "MethodCall" and n["name"] in ("push", "push_real") and (callee_of(n) or "").startswith(DIAGMGR):
            k = None
            for a in walk(n["args"][0], pats=False):
                r = a.get("res") or ""
                if a.get("k") == "Path" and "lint_error::LintError::" in r and (a.get("res_kind") or "").startswith("Ctor"):
                    k = short(r)
                if a.get("k") == "Call" and (callee_of(a) or "").endswith("DiagnosticBuilder::new"):
                    k = lit_value(a["args"][0])
            kinds.append(k or "?")
    return kinds


RANK = {"SAFE": 0, "CANON": 1, "RETURNS": 2, "UNCLASSIFIED": 3, "CANON2": 4, "UNSAFE": 5}


def worst(vs):
    vs = [v for v in vs if v]
    if not vs:
        return ("SAFE", "no order-visible use", None)
    return max(vs, key=lambda v: RANK[v[0]])


def real_breaks(body):
    """user-written `break`s that leave *this* loop (not nested loops) and `return`s anywhere in the body;
    breaks produced by for / while-let desugaring are ignored"""
    out = []
    st = [(body, 0)]
    while st:
        n, nest = st.pop()
        k = n.get("k")
        if k == "Ret" and not (n.get("exp") or "").startswith("desugar:"):
            out.append(n)
        if k == "Break" and not (n.get("exp") or "").startswith("desugar:") and (nest == 0 or n.get("label")):
            out.append(n)
        for c in children(n, pats=False):
            st.append((c, nest + (1 if k == "Loop" else 0)))
    return out


class G2:
    def __init__(self, F):
        self.F = F
        self._pm = {}
        self.iter_types = set()      # workspace iterator types whose `next` yields in hash order
        self.ret_fns = {}            # fn path -> why its result is hash-ordered
        self._active = set()

    def pm(self, f):
        from .p_parse import parent_map
        if f["path"] not in self._pm:
            self._pm[f["path"]] = parent_map(f["hir"]["value"])
        return self._pm[f["path"]]

    # ---------------------------------------------------------------- loop bodies
    def loop_body(self, f, body, loopvar_names, depth=0):
        """verdict for the body of a loop whose iteration order is a hash order"""
        verdicts = []
        set_ops = 0
        for n in walk(body, pats=False):
            if n.get("k") == "MethodCall":
                rt = strip_ty(n["recv"].get("aty") or n["recv"].get("ty") or "")
                c = callee_of(n) or ""
                if n["name"] in ("push", "push_real") and c.startswith(DIAGMGR):
                    continue
                if n["name"] in ("push", "push_back", "push_front", "push_str", "extend", "append", "insert_str") and SEQLIKE.match(rt):
                    tgt = peel(n["recv"])
                    if tgt.get("k") == "Path" and tgt.get("res_kind") == "Local":
                        verdicts.append(self.seq_var(f, tgt["res"], n, depth + 1, why=f"`{tgt['res']}` is filled in hash order"))
                    else:
                        verdicts.append(("UNSAFE", f"appends to the sequence `{ekey(n['recv'])}` in hash order", n))
                elif n["name"] in ("insert", "remove", "extend", "retain") and SETLIKE.match(rt):
                    set_ops += 1
        kinds = diag_kinds(body)
        brk = real_breaks(body)
        # `outer = <something built from the loop variable>` keeps exactly one element (first- or last-wins)
        inner_lets = {s["pat"]["name"] for s in walk(body, pats=False) if s.get("k") == "Let" and s["pat"].get("k") == "PBinding"}
        for a in walk(body, pats=False):
            if a.get("k") == "Assign":
                tgt = peel(a["l"])
                if tgt.get("k") == "Path" and tgt.get("res_kind") == "Local" and tgt["res"] not in inner_lets and tgt["res"] not in loopvar_names \
                        and any(x.get("k") == "Path" and x.get("res") in loopvar_names for x in walk(a["r"], pats=False)):
                    verdicts.append(("UNSAFE", f"`{tgt['res']}` keeps one element of the hash-ordered iteration (whichever comes first/last)", a))
        if brk:
            if kinds or any(b.get("e") for b in brk) or verdicts:
                verdicts.append(("UNSAFE", "stops at the first element found (which one is first depends on the hash order)", brk[0]))
            else:
                assigns = [a for a in walk(body, pats=False) if a.get("k") == "Assign"]
                if any(any(x.get("k") == "Path" and x.get("res") in loopvar_names for x in walk(a["r"], pats=False)) for a in assigns):
                    verdicts.append(("UNSAFE", "records the first matching element and stops (selection by hash order)", brk[0]))
        if len(set(kinds)) >= 2 and self.sort_breaks_ties_by_title(set(kinds)):
            verdicts.append(("CANON", f"pushes {len(set(kinds))} kinds {sorted(set(map(str, kinds)))} whose titles differ; the later sort orders ties in (file, range) by title", None))
        elif len(set(kinds)) >= 2:
            verdicts.append(("CANON2", f"pushes {len(set(kinds))} kinds of diagnostics {sorted(set(map(str, kinds)))} from one hash-ordered loop: items that tie in (file, range) keep the hash order after the stable sort", None))
        elif len(set(kinds)) == 1:
            verdicts.append(("CANON", f"only pushes `{kinds[0]}` diagnostics, canonicalised by the later stable sort", None))
        if not verdicts:
            return ("SAFE", f"body only performs set/map updates, accumulations or existence tests ({set_ops} set ops)", None)
        return worst(verdicts)

    def sort_breaks_ties_by_title(self, kinds):
        """the order used to sort diagnostics compares the title after (file, range), and the given LintError kinds have pairwise
        different titles: two diagnostics on the same text then have an order that does not depend on discovery order"""
        from .p_c08 import self_match, arm_table, str_lits
        F = self.F
        if getattr(self, "_titles", None) is None:
            cmpf = [q for q in F.fns if q.endswith("diagnostics::DiagnosticItem as core::cmp::Ord>::cmp")]
            body = F.fn(cmpf[0])["hir"]["value"] if cmpf else {}
            flds = [n["name"] for n in walk(body, pats=False) if n.get("k") == "Field"]
            self._cmp_uses_title = "title" in flds and "range" in flds and "file" in flds
            LINTERR = "riscv_analysis::passes::lint_error::LintError"
            try:
                tm = self_match(F, F.method(LINTERR, "get_title", trait="IsSomeDisplayableDiagnostic"), LINTERR)
                self._titles = {v: (str_lits(arm["body"]) or [None])[0] for v, arm in arm_table(tm)}
            except Exception:
                self._titles = {}
        if not self._cmp_uses_title:
            return False
        ts = [self._titles.get(k) for k in kinds]
        return all(t for t in ts) and len(set(ts)) == len(ts)

    # ---------------------------------------------------------------- sequence variables
    def seq_var(self, f, name, after, depth=0, why=""):
        """A Vec / VecDeque / String holding elements in hash order, bound to local `name` of fn f."""
        if depth > 9:
            return ("UNCLASSIFIED", f"flow of `{name}` too deep", after)
        akey = (f["path"], name)
        if akey in self._active:
            return None          # already being analysed further up (worklist refilled inside its own loop)
        self._active.add(akey)
        try:
            return self._seq_var(f, name, after, depth, why)
        finally:
            self._active.discard(akey)

    def _seq_var(self, f, name, after, depth, why):
        pm = self.pm(f)
        verdicts = []
        uses = [n for n in walk(f["hir"]["value"], pats=False) if n.get("k") == "Path" and n.get("res_kind") == "Local" and n.get("res") == name]
        for u in uses:
            # find the method applied to the variable, if any
            x = u
            par = pm.get(id(x))
            while par is not None and par.get("k") in ("AddrOf", "DropTemps", "Use") or (par is not None and par.get("k") == "Unary" and par.get("op") == "Deref"):
                x = par
                par = pm.get(id(x))
            if par is not None and par.get("k") == "MethodCall" and par["recv"] is x:
                m = par["name"]
                if m in ("sort", "sort_by", "sort_by_key", "sort_unstable", "sort_unstable_by", "sort_unstable_by_key", "sort_by_cached_key"):
                    return ("SAFE", f"`{name}` is sorted before it is used", None)
                if m in ("len", "is_empty", "contains", "clear", "push", "push_back", "push_front", "extend", "append", "extend_from_slice", "insert", "reserve", "capacity"):
                    continue
                if m in ("pop", "pop_front", "pop_back"):
                    # worklist: `while let Some(v) = q.pop()` : the loop visits elements in hash-dependent order
                    lp = par
                    while lp is not None and not (lp.get("k") == "Loop"):
                        lp = pm.get(id(lp))
                    if lp is not None:
                        # `while let Some((node, state)) = q.pop()`: an item that carries more than the node, under a visited set
                        # keyed by the node alone, is processed with the state of whichever path arrives first - in a
                        # worklist refilled in hash order that is a hash-order decision
                        carried = self._worklist_item_state(pm, par, lp)
                        if carried:
                            verdicts.append(("UNSAFE", f"the worklist `{name}` is refilled in hash order and its items carry `{carried[1]}` besides the node, but a node is visited once (`{carried[0]}`): which path's `{carried[1]}` is used at a join depends on the hash order", par))
                        verdicts.append(self.loop_body(f, lp["body"], set(), depth + 1))
                    else:
                        verdicts.append(("UNSAFE", f"`{name}.{m}()` selects an element by position", par))
                    continue
                verdicts.append(self.chain(f, x, "seq", depth + 1))
                continue
            verdicts.append(self.chain(f, x, "seq", depth + 1))
        v = worst(verdicts)
        return (v[0], (why + "; " if why else "") + v[1], v[2] or after)

    def _keyed_by_map_key(self, call):
        """`<map>.iter()[.filter(..)].min_by_key(|(k, _)| **k)`: the ordering key is the key of the map being iterated"""
        cl = peel(call["args"][0])
        if cl.get("k") != "Closure" or len(cl.get("params", [])) != 1:
            return False
        tp = cl["params"][0]
        while tp.get("k") in ("PRef", "PDeref"):
            tp = tp["pat"]
        if tp.get("k") != "PTuple" or len(tp.get("pats", [])) != 2:
            return False
        knames = {b_["name"] for b_ in walk(tp["pats"][0]) if b_.get("k") == "PBinding"}
        vnames = {b_["name"] for b_ in walk(tp["pats"][1]) if b_.get("k") == "PBinding"}
        body = peel(cl["body"])
        while body.get("k") in ("Unary", "AddrOf") or (body.get("k") == "MethodCall" and body["name"] in ("clone", "copied") and not body["args"]):
            body = peel(body.get("a") or body.get("e") or body.get("recv"))
        if not (body.get("k") == "Path" and body.get("res") in knames) or vnames & {y.get("res") for y in walk(cl["body"], pats=False) if y.get("k") == "Path"}:
            return False
        # the chain must come straight from a map (filter / inspect in between keep elements intact)
        r = peel(call["recv"])
        while r.get("k") == "MethodCall" and r["name"] in ("filter", "inspect", "by_ref", "peekable"):
            r = peel(r["recv"])
        if r.get("k") == "MethodCall" and r["name"] in ("iter", "iter_mut", "into_iter"):
            ty = strip_ty(peel(r["recv"]).get("aty") or peel(r["recv"]).get("ty") or "")
            return bool(re.match(r"^(std::collections::hash::map::HashMap|std::collections::HashMap|alloc::collections::btree::map::BTreeMap)", ty))
        return False

    SET_TY = re.compile(r"^(std::collections::hash::set::HashSet|std::collections::HashSet|alloc::collections::btree::set::BTreeSet)<(.*?)(, [A-Za-z:]*RandomState)?>$")

    def _projection_eq(self, path):
        """field F if the body of the `eq` impl at `path` is `self.F.eq(&other.F)` / `self.F.eq(other)` / `self.F == other.F` (an equality decided by one field)"""
        g = self.F.fns.get(path)
        if not g or "hir" not in g:
            return None
        b = peel(g["hir"]["value"])
        while b.get("k") == "Block" and not b.get("stmts") and b.get("expr") is not None:
            b = peel(b["expr"])
        if b.get("k") == "MethodCall" and b["name"] == "eq" and len(b["args"]) == 1:
            l, r = peel(b["recv"]), peel(b["args"][0])
        elif b.get("k") == "Binary" and b["op"] == "Eq":
            l, r = peel(b["a"]), peel(b["b"])
        else:
            return None
        while r.get("k") in ("AddrOf",) or (r.get("k") == "Unary" and r.get("op") == "Deref"):
            r = peel(r.get("e") or r.get("a"))
        if l.get("k") == "Field" and ekey(l["e"]).lstrip("&*") == "self":
            if r.get("k") == "Field" and r["name"] == l["name"]:
                return (l["name"], "same")
            if r.get("k") == "Path" and r.get("res_kind") == "Local":
                return (l["name"], "bare")
        return None

    def _unique_match(self, cond, names, elem_ty):
        """`cond` is `<element> == K` with K fixed during the iteration, and at most one element of a *set* of `elem_ty` can satisfy it: the equality is the one
        that keeps the set's elements apart (same type), or it compares the one field that the element type's own equality compares (`With<T> == T`)"""
        c = peel(cond)
        while c.get("k") in ("DropTemps", "Use", "Paren"):
            c = peel(c["e"])
        if c.get("k") != "Binary" or c.get("op") != "Eq":
            return None
        for el, k in ((c["a"], c["b"]), (c["b"], c["a"])):
            e = peel(el)
            while e.get("k") in ("AddrOf",) or (e.get("k") == "Unary" and e.get("op") == "Deref") or (e.get("k") == "MethodCall" and e["name"] in ("clone", "borrow", "as_ref") and not e["args"]):
                e = peel(e.get("e") or e.get("a") or e.get("recv"))
            if not (e.get("k") == "Path" and e.get("res_kind") == "Local" and e.get("res") in names):
                continue
            if any(y.get("k") == "Path" and y.get("res") in names for y in walk(k, pats=False)):
                continue
            ga = [strip_ty(g_) for g_ in (c.get("gargs") or [])]
            et = strip_ty(elem_ty or "")
            lt, rt = strip_ty(peel(c["a"]).get("ty") or ""), strip_ty(peel(c["b"]).get("ty") or "")
            if lt == rt == et:
                return f"`{ekey(c)}` is the equality that keeps the set's elements apart: at most one element satisfies it"
            res = c.get("resolved") or ""
            if el is c["a"] and lt == et and res in self.F.fns:
                mine = self._projection_eq(res)
                selfty = res.split(" as ")[0].lstrip("<")
                own = [q for q in self.F.fns if q in (f"<{selfty} as core::cmp::PartialEq>::eq", f"<{selfty} as core::cmp::PartialEq<{selfty}>>::eq")]
                theirs = self._projection_eq(own[0]) if own else None
                if mine and theirs and mine[0] == theirs[0] and mine[1] == "bare" and theirs[1] == "same":
                    return f"`{ekey(c)}` compares the field `{mine[0]}`, the one field that the element type's own equality compares: at most one element of the set satisfies it"
        return None

    def _set_elem_ty(self, e):
        """element type if e (an iterator chain root / loop source) is a hash or tree *set*"""
        r = peel(e)
        while True:
            if r.get("k") == "MethodCall" and r["name"] in ("iter", "into_iter", "clone", "filter", "inspect", "by_ref", "peekable", "borrow") :
                r = peel(r["recv"])
            elif r.get("k") == "Call" and short(callee_of(r) or "") in ("into_iter", "clone") and r.get("args"):
                r = peel(r["args"][0])
            elif r.get("k") in ("AddrOf", "DropTemps", "Use") or (r.get("k") == "Unary" and r.get("op") == "Deref"):
                r = peel(r.get("e") or r.get("a"))
            else:
                break
        m = G2.SET_TY.match(strip_ty(r.get("aty") or r.get("ty") or ""))
        return m.group(2) if m else None

    def _worklist_item_state(self, pm, pop, lp):
        """(visited test, extra binding) if the popped item is a tuple/struct of several bindings and the loop's visited test names only one of them"""
        x = pop
        pat = None
        for _ in range(5):
            x = pm.get(id(x))
            if x is None:
                break
            if x.get("k") == "LetExpr" and x.get("pat") is not None:
                pat = x["pat"]
                break
            if x.get("k") == "Match" and x.get("arms"):
                for a_ in x["arms"]:
                    if any(b_.get("k") == "PBinding" for b_ in walk(a_["pat"])):
                        pat = a_["pat"]
                break
        if pat is None:
            return None
        names = [b_["name"] for b_ in walk(pat) if b_.get("k") == "PBinding"]
        if len(names) < 2:
            return None
        tests = [m for m in walk(lp["body"], pats=False) if m.get("k") == "MethodCall" and m["name"] in ("contains", "insert") and "HashSet" in (recv_ty(m) or m["recv"].get("ty") or "")]
        for t in tests:
            used = {y.get("res") for a_ in t["args"] for y in walk(a_, pats=False) if y.get("k") == "Path" and y.get("res_kind") == "Local"}
            hit = [n for n in names if n in used]
            if hit and len(hit) < len(names):
                missing = [n for n in names if n not in used]
                return (ekey(t)[:40], missing[0])
        return None

    def param_var(self, callee, index, depth):
        g = self.F.fns.get(callee)
        if not g or "hir" not in g or index >= len(g["hir"]["params"]):
            return None
        pat = g["hir"]["params"][index]
        if pat.get("k") != "PBinding":
            return None
        return self.seq_var(g, pat["name"], g["hir"]["value"], depth + 1, why=f"passed to `{short(callee)}`")

    # ---------------------------------------------------------------- consumer chains
    def chain(self, f, x, state, depth=0):
        pm = self.pm(f)
        while True:
            par = pm.get(id(x))
            if par is None:
                return ("RETURNS", "the hash-ordered iterator/sequence is the function's result", x)
            pk = par.get("k")
            if pk in ("DropTemps", "Use", "AddrOf") or (pk == "Unary" and par.get("op") == "Deref"):
                x = par
                continue
            if pk == "MethodCall" and par["recv"] is x:
                m = par["name"]
                rty = strip_ty(par.get("ty") or "")
                if m in SORTERS:
                    return ("SAFE", f".{m}() canonicalises the order", None)
                if m in ORDER_FREE:
                    return ("SAFE", f".{m}() is order-insensitive", None)
                if m in ("reduce", "fold"):
                    cl = (closure_like(self.F, par["args"][-1]) or {}) if par["args"] else {}
                    op = commutative_closure(cl) if cl.get("k") == "Closure" else None
                    if op:
                        return ("SAFE", f".{m}() with the commutative operator {op}", None)
                    return ("UNCLASSIFIED", f".{m}() with a closure that is not a single commutative operator", par)
                if m == "for_each":
                    cl = peel(par["args"][0])
                    if cl.get("k") == "Closure":
                        return self.loop_body(f, cl["body"], set(), depth + 1)
                    return ("UNCLASSIFIED", "for_each with a non-closure", par)
                if m in ("collect", "to_vec", "into_group_map"):
                    if SETLIKE.match(rty):
                        return ("SAFE", f"collected into the order-free {short(rty.split('<')[0])}", None)
                    if SEQLIKE.match(rty):
                        state = "seq"
                        x = par
                        continue
                    return ("UNCLASSIFIED", f"collected into {rty}", par)
                if m == "next":
                    gp = pm.get(id(par), {})
                    if gp.get("k") == "MethodCall" and gp["recv"] is par and gp["name"] in ("is_some", "is_none"):
                        return ("SAFE", "`.next().is_some()` only tests existence", None)
                    return ("UNSAFE", "`.next()` selects whichever element the hash order yields first", par)
                if m in ("min_by_key", "max_by_key") and par["args"] and self._keyed_by_map_key(par):
                    return ("SAFE", f".{m}() by the map's own key: keys are pairwise distinct, so there is no tie for the hash order to break", None)
                if m == "find" and state == "iter" and par["args"] and peel(par["args"][0]).get("k") == "Closure" and len(peel(par["args"][0]).get("params", [])) == 1:
                    cl_ = peel(par["args"][0])
                    et_ = self._set_elem_ty(par["recv"])
                    why_ = self._unique_match(cl_["body"], pat_names(cl_["params"][0]), et_) if et_ else None
                    if why_:
                        return ("SAFE", ".find(): " + why_, None)
                if m in POSITIONAL or (state == "seq" and m in ("get", "first", "last", "swap_remove", "remove", "split_first")):
                    return ("UNSAFE", f".{m}() depends on the position of elements in the hash order", par)
                if m in ("join", "concat", "to_string") or (m == "serialize" and state == "seq"):
                    return ("UNSAFE", f".{m}() renders the elements in hash order", par)
                if m in ADAPTERS or m in ("unwrap", "expect", "unwrap_or", "unwrap_or_else", "ok", "map_or", "as_slice", "as_str"):
                    x = par
                    continue
                if m in ("union", "intersection", "difference", "symmetric_difference"):
                    x = par
                    continue
                return ("UNCLASSIFIED", f"unknown consumer `.{m}()`", par)
            if pk == "Call" and short(callee_of(par) or "") == "into_iter" and par["args"] and par["args"][0] is x and (par["f"].get("res") or "").endswith("IntoIterator::into_iter"):
                for lp in for_loops(f["hir"]["value"]):
                    if lp["iter"] is x:
                        return self.loop_body(f, lp["body"], pat_names(lp["pat"]) if lp["pat"] else set(), depth + 1)
                return ("UNCLASSIFIED", "into_iter outside a for loop", par)
            if pk == "MethodCall" and any(a is x for a in par["args"]):
                rt = strip_ty(par["recv"].get("aty") or par["recv"].get("ty") or "")
                if par["name"] in ("extend", "union", "intersection", "difference", "is_subset", "is_superset", "is_disjoint", "eq") and SETLIKE.match(rt):
                    return ("SAFE", f"fed to {short(rt.split('<')[0])}::{par['name']} (order-free)", None)
                if par["name"] in ("extend", "append", "extend_from_slice", "push", "push_back") and SEQLIKE.match(rt):
                    tgt = peel(par["recv"])
                    if tgt.get("k") == "Path" and tgt.get("res_kind") == "Local":
                        return self.seq_var(f, tgt["res"], par, depth + 1, why=f"`{tgt['res']}` is filled in hash order") or ("SAFE", "worklist refill (analysed at the worklist's own loop)", None)
                    return ("UNSAFE", f"appended in hash order to the sequence `{ekey(par['recv'])}`", par)
                if par["name"] in ("push", "push_real") and (callee_of(par) or "").startswith(DIAGMGR):
                    return ("UNSAFE", "a hash-ordered sequence is stored in a diagnostic", par) if state == "seq" else ("UNCLASSIFIED", "iterator stored in a diagnostic", par)
                c = callee_of(par) or ""
                if c in self.F.fns:
                    idx = [i for i, a in enumerate(par["args"]) if a is x][0] + 1
                    v = self.param_var(c, idx, depth)
                    if v:
                        return v
                return ("UNCLASSIFIED", f"passed to .{par['name']}()", par)
            if pk == "Call":
                c = callee_of(par) or ""
                if short(c) in ("Some", "Ok", "Box::new") or (par["f"].get("res_kind") or "").startswith("Ctor") or c.endswith("Box::<T>::new"):
                    x = par
                    continue
                if c in self.F.fns:
                    idx = [i for i, a in enumerate(par["args"]) if a is x]
                    if idx:
                        v = self.param_var(c, idx[0], depth)
                        if v:
                            return v
                return ("UNCLASSIFIED", f"passed to {short(c)}()", par)
            if pk == "Let":
                name = par["pat"].get("name") if par["pat"].get("k") == "PBinding" else None
                if name and state == "seq":
                    return self.seq_var(f, name, par, depth + 1) or ("SAFE", "already analysed", None)
                if name:
                    return ("UNCLASSIFIED", f"iterator bound to `{name}`", par)
                return ("UNCLASSIFIED", "bound by a pattern", par)
            if pk is None and "name" in par and "e" in par:  # struct field initialiser
                if state == "seq":
                    return ("UNSAFE", f"a hash-ordered sequence is stored in field `{par['name']}`", par)
                return ("UNCLASSIFIED", f"iterator stored in field `{par['name']}`", par)
            if pk == "Block" and par.get("expr") is x:
                x = par
                continue
            if pk == "Ret":
                return ("RETURNS", "returned", x)
            if pk == "Closure":
                return ("UNCLASSIFIED", "result of a closure", par)
            if pk is None and "pat" in par and "body" in par:
                x = par
                continue
            if pk in ("Match", "If") and (par.get("scrut") is not x and par.get("cond") is not x):
                x = par
                continue
            if pk in ("Semi", "Expr"):
                return ("SAFE", "value discarded", None)
            return ("UNCLASSIFIED", f"flows into {pk}", par)

    # ---------------------------------------------------------------- entry
    def classify(self, src):
        p, kind, n, pm = src
        f = self.F.fns[p]
        if kind == "for":
            names = pat_names(n["pat"]) if n["pat"] else set()
            # `for x in set { if x == K { .. } }`: everything the loop does, it does for the one element that equals K
            et_ = self._set_elem_ty(n["iter"])
            b = peel(n["body"])
            while b.get("k") == "Block" and not b.get("stmts") and b.get("expr") is not None:
                b = peel(b["expr"])
            if b.get("k") == "Block" and len(b.get("stmts", [])) == 1 and b.get("expr") is None:
                b = peel(b["stmts"][0].get("e") or {})
            if et_ and b.get("k") == "If" and b.get("else") is None:
                why_ = self._unique_match(b["cond"], names, et_)
                if why_:
                    return ("SAFE", "the loop acts only on the element selected by " + why_, None)
            return self.loop_body(f, n["body"], names)
        if kind == "serialize":
            return ("UNSAFE", "a std hash container is handed to the serializer, which writes its elements in hash order", n)
        state = "iter"
        if kind == "wrapper" and SEQLIKE.match(strip_ty(n.get("ty") or "")):
            state = "seq"
        return self.chain(f, n, state)


def pat_names(p):
    out = set()
    for n in walk(p):
        if n.get("k") == "PBinding":
            out.add(n["name"])
    return out
