"""Build / cache / load the fact base produced by the factgen rustc driver (E1).

The fact base is rebuilt from /repo's *current working tree*: the cache key is a
hash of every source and manifest file under /repo plus the driver binary, so a
cache hit is byte-for-byte the same input.
"""
import hashlib, json, os, re, shutil, subprocess, sys, time

VERIF = os.path.dirname(os.path.dirname(os.path.abspath(__file__)))
REPO = os.environ.get("VERIF_REPO", "/repo")
CACHE = os.path.join(VERIF, ".cache")
DRIVER = os.path.join(VERIF, "factgen", "target", "release", "factgen")

# feature configurations of the CLI crate; "default" is what ships
CONFIGS = {
    "default": ["-p", "riscv_analysis", "-p", "riscv_analysis_cli"],
    "allfeat": ["-p", "riscv_analysis", "-p", "riscv_analysis_cli", "-p", "riscv_analysis_lsp",
                "--features", "riscv_analysis_cli/fixes,riscv_analysis_cli/analysis_debugger,riscv_analysis_cli/c229"],
}
MEMBERS = ["riscv_analysis", "riscv_analysis_cli", "riscv_analysis_lsp", "rva"]


def _sysroot():
    return subprocess.check_output(["rustc", "+nightly", "--print", "sysroot"], text=True).strip()


def tree_hash(repo=None):
    repo = repo or REPO
    h = hashlib.sha256()
    files = []
    for root, dirs, fs in os.walk(repo):
        dirs[:] = sorted(d for d in dirs if d not in ("target", ".git", "node_modules"))
        for f in sorted(fs):
            if f.endswith(".rs") or f in ("Cargo.toml", "Cargo.lock"):
                files.append(os.path.join(root, f))
    for p in files:
        h.update(os.path.relpath(p, repo).encode())
        h.update(b"\0")
        with open(p, "rb") as fh:
            h.update(fh.read())
        h.update(b"\0")
    with open(DRIVER, "rb") as fh:
        h.update(hashlib.sha256(fh.read()).digest())
    return h.hexdigest()[:24], len(files)


def ensure_driver():
    if not os.path.exists(DRIVER):
        subprocess.check_call(["cargo", "+nightly", "build", "--release", "--offline"],
                              cwd=os.path.join(VERIF, "factgen"))


def build(config="default", repo=None, verbose=False):
    """Returns (dir with fact json files, info dict).  Safe against concurrent invocations: the build of one
    (config, target dir) is serialised by a file lock, facts are written to a private directory and renamed into
    place, and only fact directories that have not been touched for an hour are evicted."""
    import fcntl
    repo = repo or REPO
    os.makedirs(CACHE, exist_ok=True)
    with open(os.path.join(CACHE, "driver.lock"), "w") as dl:
        fcntl.flock(dl, fcntl.LOCK_EX)
        ensure_driver()
    key, nfiles = tree_hash(repo)
    out = os.path.join(CACHE, "facts", f"{key}-{config}")
    stamp = os.path.join(out, "OK")
    info = {"tree_hash": key, "source_files_hashed": nfiles, "config": config, "cache_hit": True}
    if os.path.exists(stamp):
        try:
            os.utime(out, None)
        except OSError:
            pass
        return out, info
    tag = os.environ.get("VERIF_TARGET_TAG", "")
    os.makedirs(os.path.join(CACHE, "facts"), exist_ok=True)
    with open(os.path.join(CACHE, f"build-{config}{tag}.lock"), "w") as lk:
        fcntl.flock(lk, fcntl.LOCK_EX)
        if os.path.exists(stamp):      # another process built it while we waited
            return out, info
        info["cache_hit"] = False
        tmp = f"{out}.tmp-{os.getpid()}"
        if os.path.exists(tmp):
            shutil.rmtree(tmp)
        os.makedirs(tmp)
        # persistent target dir for dependencies; members' fingerprints are removed so
        # the wrapper is really invoked on them (cargo would otherwise replay).
        tdir = os.path.join(CACHE, "target-" + config + tag)
        fp = os.path.join(tdir, "debug", ".fingerprint")
        if os.path.isdir(fp):
            for d in os.listdir(fp):
                if any(d.startswith(m + "-") for m in MEMBERS):
                    shutil.rmtree(os.path.join(fp, d), ignore_errors=True)
        env = dict(os.environ)
        env["LD_LIBRARY_PATH"] = _sysroot() + "/lib"
        env["RUSTFLAGS"] = "-Zmir-opt-level=0 -Awarnings"
        env["RUSTC_WORKSPACE_WRAPPER"] = DRIVER
        env["CARGO_TARGET_DIR"] = tdir
        env["FACTGEN_OUT"] = tmp
        env["CARGO_NET_OFFLINE"] = "true"
        t = time.time()
        cmd = ["cargo", "+nightly", "check", "--offline"] + CONFIGS[config]
        p = subprocess.run(cmd, cwd=repo, env=env, stdout=subprocess.PIPE, stderr=subprocess.STDOUT, text=True)
        info["cargo_check_s"] = round(time.time() - t, 1)
        if p.returncode != 0:
            sys.stderr.write(p.stdout[-6000:])
            shutil.rmtree(tmp, ignore_errors=True)
            raise SystemExit("factbase: cargo check failed on the working tree (the tree must compile)")
        need = ["riscv_analysis.lib.json", "riscv_analysis_cli.lib.json", "rva.bin.json"]
        if config == "allfeat":
            need.append("riscv_analysis_lsp.lib.json")
        for n in need:
            if not os.path.exists(os.path.join(tmp, n)):
                sys.stderr.write(p.stdout[-3000:])
                shutil.rmtree(tmp, ignore_errors=True)
                raise SystemExit(f"factbase: fact file {n} was not written (driver skipped?)")
        open(os.path.join(tmp, "OK"), "w").write(str(time.time()))
        if os.path.exists(out):
            shutil.rmtree(out, ignore_errors=True)
        os.rename(tmp, out)
        # keep the cache small: drop fact dirs that nobody has used for an hour (beyond the 8 most recent)
        fdir = os.path.join(CACHE, "facts")
        now = time.time()
        ents = sorted((os.path.getmtime(os.path.join(fdir, e)), e) for e in os.listdir(fdir))
        for mt, e in ents[:-8]:
            if now - mt > 3600:
                shutil.rmtree(os.path.join(fdir, e), ignore_errors=True)
    return out, info


def load(dirpath):
    crates = []
    for n in sorted(os.listdir(dirpath)):
        if not n.endswith(".json"):
            continue
        raw = open(os.path.join(dirpath, n)).read()
        cname = json.loads(raw[: raw.index(",")] + "}")["crate"]
        raw = re.sub(r"\bcrate::", cname + "::", raw)
        d = json.loads(raw)
        d["_file"] = n
        crates.append(d)
    return crates
