"""Abstract interpretation of the lexer's cursor over the HIR of `Lexer`'s methods.

Question decided: can a `consume_char()` step over a character that has not been
established to be something other than '\\n'?  (Only the Newline arm, which
matched `Some('\\n')`, may consume a newline; any other consumer that can eat a
newline glues the next source line to the current token / error recovery.)

State: what is known about the characters at offsets 0,1,.. from the cursor
('N' = not a newline or end of input, 'L' = a newline) and which local
variables denote which offset.  `consume_char()` requires knowledge at offset 0
and shifts the window.  Conditions and patterns refine the window; `&mut self`
helpers are analysed in the caller's context (bounded inlining).
"""
from .facts import *

LEXER = "riscv_analysis::parser::lexer::Lexer"
NL = "\n"


class Unextractable(Exception):
    pass


class St:
    __slots__ = ("know", "vars", "consts", "moved", "eff", "pvars")

    def __init__(self, know=None, vars=None, consts=None, moved=False, eff=None, pvars=None):
        self.pvars = dict(pvars or {})   # locals that hold a position taken with get_pos(): name -> offset of that character from the cursor (0, -1, ..)
        self.know = dict(know or {})
        self.vars = dict(vars or {})
        self.consts = dict(consts or {})
        self.moved = moved      # the cursor has advanced since the last loop head (on every path joined into this state)
        self.eff = dict(eff or {})   # assignments of literals to fields of `self` on this path: field -> ("=", v) | ("+", k) | "?"

    def copy(self):
        return St(self.know, self.vars, self.consts, self.moved, self.eff, self.pvars)

    def key(self):
        return (tuple(sorted(self.know.items())), tuple(sorted(self.vars.items())), tuple(sorted(self.consts.items())), tuple(sorted(self.pvars.items())))

    def shift(self):
        s = St(consts=self.consts, moved=True)
        s.know = {k - 1: v for k, v in self.know.items() if k >= 1}
        s.vars = {n: o - 1 for n, o in self.vars.items() if o >= 1}
        s.pvars = {n: o - 1 for n, o in self.pvars.items()}
        return s

    def learn(self, off, v):
        """refine the knowledge at `off` by the kind set v ("N", "L", "E" or a combination like "EN"); None if that is impossible"""
        s = self.copy()
        if v is None:
            return s
        old = s.know.get(off)
        new = set(v) if old is None else (set(old) & set(v))
        if not new:
            return None  # contradiction: infeasible path
        s.know[off] = "".join(sorted(new))
        return s


def kjoin(x, y):
    """union of two kind sets; None (nothing known) when it is everything"""
    if x is None or y is None:
        return None
    u = "".join(sorted(set(x) | set(y)))
    return None if u == "ELN" else u


def join(a, b):
    if a is None:
        return b
    if b is None:
        return a
    s = St()
    s.know = {k: kjoin(v, b.know.get(k)) for k, v in a.know.items() if kjoin(v, b.know.get(k)) is not None}
    s.vars = {k: v for k, v in a.vars.items() if b.vars.get(k) == v}
    s.consts = {k: v for k, v in a.consts.items() if b.consts.get(k) == v}
    s.pvars = {k: v for k, v in a.pvars.items() if b.pvars.get(k) == v}
    s.moved = a.moved and b.moved
    s.eff = {k: (v if b.eff.get(k) == v else "?") for k, v in a.eff.items()}
    for k in b.eff:
        s.eff.setdefault(k, "?")
    return s


def join_all(sts):
    out = None
    for s in sts:
        out = join(out, s)
    return out


def lit_kind(ch):
    return "L" if ch == NL else "N"


NOT_NL_CHAR_METHODS = {"is_ascii_digit", "is_ascii_lowercase", "is_ascii_uppercase", "is_ascii_alphabetic", "is_ascii_alphanumeric",
                       "is_alphabetic", "is_alphanumeric", "is_numeric", "is_ascii_hexdigit", "is_ascii_punctuation", "is_ascii_graphic",
                       "is_lowercase", "is_uppercase", "is_digit"}
NL_CHAR_METHODS = {"is_whitespace", "is_ascii_whitespace", "is_control", "is_ascii_control", "is_ascii"}


class Cursor:
    def __init__(self, F, summaries=None):
        self.F = F
        self.viol = {}       # key -> (msg, where)
        self.sites = {}      # key -> where (every consume site analysed)
        self.pos_sites = {}
        self.pos_uses = {}       # "<fn>|<error kind>|<local>" -> (where, {(offset of the remembered character from the cursor | None, kind under the cursor)})  # key -> (where, knowledge about the character under the cursor when a position is taken)
        self.pos_ordinals = {}
        self.pos_kinds = {}  # key -> set of kind sets (None = nothing known) seen at the site
        self.depth = 0
        self.stack = []
        self.ctx = []        # arm labels
        self.fn = None
        self.memo_pred = {}
        self.summaries = summaries or {}
        self.used_summaries = set()
        self.ordinals = {}
        self.stalls = {}     # key -> (msg, where): loop paths that do not advance the cursor
        self.present = set()   # offsets assumed to hold a character (not the end of the input): used when one function is evaluated case by case
        self.loops_seen = {}
        self._loop_ids = {}

    # ------------------------------------------------------------------ predicates on a char evaluated at '\n'
    def pred_at_newline(self, path):
        if path in self.memo_pred:
            return self.memo_pred[path]
        f = self.F.fns.get(path)
        if not f or "hir" not in f or len(f["hir"]["params"]) != 1:
            return None
        pn = f["hir"]["params"][0].get("name")

        def ev(e):
            e = peel(e)
            while e.get("k") == "Block" and not e.get("stmts") and e.get("expr") is not None:
                e = peel(e["expr"])
            k = e.get("k")
            if k == "Binary" and e["op"] in ("Or", "And"):
                a, b = ev(e["a"]), ev(e["b"])
                if a is None or b is None:
                    return None
                return (a or b) if e["op"] == "Or" else (a and b)
            if k == "Unary" and e["op"] == "Not":
                a = ev(e["a"])
                return None if a is None else not a
            if k == "Binary" and e["op"] in ("Eq", "Ne"):
                x, y = peel(e["a"]), peel(e["b"])
                if x.get("k") == "Path" and x.get("res") == pn and y.get("k") == "Lit" and y["lit"]["t"] == "char":
                    r = (y["lit"]["v"] == NL)
                    return r if e["op"] == "Eq" else not r
                return None
            if k == "MethodCall" and peel(e["recv"]).get("res") == pn and not e["args"]:
                if e["name"] in NOT_NL_CHAR_METHODS:
                    return False
                if e["name"] in NL_CHAR_METHODS:
                    return True
                return None
            if k == "Call" and len(e["args"]) == 1 and peel(e["args"][0]).get("res") == pn:
                return self.pred_at_newline(callee_of(e))
            if k == "Call" and short(callee_of(e) or "") == "matches":
                return None
            if k == "Match":
                # matches!(ch, 'a' | 'b') desugars to a match producing bool literals
                sc = peel(e["scrut"])
                if sc.get("res") == pn:
                    for arm in e["arms"]:
                        lits = [p_["e"]["lit"]["v"] for p_ in walk(arm["pat"]) if p_.get("k") == "PExpr" and p_["e"].get("k") == "Lit"]
                        wild = arm["pat"].get("k") in ("PWild", "PBinding")
                        if NL in lits or wild:
                            return ev(arm["body"])
                return None
            if k == "Lit" and e["lit"]["t"] == "bool":
                return e["lit"]["v"]
            return None
        r = ev(f["hir"]["value"])
        self.memo_pred[path] = r
        return r

    # ------------------------------------------------------------------ helpers
    def offset_of(self, e, st):
        """offset denoted by a char-valued expression (a local bound to a cursor char), or None"""
        e = peel(e)
        while e.get("k") in ("Unary", "AddrOf") and e.get("op") in (None, "Deref"):
            e = peel(e.get("a") or e.get("e"))
        if e.get("k") == "Path" and e.get("res_kind") == "Local" and e.get("res") in st.vars:
            return st.vars[e["res"]]
        return None

    def opt_offset(self, e, st):
        """offset k if e is `self.current()` / `self.peek(k)`"""
        e = peel(e)
        if e.get("k") == "MethodCall" and peel(e["recv"]).get("res") == "self":
            if e["name"] == "current" and not e["args"]:
                return 0
            if e["name"] == "peek" and len(e["args"]) == 1:
                n = lit_value(e["args"][0])
                if isinstance(n, int):
                    return n
        return None

    def is_mut_self_method(self, e):
        c = callee_of(e)
        f = self.F.fns.get(c or "")
        return bool(f and f.get("param_tys") and f["param_tys"][0].startswith("&mut ") and LEXER in f["param_tys"][0])

    # ------------------------------------------------------------------ consume
    def consume(self, node, st):
        fn = self.fn
        label = self.ctx[-1] if self.ctx else "-"
        ordn = self.ordinals.setdefault((fn, label), {})
        idx = ordn.setdefault(id(node), len(ordn) + 1)
        key = f"{short(fn)}|{label}|consume#{idx}"
        self.sites[key] = loc(node)
        k0 = st.know.get(0)
        if k0 is None or ("L" in k0 and k0 != "L"):
            via = " <- ".join(short(x) for x in reversed(self.stack)) or short(fn)
            self.viol.setdefault(key, (f"`consume_char()` in {short(fn)} (arm {label}) steps over a character that has not been tested: if it is the newline, the line break disappears into this token / error and the following line is glued to the current one (call chain {via})", loc(node)))
        return st.shift()

    # ------------------------------------------------------------------ conditions
    def cond(self, e, st):
        """-> list of (truth, state); evaluates effects inside e as well"""
        e0 = e
        e = peel(e)
        while e.get("k") in ("DropTemps", "Use"):
            e = peel(e["e"])
        while e.get("k") == "Block" and not e.get("stmts") and e.get("expr") is not None:
            e = peel(e["expr"])
        k = e.get("k")
        if k == "Lit" and e["lit"]["t"] == "bool":
            return [(e["lit"]["v"], st)]
        if k == "Unary" and e["op"] == "Not":
            return [(not t, s) for t, s in self.cond(e["a"], st)]
        if k == "Binary" and e["op"] in ("And", "Or"):
            out = []
            for t, s in self.cond(e["a"], st):
                if (e["op"] == "And" and not t) or (e["op"] == "Or" and t):
                    out.append((t, s))
                else:
                    out += self.cond(e["b"], s)
            return out
        if k == "Match" and e.get("src") not in ("TryDesugar", "ForLoopDesugar") and e.get("arms") \
                and all(isinstance(lit_value(a["body"]), bool) for a in e["arms"]):
            # `matches!(x, pat if guard)`: a match whose arms are boolean literals
            outs = []
            for kind, s, v in self.run(e["scrut"], st):
                if kind != "normal":
                    raise Unextractable("control flow inside a `matches!` scrutinee")
                oo = self.opt_offset(e["scrut"], s)
                if oo is not None:
                    v = ("opt_at", oo)
                rest = s
                for arm in e["arms"]:
                    if rest is None:
                        break
                    m, rest = self.match_pat(arm["pat"], v, rest)
                    if m is None:
                        continue
                    branches = [(True, m)]
                    if arm.get("guard") is not None:
                        branches = self.cond(arm["guard"], m)
                    for t, ms in branches:
                        if ms is None:
                            continue
                        if not t:
                            rest = join(rest, ms) if rest is not None else ms
                            continue
                        outs.append((lit_value(arm["body"]), ms))
            return outs
        if k == "LetExpr":
            outs = []
            for kind, s, v in self.run(e["init"], st):
                if kind != "normal":
                    raise Unextractable("control flow inside an `if let` scrutinee")
                m, r = self.match_pat(e["pat"], v, s)
                if m is not None:
                    outs.append((True, m))
                if r is not None:
                    outs.append((False, r))
            return outs
        if k == "Binary" and e["op"] in ("Eq", "Ne"):
            a, b = peel(e["a"]), peel(e["b"])
            for x, y in ((a, b), (b, a)):
                # char var vs literal
                o = self.offset_of(x, st)
                ly = peel(y)
                while ly.get("k") in ("Unary", "AddrOf") and ly.get("op") in (None, "Deref"):
                    ly = peel(ly.get("a") or ly.get("e"))
                if o is not None and ly.get("k") == "Lit" and ly["lit"]["t"] == "char":
                    ch = ly["lit"]["v"]
                    t = st.learn(o, lit_kind(ch))
                    f = st.learn(o, "N") if ch == NL else st.copy()
                    res = []
                    if t is not None:
                        res.append((e["op"] == "Eq", t))
                    if f is not None:
                        res.append((e["op"] != "Eq", f))
                    return res
                # self.peek(k) == Some('c') / None
                oo = self.opt_offset(x, st)
                if oo is not None:
                    if ly.get("k") == "Call" and short(callee_of(ly) or "") == "Some" and peel(ly["args"][0]).get("k") == "Lit":
                        ch = peel(ly["args"][0])["lit"]["v"]
                        t = st.learn(oo, lit_kind(ch))
                        f = st.learn(oo, "EN") if ch == NL else st.copy()
                        res = []
                        if t is not None:
                            res.append((e["op"] == "Eq", t))
                        if f is not None:
                            res.append((e["op"] != "Eq", f))
                        return res
                    if ly.get("k") == "Path" and short(ly.get("res") or "") == "None":
                        t = st.learn(oo, "E")
                        f = st.learn(oo, "LN")
                        res = []
                        if f is not None:
                            res.append((e["op"] != "Eq", f))
                        if t is not None:
                            res.append((e["op"] == "Eq", t))
                        return res
        if k == "MethodCall" and e["name"] in ("is_none", "is_some") and not e["args"]:
            oo = self.opt_offset(e["recv"], st)
            if oo is not None:
                t = st.learn(oo, "E")  # end of input
                f = st.learn(oo, "LN")
                res = []
                if f is not None:
                    res.append((e["name"] == "is_some", f))
                if t is not None:
                    res.append((e["name"] == "is_none", t))
                return res
        if k == "MethodCall" and e["name"] in ("is_some_and", "is_none_or") and len(e["args"]) == 1:
            # `self.current().is_some_and(|c| c != '\n')` / `.is_some_and(Self::is_ws)`: absent -> the fixed answer, present -> the test on that character
            oo = self.opt_offset(e["recv"], st)
            if oo is not None:
                res = []
                none_st, some_st = st.learn(oo, "E"), st.learn(oo, "LN")
                if none_st is not None:
                    res.append((e["name"] == "is_none_or", none_st))
                if some_st is not None:
                    a = peel(e["args"][0])
                    if a.get("k") == "Closure" and len(a.get("params", [])) == 1 and a["params"][0].get("k") == "PBinding":
                        s2 = some_st.copy()
                        s2.vars[a["params"][0]["name"]] = oo
                        res += self.cond(a["body"], s2)
                    else:
                        pth = a.get("res") if a.get("k") == "Path" else None
                        p = self.pred_at_newline(pth) if pth else None
                        if p is False:
                            res += [(True, some_st.learn(oo, "N") or some_st), (False, some_st.copy())]
                        elif p is True:
                            res += [(True, some_st.copy()), (False, some_st.learn(oo, "N") or some_st)]
                        else:
                            res += [(True, some_st), (False, some_st.copy())]
                return res
        if k == "Call" and len(e["args"]) == 1 and self.offset_of(e["args"][0], st) is not None:
            p = self.pred_at_newline(callee_of(e) or "")
            o = self.offset_of(e["args"][0], st)
            if p is False:
                return [(True, st.learn(o, "N") or st), (False, st.copy())]
            if p is True:
                return [(True, st.copy()), (False, st.learn(o, "N") or st)]
        if k == "MethodCall" and not e["args"] and self.offset_of(e["recv"], st) is not None:
            o = self.offset_of(e["recv"], st)
            if e["name"] in NOT_NL_CHAR_METHODS:
                return [(True, st.learn(o, "N") or st), (False, st.copy())]
            if e["name"] in NL_CHAR_METHODS:
                return [(True, st.copy()), (False, st.learn(o, "N") or st)]
        # unknown condition: evaluate for effects, both truth values
        outs = []
        for kind, s, v in self.run(e0, st):
            if kind != "normal":
                raise Unextractable("control flow inside a condition")
            outs += [(True, s), (False, s.copy())]
        return outs

    # ------------------------------------------------------------------ patterns
    def match_pat(self, pat, val, st):
        """-> (state if the pattern matches or None, state if it does not or None)"""
        k = pat.get("k")
        if k in ("PWild",):
            return st.copy(), None
        if k == "PBinding":
            s = st.copy()
            if val and val[0] == "at":
                s.vars[pat["name"]] = val[1]
            else:
                s.vars.pop(pat["name"], None)
            if pat.get("sub"):
                return self.match_pat(pat["sub"], val, s)
            return s, None
        if k == "POr":
            ms, rest = [], st
            for p_ in pat["pats"]:
                if rest is None:
                    break
                m, rest = self.match_pat(p_, val, rest)
                if m is not None:
                    ms.append(m)
            return (join_all(ms) if ms else None), rest
        if k in ("PRef", "PDeref", "PBox"):
            return self.match_pat(pat["pat"], val, st)
        res = pat.get("res") or (peel(pat.get("e") or {}).get("res") if k == "PExpr" else "") or ""
        if val and val[0] == "opt_at":
            o = val[1]
            if k == "PTupleStruct" and short(res) == "Some":
                there = st.learn(o, "LN")
                if there is None:
                    return None, st.copy()
                m, r = self.match_pat(pat["pats"][0], ("at", o), there)
                # not matching Some(p): either None (end of input -> nothing to eat) or Some(other)
                return m, (r if r is not None else None) if False else self._opt_rest(pat["pats"][0], o, st, r)
            if k in ("PPath", "PExpr", "PStruct", "PTupleStruct") and short(res) == "None":
                return (None if o in self.present else st.learn(o, "E")), st.learn(o, "LN")
            raise Unextractable(f"pattern {k} on an Option<char>")
        if val and val[0] == "at":
            o = val[1]
            if k == "PExpr":
                l = peel(pat["e"])
                if l.get("k") == "Lit" and l["lit"]["t"] == "char":
                    ch = l["lit"]["v"]
                    return st.learn(o, lit_kind(ch)), (st.learn(o, "N") if ch == NL else st.copy())
            if k == "PRange":
                inside = prange_contains(pat, NL)
                if inside is not None:
                    return (st.copy() if inside else st.learn(o, "N")), (st.learn(o, "N") if inside else st.copy())
            raise Unextractable(f"pattern {k} on a char")
        if val and val[0] == "tag":
            tag = val[1]
            if k in ("PTupleStruct", "PStruct", "PPath", "PExpr") and short(res) in ("Some", "None", "Ok", "Err"):
                if short(res) == tag:
                    s = st.copy()
                    for b in walk(pat):
                        if b.get("k") == "PBinding":
                            s.vars.pop(b["name"], None)
                    return s, None
                return None, st.copy()
        # unknown value: may or may not match, no refinement; bindings denote nothing
        s = st.copy()
        for b in walk(pat):
            if b.get("k") == "PBinding":
                s.vars.pop(b["name"], None)
        return s, st.copy()

    def _opt_rest(self, inner, o, st, r):
        # pattern Some(inner) failed: None (end of input) or Some(c) with c not matching inner
        eof = None if o in self.present else st.learn(o, "E")
        if inner.get("k") in ("PWild", "PBinding"):
            return eof
        return join(eof, r) if r is not None else eof

    # ------------------------------------------------------------------ expressions
    def seq(self, exprs, st, last_val=False):
        """evaluate expressions in order; -> outcomes (val of the last one)"""
        cur = [("normal", st, None)]
        for e in exprs:
            nxt = []
            for kind, s, v in cur:
                if kind != "normal":
                    nxt.append((kind, s, v))
                    continue
                nxt += self.run(e, s)
            cur = self.merge(nxt)
        return cur

    def merge(self, outs):
        """join normal outcomes that carry the same abstract value; keep the others"""
        groups = {}
        order = []
        for kind, s, v in outs:
            if s is None:
                continue
            k = (kind, v)
            if k not in groups:
                groups[k] = s
                order.append(k)
            else:
                groups[k] = join(groups[k], s)
        return [(k[0], groups[k], k[1]) for k in order]

    def run(self, e, st):
        """-> list of (kind, state, value) with kind in normal/break/continue/return"""
        if e is None:
            return [("normal", st, None)]
        e = peel(e)
        k = e.get("k")
        if k in ("DropTemps", "Use"):
            return self.run(e["e"], st)
        if k in ("Lit", "Path"):
            if k == "Path" and e.get("res_kind") == "Local" and e.get("res") in st.vars:
                return [("normal", st, ("at", st.vars[e["res"]]))]
            if k == "Path" and short(e.get("res") or "") == "None" and (e.get("res") or "").startswith("core::option"):
                return [("normal", st, ("tag", "None"))]
            return [("normal", st, None)]
        if k == "Block":
            stmts = e.get("stmts") or []
            cur = [("normal", st, None)]
            for s_ in stmts:
                nxt = []
                for kind, s, v in cur:
                    if kind != "normal":
                        nxt.append((kind, s, v))
                        continue
                    nxt += self.stmt(s_, s)
                cur = self.merge(nxt)
            if e.get("expr") is not None:
                nxt = []
                for kind, s, v in cur:
                    if kind != "normal":
                        nxt.append((kind, s, v))
                    else:
                        nxt += self.run(e["expr"], s)
                cur = self.merge(nxt)
            else:
                cur = [(kind, s, None if kind == "normal" else v) for kind, s, v in cur]
            return cur
        if k == "If":
            outs = []
            for t, s in self.cond(e["cond"], st):
                if s is None:
                    continue
                if t:
                    outs += self.run(e["then"], s)
                elif e.get("else") is not None:
                    outs += self.run(e["else"], s)
                else:
                    outs.append(("normal", s, None))
            return self.merge(outs)
        if k == "Match":
            if e.get("src") == "TryDesugar":
                inner = peel(e["scrut"])["args"][0]
                outs = []
                for kind, s, v in self.run(inner, st):
                    if kind != "normal":
                        outs.append((kind, s, v))
                    elif v and v[0] == "tag" and v[1] in ("None", "Err"):
                        outs.append(("return", s, v))
                    elif v and v[0] == "tag":
                        outs.append(("normal", s, None))
                    elif v and v[0] == "opt_at":
                        # `self.peek(k)?`: None is the end of the input (nothing there to step over), otherwise the character at k
                        eof = None if v[1] in self.present else s.learn(v[1], "E")
                        if eof is not None:
                            outs.append(("return", eof, ("tag", "None")))
                        there = s.learn(v[1], "LN")
                        if there is not None:
                            outs.append(("normal", there, ("at", v[1])))
                    else:
                        outs.append(("return", s.copy(), ("tag", "None")))
                        outs.append(("normal", s, None))
                return self.merge(outs)
            if e.get("src") == "ForLoopDesugar":
                return self.for_loop(e, st)
            outs = []
            for kind, s, v in self.run(e["scrut"], st):
                if kind != "normal":
                    outs.append((kind, s, v))
                    continue
                oo = self.opt_offset(e["scrut"], s)
                if oo is not None:
                    v = ("opt_at", oo)
                rest = s
                for arm in e["arms"]:
                    if rest is None:
                        break
                    m, rest = self.match_pat(arm["pat"], v, rest)
                    if m is None:
                        continue
                    label = None
                    if v and v[0] == "opt_at" and v[1] == 0 and short(self.fn) == "next" and not self.stack:
                        lits = [peel(p_["e"])["lit"]["v"] for p_ in walk(arm["pat"]) if p_.get("k") == "PExpr" and peel(p_["e"]).get("k") == "Lit"]
                        label = repr(lits[0]) if lits else ("None" if short(arm["pat"].get("res") or "") == "None" else "_")
                    branches = [(True, m)]
                    if arm.get("guard") is not None:
                        branches = self.cond(arm["guard"], m)
                    for t, ms in branches:
                        if ms is None:
                            continue
                        if not t:
                            rest = join(rest, ms) if rest is not None else ms
                            continue
                        if label is not None:
                            self.ctx.append(label)
                        outs += self.run(arm["body"], ms)
                        if label is not None:
                            self.ctx.pop()
            return self.merge(outs)
        if k == "Loop":
            return self.loop(e["body"], st)
        if k == "Break":
            outs = []
            for kind, s, v in self.run(e.get("e"), st) if e.get("e") is not None else [("normal", st, None)]:
                outs.append(("break", s, None) if kind == "normal" else (kind, s, v))
            return outs
        if k == "Continue":
            return [("continue", st, None)]
        if k == "Ret":
            outs = []
            for kind, s, v in self.run(e.get("e"), st) if e.get("e") is not None else [("normal", st, None)]:
                outs.append(("return", s, v) if kind == "normal" else (kind, s, v))
            return outs
        if k == "Assign" and peel(e["l"]).get("k") == "Path" and peel(e["l"]).get("res_kind") == "Local":
            res = []
            for kind, s, v in self.run(e["r"], st):
                if kind == "normal":
                    s = s.copy()
                    self._bind_pos(s, peel(e["l"])["res"], e["r"])
                    res.append(("normal", s, None))
                else:
                    res.append((kind, s, v))
            return res
        if k in ("Assign", "AssignOp") and peel(e["l"]).get("k") == "Field" and ekey(peel(e["l"])["e"]).lstrip("&*") == "self":
            # `self.row += 1`, `self.col = 0`: recorded as the path's effect on the field (literals only)
            outs = self.run(e["r"], st)
            res = []
            fld = peel(e["l"])["name"]
            lv = lit_value(e["r"])
            for kind, s, v in outs:
                if kind != "normal":
                    res.append((kind, s, v))
                    continue
                s = s.copy()
                prev = s.eff.get(fld)
                if (not isinstance(lv, int) or isinstance(lv, bool)) and k == "Assign" and prev is None:
                    # `self.pos = (self.pos + 1).min(len)`: a step that stops at the end of the text
                    r_ = peel(e["r"])
                    if r_.get("k") == "MethodCall" and r_["name"] == "min" and len(r_["args"]) == 1:
                        r_ = peel(r_["recv"])
                    try:
                        lf = linform(r_)
                        s.eff[fld] = ("+", lf.get("", 0)) if lf.get(fld) == 1 and all(v_ == 0 for k_, v_ in lf.items() if k_ not in ("", fld)) else "?"
                    except LinUnx:
                        s.eff[fld] = "?"
                elif not isinstance(lv, int) or isinstance(lv, bool) or prev == "?":
                    s.eff[fld] = "?"
                elif k == "Assign":
                    s.eff[fld] = ("=", lv)
                elif e["op"] == "AddAssign":
                    s.eff[fld] = ("+", lv) if prev is None else (prev[0], prev[1] + lv)
                else:
                    s.eff[fld] = "?"
                res.append(("normal", s, None))
            return res
        if k == "Closure":
            if any(n.get("k") == "MethodCall" and n["name"] == "consume_char" for n in walk(e)):
                raise Unextractable("consume_char inside a closure")
            return [("normal", st, None)]
        if k == "MethodCall" and peel(e["recv"]).get("k") == "Path" and peel(e["recv"]).get("res") == "self":
            name = e["name"]
            # arguments first
            outs = self.seq(e["args"], st)
            res = []
            for kind, s, v in outs:
                if kind != "normal":
                    res.append((kind, s, v))
                    continue
                if name == "consume_char":
                    res.append(("normal", self.consume(e, s), None))
                elif name in ("get_pos", "get_range"):
                    # where a position is taken: what is known about the character under the cursor
                    label = self.ctx[-1] if self.ctx else "-"
                    ordn = self.pos_ordinals.setdefault((self.fn, label), {})
                    idx = ordn.setdefault(id(e), len(ordn) + 1)
                    key = f"{short(self.fn)}|{label}|{name}#{idx}"
                    prev = self.pos_sites.get(key)
                    k0 = s.know.get(0)
                    # several contexts may reach one site: 'L' (on a newline) in any of them is what matters
                    self.pos_sites[key] = (loc(e), "L" if (k0 == "L" or (prev and prev[1] == "L")) else k0)
                    self.pos_kinds.setdefault(key, set()).add(k0)
                    res.append(("normal", s, None))
                elif self.opt_offset(e, s) is not None:
                    res.append(("normal", s, ("opt_at", self.opt_offset(e, s))))
                elif self.is_mut_self_method(e):
                    res += self.call(e, s)
                else:
                    res.append(("normal", s, None))
            return self.merge(res)
        if k == "Call":
            c = callee_of(e) or ""
            outs = self.seq(e["args"], st)
            tag = short(c) if c.startswith("core::option::Option::") or c.startswith("core::result::Result::") else None
            if tag in ("Some", "Ok", "Err"):
                return [(kind, s, ("tag", tag) if kind == "normal" else v) for kind, s, v in outs]
            if any(LEXER in (t or "") and (t or "").startswith("&mut") for t in (self.F.fns.get(c, {}).get("param_tys") or [])):
                raise Unextractable(f"`{c}` takes the lexer by &mut through a plain call")
            if c.endswith("LexError::new") and e["args"] and peel(e["args"][0]).get("k") == "Path" and peel(e["args"][0]).get("res_kind") == "Local":
                # an error that ends at a remembered position: which character is that, seen from the cursor?
                nm = peel(e["args"][0])["res"]
                what = next((short(y.get("res") or "") for a_ in e["args"][1:] for y in walk(a_, pats=False) if y.get("k") == "Path" and "ErrorType::" in (y.get("res") or "")), "?")
                for kind, s_, v in outs:
                    if kind == "normal":
                        self.pos_uses.setdefault(f"{short(self.fn)}|{what}|{nm}", (loc(e), set()))[1].add((s_.pvars.get(nm), s_.know.get(0)))
            return [(kind, s, None if kind == "normal" else v) for kind, s, v in outs]
        # generic: evaluate child expressions in order
        kids = []
        for key in ("recv", "f", "e", "a", "b", "l", "r", "base", "scrut", "init"):
            if isinstance(e.get(key), dict):
                kids.append(e[key])
        for key in ("args", "elems"):
            if isinstance(e.get(key), list):
                kids += [x for x in e[key] if isinstance(x, dict)]
        if isinstance(e.get("fields"), list):
            kids += [x["e"] for x in e["fields"] if isinstance(x, dict) and isinstance(x.get("e"), dict)]
        outs = self.seq(kids, st)
        return [(kind, s, None if kind == "normal" else v) for kind, s, v in outs]

    def _bind_pos(self, st, name, init):
        """`name = self.get_pos()` / `name = <another position local>`: remember which character the position is of"""
        x = peel(init)
        while x.get("k") in ("DropTemps", "Use") or (x.get("k") == "MethodCall" and x["name"] == "clone" and not x["args"]):
            x = peel(x.get("e") or x.get("recv"))
        if x.get("k") == "MethodCall" and x["name"] == "get_pos" and not x["args"] and peel(x["recv"]).get("res") == "self":
            st.pvars[name] = 0
        elif x.get("k") == "Path" and x.get("res_kind") == "Local" and x.get("res") in st.pvars:
            st.pvars[name] = st.pvars[x["res"]]
        else:
            st.pvars.pop(name, None)

    def stmt(self, s_, st):
        k = s_.get("k")
        if k == "Let":
            if s_.get("init") is None:
                return [("normal", st, None)]
            outs = []
            for kind, s, v in self.run(s_["init"], st):
                if kind != "normal":
                    outs.append((kind, s, v))
                    continue
                oo = self.opt_offset(s_["init"], s)
                if oo is not None:
                    v = ("opt_at", oo)
                if s_.get("els") is not None:
                    m, r = self.match_pat(s_["pat"], v, s)
                    if m is not None:
                        outs.append(("normal", m, None))
                    if r is not None:
                        outs += [(kd, s2, v2) for kd, s2, v2 in self.run(s_["els"], r)]
                    continue
                m, _ = self.match_pat(s_["pat"], v, s)
                lv = lit_value(s_["init"])
                if m is not None and s_["pat"].get("k") == "PBinding":
                    self._bind_pos(m, s_["pat"]["name"], s_["init"])
                    if isinstance(lv, int) and not isinstance(lv, bool):
                        m.consts[s_["pat"]["name"]] = lv
                    else:
                        m.consts.pop(s_["pat"]["name"], None)
                outs.append(("normal", m if m is not None else s, None))
            return outs
        if k in ("Expr", "Semi"):
            return [(kind, s, None if kind == "normal" else v) for kind, s, v in self.run(s_["e"], st)]
        if k == "Item":
            return [("normal", st, None)]
        return [(kind, s, None if kind == "normal" else v) for kind, s, v in self.run(s_.get("e"), st)]

    def loop(self, body, st, check_progress=True):
        head = st
        for _ in range(12):
            outs = self.run(body, head)
            back = [s for kind, s, v in outs if kind in ("normal", "continue")]
            new_head = join_all([head] + back)
            if new_head.key() == head.key():
                break
            head = new_head
        else:
            raise Unextractable("loop state does not stabilise")
        h = head.copy()
        h.moved = False
        outs = self.run(body, h)
        res = []
        for kind, s, v in outs:
            if kind == "break":
                s.moved = st.moved or s.moved
                res.append(("normal", s, None))
            elif kind == "return":
                s.moved = st.moved or s.moved
                res.append((kind, s, v))
            elif check_progress and not s.moved:
                # a path goes round the loop without the cursor having advanced: nothing it tests has changed, so it goes round again
                self.stalls.setdefault(self._loop_key(body), (f"a path through a scanning loop of {short(self.fn)} returns to the loop head without having consumed a character: the same character is tested again with the same answer, for ever", loc(body)))
        self.loops_seen[self._loop_key(body)] = loc(body)
        return self.merge(res)

    def _loop_key(self, body):
        per_fn = self._loop_ids.setdefault(self.fn, {})
        n = per_fn.setdefault(id(body), len(per_fn) + 1)
        return f"{short(self.fn)}|loop#{n}"

    def for_loop(self, m, st):
        it = peel(m["scrut"]["args"][0]) if m["scrut"].get("k") == "Call" else None
        loop = m["arms"][0]["body"]
        while loop.get("k") in ("DropTemps", "Use") or (loop.get("k") == "Block" and not loop.get("stmts")):
            loop = loop.get("e") or loop.get("expr")
        inner = None
        for s_ in (loop["body"].get("stmts") or []) + ([{"e": loop["body"]["expr"]}] if loop["body"].get("expr") else []):
            x = s_.get("e")
            while x is not None and x.get("k") in ("DropTemps", "Use"):
                x = x["e"]
            if x is not None and x.get("k") == "Match" and x.get("src") == "ForLoopDesugar":
                inner = x
        if inner is None:
            raise Unextractable("for loop shape")
        body = [a for a in inner["arms"] if short(a["pat"].get("res") or "") == "Some"][0]["body"]
        pre = self.run(it, st) if it is not None else [("normal", st, None)]
        n = None
        if it is not None and it.get("k") == "Struct" and (it.get("res") or it.get("path") or "").split("<")[0].endswith("Range"):
            fs = {f["name"]: peel(f["e"]) for f in it["fields"]}
            lo = lit_value(fs.get("start") or {})
            hi_e = fs.get("end") or {}
            hi = lit_value(hi_e)
            if hi is None and hi_e.get("k") == "Path":
                hi = st.consts.get(hi_e.get("res"))
            if isinstance(lo, int) and isinstance(hi, int):
                n = max(0, hi - lo)
        res = []
        for kind, s, v in pre:
            if kind != "normal":
                res.append((kind, s, v))
                continue
            if n is not None and n <= 16:
                cur = [s]
                for _ in range(n):
                    nxt = []
                    for c in cur:
                        for kd, s2, v2 in self.run(body, c):
                            if kd in ("normal", "continue"):
                                nxt.append(s2)
                            elif kd == "break":
                                res.append(("normal", s2, None))
                            else:
                                res.append((kd, s2, v2))
                    cur = [join_all(nxt)] if nxt else []
                res += [("normal", c, None) for c in cur]
            else:
                for c in walk(body):
                    pass
                res += self.loop({"k": "Block", "stmts": [{"k": "Semi", "e": body}], "expr": {"k": "If", "cond": {"k": "Lit", "lit": {"t": "bool", "v": True}}, "then": {"k": "Block", "stmts": [], "expr": None}, "else": None}}, s, check_progress=False) + [("normal", s.copy(), None)]
        return self.merge(res)

    # ------------------------------------------------------------------ calls
    def call(self, e, st):
        c = callee_of(e)
        name = short(c)
        if name in self.summaries:
            self.used_summaries.add(name)
            return self.summaries[name](self, e, st)
        f = self.F.fns.get(c)
        if not f or "hir" not in f:
            raise Unextractable(f"no body for {c}")
        if c in self.stack or len(self.stack) >= 5:
            raise Unextractable(f"recursive or too deep call of {c}")
        entry = St(know=st.know)
        params = [x.get("name") for x in f["hir"]["params"]]
        for pn, a in zip(params[1:], e["args"]):
            lv = lit_value(a)
            if isinstance(lv, int) and not isinstance(lv, bool):
                entry.consts[pn] = lv
            a_ = peel(a)
            if a_.get("k") == "Path" and a_.get("res_kind") == "Local" and a_.get("res") in st.pvars and pn:
                entry.pvars[pn] = st.pvars[a_["res"]]
        saved_fn, saved_ctx = self.fn, self.ctx
        self.stack.append(self.fn)
        self.fn, self.ctx = c, [saved_ctx[-1]] if saved_ctx else []
        try:
            outs = self.run(f["hir"]["value"], entry)
        finally:
            self.fn, self.ctx = saved_fn, saved_ctx
            self.stack.pop()
        res = []
        for kind, s, v in outs:
            if kind in ("break", "continue"):
                raise Unextractable(f"stray {kind} in {c}")
            back = St(know=s.know, vars=st.vars, consts=st.consts, moved=st.moved or s.moved)
            # variables of the caller that denoted cursor offsets are stale if the callee moved the cursor: drop them conservatively
            back.vars = {}
            # ... and so are the positions: how far the callee moved the cursor is not tracked
            back.pvars = {}
            res.append(("normal", back, v if (v and v[0] == "tag") else None))
        return self.merge(res)

    def analyse(self, path):
        f = self.F.fn(path)
        self.fn = path
        self.stack = []
        self.ctx = []
        return self.run(f["hir"]["value"], St())
