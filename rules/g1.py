"""G1 — panic-site enumeration and discharge on MIR (DESIGN.md §3 G1)."""
import re
from collections import defaultdict
from .facts import *
from .mirutil import Body, fmt, strip_casts
from .core import exempt

ARITH_KINDS = ("Overflow(", "OverflowNeg", "DivisionByZero", "RemainderByZero", "BoundsCheck")
POINTER_KINDS = ("MisalignedPointerDereference", "NullPointerDereference", "InvalidEnumConstruction", "Other")

# std callees that can panic although they carry no #[track_caller] (documented panics / inherit the caller's overflow checks)
EXPLICIT_PANICKERS = [
    (r"^alloc::string::String::(replace_range|insert_str|insert|remove|split_off|drain)$", "documented panic on a non-boundary / out-of-range index"),
    (r"^alloc::vec::Vec::<T, A>::(insert|remove|drain|swap_remove|split_off|splice)$", "documented panic on an out-of-range index"),
    (r"^core::str::<impl str>::(split_at|split_at_mut)$", "documented panic off a char boundary"),
    (r"^core::slice::<impl \[T\]>::(split_at|split_at_mut|chunks|chunks_exact|windows|swap|copy_from_slice|rotate_left|rotate_right)$", "documented panic"),
    (r"ops::index::Index(Mut)?<.*>::index(_mut)?$|<.* as core::ops::index::Index(Mut)?<.*>>::index(_mut)?$|impl core::ops::index::Index(Mut)?<", "indexing panics out of range"),
    (r"^core::ops::arith::<impl core::ops::arith::(Add|Sub|Mul|Div|Rem|Neg|AddAssign|SubAssign|MulAssign|DivAssign|RemAssign)(<.*>)? for &?'?\w*\s?(i|u)(8|16|32|64|128|size)>::", "by-reference integer arithmetic inherits the caller's overflow checks"),
    (r"^<&?(i|u)(8|16|32|64|128|size) as core::ops::(arith|bit)::(Add|Sub|Mul|Div|Rem|Neg|Shl|Shr)(Assign)?(<.*>)?>::", "by-reference integer arithmetic inherits the caller's overflow checks"),
    (r"^core::ops::bit::<impl core::ops::bit::(Shl|Shr|ShlAssign|ShrAssign)(<.*>)? for &?'?\w*\s?(i|u)(8|16|32|64|128|size)>::", "by-reference shift inherits the caller's overflow checks"),
    (r"^core::num::<impl (i|u)(8|16|32|64|128|size)>::(abs|pow|next_power_of_two|div_euclid|rem_euclid|isqrt|ilog2|ilog10|ilog|midpoint|abs_diff_checked)$", "integer helper inherits the caller's overflow checks"),
    (r"^core::num::<impl (i|u)(8|16|32|64|128|size)>::(wrapping|overflowing|checked|saturating)?_?(div|rem|div_euclid|rem_euclid)$", "division helper panics on a zero divisor (checked_* do not; kept for uniform D5 treatment)"),
    (r"^core::iter::traits::accum::<impl core::iter::traits::accum::(Sum|Product)", "integer sum/product inherits the caller's overflow checks"),
    (r"^core::iter::traits::iterator::Iterator::(step_by)$", "documented panic on step 0"),
    (r"^core::cell::RefCell::<T>::(borrow|borrow_mut|replace|swap|replace_with)$", "RefCell dynamic borrow check"),
    (r"^core::option::Option::<T>::(unwrap|expect)$|^core::result::Result::<T, E>::(unwrap|expect|unwrap_err|expect_err)$", "unwrap/expect"),
]
# std combinators that carry #[track_caller] only so that a panic *inside the closure they are given* is attributed to the caller;
# they do not panic themselves (the closure body is a body of its own and is analysed as such)
TRACK_CALLER_ONLY_FOR_CLOSURE = re.compile(r"^core::option::Option::<T>::(unwrap_or_else|map_or_else|ok_or_else|or_else|and_then|map|map_or|filter|get_or_insert_with|is_some_and|is_none_or|inspect|zip_with|then)$"
                                           r"|^core::result::Result::<T, E>::(unwrap_or_else|map_or_else|or_else|and_then|map|map_or|map_err|is_ok_and|is_err_and|inspect|inspect_err)$")
EXPLICIT_RX = [(re.compile(r), why) for r, why in EXPLICIT_PANICKERS]
PANIC_FNS = re.compile(r"^(core::panicking::|std::panicking::|core::option::(unwrap_failed|expect_failed)|core::result::unwrap_failed|std::rt::begin_panic|core::slice::index::slice_|core::str::slice_error_fail)")
NEVER_PANIC = re.compile(r"^core::panicking::panic_nounwind|^core::panicking::panic_cannot_unwind|^core::panicking::panic_in_cleanup")


def is_panicker(t):
    """(bool, reason) for a MIR call terminator."""
    c = t.get("resolved") or t.get("callee")
    if c is None:
        return False, None
    if PANIC_FNS.match(c) and not NEVER_PANIC.match(c):
        return True, "explicit panic"
    for rx, why in EXPLICIT_RX:
        if rx.search(c):
            return True, why
    if t.get("track_caller"):
        if TRACK_CALLER_ONLY_FOR_CLOSURE.match(c):
            return False, None
        return True, "#[track_caller] std function (panics on misuse)"
    return False, None


def sites_of(F, path):
    """All panic sites of one MIR body: list of dicts."""
    f = F.fns[path]
    if "mir" not in f:
        return []
    out = []
    for bi, b in enumerate(f["mir"]["blocks"]):
        if b["cleanup"]:
            continue
        t = b["term"]
        if t["k"] == "Assert":
            kind = t["kind"]
            if kind.startswith(ARITH_KINDS):
                out.append({"fn": path, "bb": bi, "what": "assert", "kind": kind, "op_tys": t["op_tys"], "sp": t["sp"], "exp": t.get("exp"), "term": t})
        elif t["k"] == "Call":
            yes, why = is_panicker(t)
            if yes:
                out.append({"fn": path, "bb": bi, "what": "call", "kind": t.get("resolved") or t.get("callee"), "why": why, "sp": t["sp"], "exp": t.get("exp"), "term": t})
    return out


# --------------------------------------------------------------------------- reachability
def entry_points(F):
    """Def-paths of the lint entry points (library + CLI)."""
    roots = []
    for p in F.fns:
        r = p
        if re.search(r"parser::parsing::RVParser::<T>::(run|parse_from_file)$", r):
            roots.append(p)
        elif re.search(r"passes::manager::Manager::(run|gen_full_cfg|run_diagnostics)$", r):
            roots.append(p)
        elif r == "rva::main":
            roots.append(p)
        elif re.search(r"riscv_analysis_lsp::.*riscv_get_diagnostics$", r):
            roots.append(p)
    return sorted(roots)


CALLBACK_TRAITS = re.compile(r"^(core::hash::Hash|core::cmp::(PartialEq|Eq|PartialOrd|Ord)|core::clone::Clone|core::fmt::(Display|Debug)|"
                             r"serde(_core)?::ser::Serialize|core::iter::traits::.*|core::default::Default|core::ops::drop::Drop|"
                             r"core::str::traits::FromStr|core::convert::(From|TryFrom|Into|AsRef)|core::borrow::Borrow|core::ops::deref::Deref(Mut)?|"
                             r"alloc::string::ToString|core::error::Error|std::error::Error)$")


def callback_edges(F):
    """Edges for trait methods of workspace types that external generic code calls back
    (Hash/Eq for set elements, Display through format_args, Serialize through serde, Iterator::next ...):
    an external callee instantiated with a workspace type T may call any trait-impl method of T."""
    by_type = defaultdict(list)
    for i in F.impls:
        if i.get("trait") and CALLBACK_TRAITS.search(i["trait"]):
            base = re.sub(r"<.*", "", i["self_ty"].lstrip("&"))
            for it in i["items"]:
                if it["path"] in F.fns:
                    by_type[base].append(it["path"])
    edges = defaultdict(set)
    tyrx = re.compile(r"(riscv_analysis(?:_cli|_lsp)?::[A-Za-z0-9_:]+|rva::[A-Za-z0-9_:]+)")
    for p, f in F.fns.items():
        m = f.get("mir")
        if not m:
            continue
        for b in m["blocks"]:
            t = b["term"]
            if t["k"] != "Call":
                continue
            c = t.get("resolved") or t.get("callee") or ""
            if c in F.fns:
                continue
            text = " ".join(t.get("gargs", []) + t.get("arg_tys", []))
            for ty in set(tyrx.findall(text)):
                for q in by_type.get(ty, ()):
                    edges[p].add(q)
    return edges


_TYRX = re.compile(r"(?:riscv_analysis(?:_cli|_lsp)?|rva)::[A-Za-z0-9_:]+")
_REACH_CACHE = {}


def _impl_self_base(F):
    """impl method path -> base path of the impl's self type (workspace types only)"""
    out = {}
    for i in F.impls:
        base = re.sub(r"<.*", "", i["self_ty"].lstrip("&").replace("mut ", ""))
        for it in i["items"]:
            out[it["path"]] = base
    return out


def reachable_bodies(F, roots=None):
    """Bodies reachable from the entry points over direct calls, CHA-expanded trait calls and callback
    edges, pruned by rapid type analysis: an impl method reached only through trait dispatch is kept
    only if its self type is mentioned by some already-reachable body (or a field of a live type)."""
    roots = roots or entry_points(F)
    ck = (id(F), tuple(roots))
    if ck in _REACH_CACHE:
        return _REACH_CACHE[ck]
    cg = F.callgraph()
    cb = callback_edges(F)
    selfbase = _impl_self_base(F)
    adt_fields = {}
    for a in F.adts.values():
        adt_fields[a["path"]] = set(_TYRX.findall(" ".join(f["ty"] for v in a["variants"] for f in v["fields"])))
    body_types = {}

    def types_of(p):
        if p not in body_types:
            f = F.fns[p]
            txt = " ".join(l["ty"] for l in f["mir"]["locals"]) if "mir" in f else ""
            body_types[p] = set(_TYRX.findall(txt))
        return body_types[p]
    seen, parent = set(), {}
    live = set()
    deferred = {}          # callee -> caller, waiting for its self type to become live
    st = list(roots)

    def add_types(ts):
        new = [t for t in ts if t not in live]
        while new:
            t = new.pop()
            if t in live:
                continue
            live.add(t)
            for u in adt_fields.get(t, ()):
                if u not in live:
                    new.append(u)
    while True:
        while st:
            p = st.pop()
            if p in seen or p not in F.fns:
                continue
            seen.add(p)
            add_types(types_of(p))
            for q in list(cg.get(p, ())) + list(cb.get(p, ())):
                if q in seen or q not in F.fns:
                    continue
                dispatch = (p, q) in F._generic_edges or q in cb.get(p, ())
                base = selfbase.get(q.split("::{closure")[0])
                if dispatch and base and base.startswith(("riscv_analysis", "rva")) and base not in live:
                    deferred.setdefault(q, p)
                    continue
                parent.setdefault(q, p)
                st.append(q)
        woke = [q for q in deferred if selfbase.get(q.split("::{closure")[0]) in live and q not in seen]
        if not woke:
            break
        for q in woke:
            parent.setdefault(q, deferred.pop(q))
            st.append(q)
    _REACH_CACHE[ck] = (seen, parent)
    return seen, parent


def path_to(parent, p, limit=6):
    out = [p]
    while p in parent and len(out) < limit:
        p = parent[p]
        out.append(p)
    return out


# --------------------------------------------------------------------------- ranges
INT_RX = re.compile(r"^(i|u)(8|16|32|64|128|size)$")


def ty_range(ty):
    m = INT_RX.match(ty or "")
    if not m:
        if ty == "bool":
            return (0, 1)
        if ty == "char":
            return (0, 0x10FFFF)
        return None
    bits = 64 if m.group(2) == "size" else int(m.group(2))
    if m.group(1) == "u":
        return (0, (1 << bits) - 1)
    return (-(1 << (bits - 1)), (1 << (bits - 1)) - 1)


def ty_bits(ty):
    m = INT_RX.match(ty or "")
    if not m:
        return None
    return 64 if m.group(2) == "size" else int(m.group(2))


class Ranges:
    """Very small interval evaluator over trace trees (sound: returns None when unsure)."""

    def __init__(self, F):
        self.F = F
        self._summ = {}

    def fn_return_range(self, path):
        """Range of a workspace fn whose every return value is an integer literal (e.g. Register::to_num)."""
        if path in self._summ:
            return self._summ[path]
        self._summ[path] = None
        f = self.F.fns.get(path)
        if not f or "hir" not in f:
            return None
        body = peel(f["hir"]["value"])
        while body.get("k") == "Block" and not body.get("stmts") and body.get("expr") is not None:
            body = peel(body["expr"])
        vals = []
        if body.get("k") == "Cast" and peel(body["e"]).get("k") == "Path" and peel(body["e"]).get("res") == "self" and f.get("param_tys"):
            # `self as <int>` on a field-less enum: the discriminants
            adt = self.F.adts.get(f["param_tys"][0].lstrip("&"))
            if adt and adt.get("kind") == "enum" and all("discr" in v and not v["fields"] for v in adt["variants"]):
                ds = [v["discr"] for v in adt["variants"]]
                self._summ[path] = (min(ds), max(ds))
                return self._summ[path]
            return None
        if body.get("k") == "Match":
            for a in body["arms"]:
                v = lit_value(a["body"])
                if not isinstance(v, int) or isinstance(v, bool):
                    return None
                vals.append(v)
        else:
            v = lit_value(body)
            if not isinstance(v, int) or isinstance(v, bool):
                return None
            vals.append(v)
        r = (min(vals), max(vals))
        self._summ[path] = r
        return r

    def rng(self, v, B=None, depth=0):
        if v is None or depth > 12:
            return None
        t = v[0]
        if t == "const":
            return (v[1], v[1])
        if t == "cast":
            inner = self.rng(v[4], B, depth + 1)
            fr, to = ty_range(v[2]), ty_range(v[3])
            if to is None:
                return None
            if inner is None:
                inner = fr
            if inner is None:
                return None
            # value-preserving only if the source interval fits the target type
            if inner[0] >= to[0] and inner[1] <= to[1]:
                return inner
            return None if (fr and fr[0] < 0 and to[0] == 0) else to if ty_bits(v[3]) and ty_bits(v[2]) and ty_bits(v[3]) < ty_bits(v[2]) else None
        if t == "call":
            c = v[1]
            m = re.match(r"^core::convert::num::<impl core::convert::From<(\w+)> for (\w+)>::from$", c) or \
                re.match(r"^<(\w+) as core::convert::From<(\w+)>>::from$", c)
            if m and v[2]:
                a, b = m.group(1), m.group(2)
                if c.startswith("<"):
                    a, b = b, a
                inner = self.rng(v[2][0], B, depth + 1) or ty_range(a)
                return inner
            r = self.fn_return_range(c)
            if r:
                return r
            return None
        if t == "bin":
            op = v[1].replace("WithOverflow", "").replace("Unchecked", "")
            a, b = self.rng(v[3], B, depth + 1), self.rng(v[4], B, depth + 1)
            tr = ty_range(v[2])
            if op == "BitAnd":
                for x in (a, b):
                    if x and x[0] == x[1] and x[0] >= 0:
                        return (0, x[0])
                return tr if tr and tr[0] == 0 else None
            if a is None or b is None:
                return tr if op in ("Rem",) and False else None
            if op == "Add":
                r = (a[0] + b[0], a[1] + b[1])
            elif op == "Sub":
                r = (a[0] - b[1], a[1] - b[0])
            elif op == "Mul":
                c = [a[0] * b[0], a[0] * b[1], a[1] * b[0], a[1] * b[1]]
                r = (min(c), max(c))
            elif op == "Shr" and b[0] >= 0 and a[0] >= 0:
                r = (a[0] >> b[1], a[1] >> b[0])
            else:
                return None
            if tr and (r[0] < tr[0] or r[1] > tr[1]):
                return None
            return r
        if t == "proj" and v[2] and v[2][-1] == "f0" and any(str(x).startswith("as:") for x in v[2]):
            # the payload of `Some(..)` / `Continue(..)`: an element picked out of a literal range
            inner = v[1]
            if inner[0] == "call" and inner[1].endswith("Try>::branch") and inner[2]:
                inner = inner[2][0]
            if inner[0] == "call" and re.search(r"Iterator::(find|min|max|next|last|nth|find_map)$|DoubleEndedIterator::(next_back|rfind)$", inner[1]) and inner[2]:
                return self.range_elem(inner[2][0], B, depth + 1)
            return None
        if t == "proj" and v[2] == ("*",):
            return self.rng(v[1], B, depth + 1)
        if t == "param" and B is not None and "::{closure#" in (getattr(B, "path", "") or "") and v[1] >= 2:
            r = self.closure_param_range(B.path, v[1])
            if r:
                return r
        if t in ("param", "local"):
            ty = None
            if B is not None:
                ty = B.ty(v[1])
                if t == "local":
                    ds = B.defs.get(v[1], [])
                    vals = []
                    for bi, si, st in ds:
                        if st["k"] == "Assign" and not st["place"]["p"] and st["rv"]["k"] == "Use" and st["rv"]["op"]["k"] == "const" and "int" in st["rv"]["op"]:
                            vals.append(st["rv"]["op"]["int"])
                        elif st["k"] == "Assign" and not st["place"]["p"] and st["rv"]["k"] == "Cast" and st["rv"]["op"]["k"] == "const" and "int" in st["rv"]["op"]:
                            vals.append(st["rv"]["op"]["int"])
                        else:
                            vals = None
                            break
                    if vals:
                        return (min(vals), max(vals))
            return ty_range(ty) if ty in ("u8", "bool") else None
        return None


def _range_elem(self, v, B, depth=0):
    """interval of the elements of `lo..hi` written as a range aggregate (through `&`, `&mut`, by_ref)"""
    while v and v[0] == "ref":
        v = v[1]
    if not v or v[0] != "agg" or not str(v[1]).endswith("ops::range::Range") or len(v[3]) != 2:
        return None
    lo, hi = self.rng(v[3][0], B, depth + 1), self.rng(v[3][1], B, depth + 1)
    if hi is None:
        return None
    lo_ = lo[0] if lo else 0
    if lo is None:
        # an unknown start of an unsigned cursor: at least 0
        return (0, hi[1] - 1)
    return (lo_, hi[1] - 1)


def _closure_param_range(self, path, index):
    """interval of parameter #index of a closure that is only ever applied by an iterator adaptor to the elements of a literal range"""
    key = (path, index)
    if key in self._summ:
        return self._summ[key]
    self._summ[key] = None
    parent = re.sub(r"::\{closure#\d+\}$", "", path)
    f = self.F.fns.get(parent)
    if not f or "mir" not in f or index != 2:
        return None
    from .mirutil import Body
    B = Body(f)
    found = []
    for bi, b in enumerate(B.blocks):
        t = b["term"]
        if t["k"] != "Call" or not t.get("args"):
            continue
        trs = [B.trace(a) for a in t["args"]]
        if not any(tr and tr[0] == "agg" and tr[1] == path for tr in trs):
            continue
        c = t.get("resolved") or t.get("callee") or ""
        if not re.search(r"Iterator::(find|any|all|position|filter|map|for_each|filter_map|take_while|skip_while|find_map|inspect)$", c):
            return None
        found.append(self.range_elem(trs[0], B))
    if not found or any(r is None for r in found):
        return None
    r = (min(x[0] for x in found), max(x[1] for x in found))
    self._summ[key] = r
    return r


Ranges.range_elem = _range_elem
Ranges.closure_param_range = _closure_param_range


def same_value(a, b):
    """two trace trees denote the same storage / value (syntactic equality modulo same-width casts)"""
    def norm(v):
        while v and v[0] == "cast" and ty_bits(v[2]) == ty_bits(v[3]):
            v = v[4]
        return v
    return norm(a) == norm(b)


# --------------------------------------------------------------------------- guards (dominating switch edges)
def edge_guards(B, bb):
    """Conditions known on entry to block bb from dominating SwitchInt edges:
    list of (traced discriminant, kind, value) where kind in ('eq','ne') meaning discr == value / != value."""
    out = []
    cur = bb
    chain = [bb] + B.dom_chain(bb)
    for i in range(len(chain) - 1):
        child, dom = chain[i], chain[i + 1]
        t = B.blocks[dom]["term"]
        if t["k"] != "SwitchInt":
            continue
        # which edge(s) of dom lead to `child`?  child must be a direct successor with dom as its only predecessor
        if B.pred[child] != [dom] and set(B.pred[child]) != {dom}:
            continue
        d = B.trace(t["discr"])
        hits = [v for v, tb in t["targets"] if tb == child]
        if t["otherwise"] == child and not hits:
            for v, tb in t["targets"]:
                out.append((d, "ne", v, (dom, child)))
        elif len(hits) == 1 and t["otherwise"] != child:
            out.append((d, "eq", hits[0], (dom, child)))
    return out


def implied_facts(guards):
    """Expand guards on comparison results into facts on the compared values:
    ('ne', X, c) / ('eq', X, c) / ('lt', X, c) / ('ge', X, c) ..."""
    facts = []
    for d, kind, val, dom in guards:
        d0 = d
        truth = None
        if d[0] == "bin" and d[1] in ("Eq", "Ne", "Lt", "Le", "Gt", "Ge"):
            # discr is a bool: value 0 = false
            if kind == "eq":
                truth = (val != 0)
            elif kind == "ne" and val == 0:
                truth = True
            elif kind == "ne" and val == 1:
                truth = False
            if truth is None:
                continue
            op, a, b = d[1], d[3], d[4]
            if not truth:
                op = {"Eq": "Ne", "Ne": "Eq", "Lt": "Ge", "Ge": "Lt", "Le": "Gt", "Gt": "Le"}[op]
            if b[0] == "const":
                facts.append((op.lower(), a, b[1], dom))
            elif a[0] == "const":
                flip = {"Eq": "Eq", "Ne": "Ne", "Lt": "Gt", "Gt": "Lt", "Le": "Ge", "Ge": "Le"}[op]
                facts.append((flip.lower(), b, a[1], dom))
        else:
            facts.append((kind, d, val, dom))
    return facts


def writes_between(B, dom, site_bb, place_trace):
    """Is the storage denoted by place_trace possibly written on a path dom -> site_bb?
    Conservative: any Assign to a place with the same base param/local and projection, or any call
    that receives the base local by mutable reference, in a block reachable from dom that reaches site_bb."""
    base = place_trace
    proj = ()
    if base[0] == "proj":
        proj = base[2]
        base = base[1]
    if base[0] not in ("param", "local"):
        return False
    l = base[1]
    dom, child = dom
    fwd = B.reachable_from(child, avoid={dom})
    region = {b for b in fwd if site_bb in B.reachable_from(b, avoid={dom})}
    for b in region:
        for s in B.blocks[b]["stmts"]:
            if s["k"] == "Assign" and s["place"]["l"] == l:
                p = tuple(s["place"]["p"])
                if p[:len(proj)] == proj or proj[:len(p)] == p:
                    # the defining statement of the traced temp itself does not count
                    return True
        if b == site_bb:
            continue
        t = B.blocks[b]["term"]
        if t["k"] == "Call" and b != dom:
            for a in t["args"]:
                if a["k"] in ("copy", "move") and a["place"]["l"] == l and not a["place"]["p"] and B.ty(l).startswith("&mut"):
                    return True
    return False


# --------------------------------------------------------------------------- discharge

def radix_accumulations(F, fn_path):
    """D6: bounded positional accumulation. Finds, in the HIR of `fn_path`, accumulators that start at literal 0 and are
    only ever updated as `acc = acc * R + d` with `d` a digit below R (`char::to_digit(R')`, R' <= R), once per element of a
    collection whose length N is written in the source (array literal / vec! of N expressions). Then acc <= R^N - 1 at every
    point. Both spellings are understood: a `for` loop with `acc *= R; acc += d`, and `fold`/`try_fold` with a closure
    `|acc, x| acc * R + d`. -> {span of an arithmetic node: (bound, description)}"""
    from .facts import walk, peel, lit_value, for_loops, short
    parent = re.sub(r"(::\{closure#\d+\})+$", "", fn_path)
    f = F.fns.get(parent)
    if not f or "hir" not in f:
        return {}
    body = f["hir"]["value"]
    lets = {}
    for s_ in walk(body, pats=False):
        if s_.get("k") == "Let" and s_["pat"].get("k") == "PBinding":
            lets[(s_["pat"]["name"], s_["pat"].get("lid"))] = s_

    def let_of(path_node):
        for (nm, lid), st in lets.items():
            if nm == path_node.get("res") and (path_node.get("lid") is None or lid is None or lid == path_node.get("lid")):
                return st
        return None

    def static_len(e, depth=0):
        e = peel(e)
        if depth > 6:
            return None
        if e.get("k") == "Array":
            return len(e["elems"])
        if e.get("k") == "Path" and e.get("res_kind") == "Local":
            st = let_of(e)
            if st is not None and st.get("init") is not None and "mut" not in (st["pat"].get("mode") or "").lower().replace("not", ""):
                return static_len(st["init"], depth + 1)
            return None
        if e.get("k") == "MethodCall" and e["name"] in ("iter", "into_iter", "copied", "cloned", "by_ref", "chars_unused"):
            return static_len(e["recv"], depth + 1)
        if e.get("k") == "Call":
            # vec![a, b, c, d] expands to a chain of box/into_vec calls around one array literal
            fn_name = short((e["f"].get("res") or "")) if isinstance(e.get("f"), dict) else ""
            if fn_name in ("into_vec", "box_assume_init_into_vec_unsafe", "write_box_via_move", "new", "into_iter", "from"):
                arrs = [static_len(a, depth + 1) for a in e.get("args", [])]
                arrs = [a for a in arrs if a is not None]
                if len(arrs) == 1:
                    return arrs[0]
        return None

    def digit_radix(e, binders):
        """radix R' if e is a digit in [0, R'): `x.to_digit(R')` unwrapped by `?`, or a local bound by `Some(d)` over it"""
        e = peel(e)
        if e.get("k") == "Match" and e.get("src") == "TryDesugar":
            inner = e["scrut"]["args"][0] if e["scrut"].get("k") == "Call" and e["scrut"].get("args") else None
            if inner is not None:
                inner = peel(inner)
                if inner.get("k") == "MethodCall" and inner["name"] == "to_digit":
                    return lit_value(inner["args"][0])
        if e.get("k") == "Path" and e.get("res_kind") == "Local":
            return binders.get((e["res"], e.get("lid")))
        return None

    # locals bound by `Some(d)` against `x.to_digit(R')`
    binders = {}
    for m in walk(body, pats=False):
        scrut, pats_ = None, []
        if m.get("k") == "Match" and m.get("src") != "TryDesugar":
            scrut, pats_ = m["scrut"], [a["pat"] for a in m["arms"]]
        elif m.get("k") == "LetExpr":
            scrut, pats_ = m["init"], [m["pat"]]
        elif m.get("k") == "Let" and m.get("els") is not None and m.get("init") is not None:
            scrut, pats_ = m["init"], [m["pat"]]
        if scrut is None:
            continue
        sc = peel(scrut)
        if sc.get("k") == "MethodCall" and sc["name"] == "to_digit":
            r_ = lit_value(sc["args"][0])
            for p_ in pats_:
                if short(p_.get("res") or "") == "Some":
                    for b in walk(p_):
                        if b.get("k") == "PBinding":
                            binders[(b["name"], b.get("lid"))] = r_

    # ... or by the parameter of a closure applied to it: `x.to_digit(R').map(|d| ..)`
    for m in walk(body, pats=False):
        if m.get("k") == "MethodCall" and m["name"] in ("map", "and_then", "map_or", "is_some_and") and m.get("args"):
            rc = peel(m["recv"])
            if rc.get("k") == "MethodCall" and rc["name"] == "to_digit" and rc["args"]:
                r_ = lit_value(rc["args"][0])
                cl_ = peel(m["args"][-1])
                if cl_.get("k") == "Closure" and len(cl_.get("params", [])) == 1:
                    for b in walk(cl_["params"][0]):
                        if b.get("k") == "PBinding":
                            binders[(b["name"], b.get("lid"))] = r_
    # ... or by `let d = x.to_digit(R')?;`
    for st in walk(body, pats=False):
        if st.get("k") == "Let" and st["pat"].get("k") == "PBinding" and st.get("init") is not None and st.get("els") is None:
            i_ = peel(st["init"])
            if i_.get("k") == "Match" and i_.get("src") == "TryDesugar" and i_["scrut"].get("k") == "Call" and i_["scrut"].get("args"):
                inner = peel(i_["scrut"]["args"][0])
                if inner.get("k") == "MethodCall" and inner["name"] == "to_digit" and inner["args"]:
                    binders[(st["pat"]["name"], st["pat"].get("lid"))] = lit_value(inner["args"][0])

    out = {}

    def is_local(e, name, lid):
        e = peel(e)
        return e.get("k") == "Path" and e.get("res_kind") == "Local" and e.get("res") == name and (lid is None or e.get("lid") is None or e.get("lid") == lid)

    # spelling 1: for loop
    for fl in for_loops(body):
        n_ = static_len(fl["iter"])
        if n_ is None:
            continue
        muls = [a for a in walk(fl["body"], pats=False) if a.get("k") == "AssignOp" and a["op"] == "MulAssign"]
        for mu in muls:
            acc = peel(mu["l"])
            if acc.get("k") != "Path" or acc.get("res_kind") != "Local":
                continue
            nm, lid = acc["res"], acc.get("lid")
            st = let_of(acc)
            if st is None or lit_value(st.get("init") or {}) != 0:
                continue
            radix = lit_value(mu["r"])
            if not isinstance(radix, int) or radix < 2:
                continue
            writes = [a for a in walk(body, pats=False) if a.get("k") in ("Assign", "AssignOp") and is_local(a["l"], nm, lid)]
            inside = {id(a) for a in walk(fl["body"], pats=False)}
            shape_ok = all(id(a) in inside for a in writes)
            n_mul = n_add = 0
            for a in writes:
                if a.get("k") == "AssignOp" and a["op"] == "MulAssign" and lit_value(a["r"]) == radix:
                    n_mul += 1
                elif a.get("k") == "AssignOp" and a["op"] == "AddAssign" and isinstance(digit_radix(a["r"], binders), int) and digit_radix(a["r"], binders) <= radix:
                    n_add += 1
                else:
                    shape_ok = False
            # nested loops inside the body would multiply the count
            nested = [x for x in walk(fl["body"], pats=False) if x.get("k") == "Loop"]
            if shape_ok and n_mul == 1 and n_add == 1 and not nested:
                bound = radix ** n_ - 1
                for a in writes:
                    out[a["sp"]] = (bound, f"`{nm}` starts at 0 and takes one base-{radix} digit per element of a {n_}-element literal collection: at most {radix}^{n_}-1 = {bound}")

    # spelling 2: fold / try_fold
    for m in walk(body, pats=False):
        if m.get("k") != "MethodCall" or m["name"] not in ("fold", "try_fold") or len(m.get("args", [])) != 2:
            continue
        n_ = static_len(m["recv"])
        if n_ is None or lit_value(m["args"][0]) != 0:
            continue
        cl = peel(m["args"][1])
        if cl.get("k") != "Closure" or len(cl.get("params", [])) != 2 or cl["params"][0].get("k") != "PBinding":
            continue
        nm, lid = cl["params"][0]["name"], cl["params"][0].get("lid")
        ariths = [b for b in walk(cl["body"], pats=False) if b.get("k") in ("Binary", "AssignOp", "Assign") and b.get("op") not in ("Eq", "Ne", "Lt", "Le", "Gt", "Ge", "And", "Or")]
        adds = [b for b in ariths if b.get("k") == "Binary" and b["op"] == "Add"]
        if len(ariths) != 2 or len(adds) != 1:
            continue
        add = adds[0]
        for mul_side, dig_side in ((add["a"], add["b"]), (add["b"], add["a"])):
            mu = peel(mul_side)
            if mu.get("k") == "Binary" and mu["op"] == "Mul":
                for a_, r_ in ((mu["a"], mu["b"]), (mu["b"], mu["a"])):
                    radix = lit_value(r_)
                    dr = digit_radix(dig_side, binders)
                    if is_local(a_, nm, lid) and isinstance(radix, int) and radix >= 2 and isinstance(dr, int) and dr <= radix:
                        bound = radix ** n_ - 1
                        d_ = f"the fold starts at 0 and takes one base-{radix} digit per element of a {n_}-element literal collection: at most {radix}^{n_}-1 = {bound}"
                        out[add["sp"]] = (bound, d_)
                        out[mu["sp"]] = (bound, d_)
    return out


class Discharger:
    def __init__(self, F):
        self.F = F
        self.R = Ranges(F)
        self._bodies = {}

    def body(self, path):
        if path not in self._bodies:
            self._bodies[path] = Body(self.F.fns[path])
        return self._bodies[path]

    # payloads that are non-empty by construction, with the rule that checks the construction sites
    NONEMPTY_PAYLOADS = {"LabelsNotDefined": "C16.c.labels-construction-guard"}

    def nonempty_source(self, B, v, fn, depth=0):
        """is the collection value `v` the payload of a variant that is only ever built from a non-empty collection - directly, or as a parameter that every caller fills with such a payload?"""
        while v and v[0] in ("ref", "proj") and (v[0] == "ref" or all(x == "*" for x in v[2])):
            v = v[1]
        if not v or depth > 3:
            return None
        if v[0] == "proj":
            for x in v[2]:
                m = re.match(r"as:(\w+):\d+$", str(x))
                if m and m.group(1) in self.NONEMPTY_PAYLOADS and v[2][-1] == "f0":
                    return f"the payload of {m.group(1)}, which is only built from a non-empty set ({self.NONEMPTY_PAYLOADS[m.group(1)]})"
            return None
        if v[0] == "param":
            cs = self.F.callers_of(fn)
            if not cs or (self.F.fns[fn].get("vis") or "") == "Public":
                return None
            whys = set()
            for caller, bi, t in cs:
                if caller not in self.F.fns or "mir" not in self.F.fns[caller] or v[1] - 1 >= len(t["args"]):
                    return None
                Bc = self.body(caller)
                w = self.nonempty_source(Bc, Bc.trace(t["args"][v[1] - 1]), caller, depth + 1)
                if not w:
                    return None
                whys.add(w)
            return f"parameter `{v[2]}`: at each of the {len(cs)} call sites it is " + "; ".join(sorted(whys))
        return None

    def first_of_nonempty(self, B, v, fn):
        """`X.iter().min()` / `.max()` / `.next()` / `.last()` of a collection that cannot be empty is Some"""
        if not v or v[0] != "call" or not re.search(r"Iterator::(min|max|next|last)$", v[1]) or not v[2]:
            return None
        it = v[2][0]
        while it and it[0] == "ref":
            it = it[1]
        if not it or it[0] != "call" or not re.search(r"::(iter|into_iter)$", it[1]) or not it[2]:
            return None
        src = self.nonempty_source(B, it[2][0], fn)
        return f"{v[1].rsplit('::', 1)[-1]}() over {src}" if src else None

    def arg_ranges_at_callers(self, path, param_index):
        """Union of the ranges of argument #param_index over every call site of `path` (None if unknown)."""
        lo = hi = None
        cs = self.F.callers_of(path)
        if not cs:
            return None
        for caller, bi, t in cs:
            if caller not in self.F.fns or "mir" not in self.F.fns[caller]:
                return None
            Bc = self.body(caller)
            if param_index - 1 >= len(t["args"]):
                return None
            r = self.R.rng(Bc.trace(t["args"][param_index - 1]), Bc)
            if r is None:
                return None
            lo = r[0] if lo is None else min(lo, r[0])
            hi = r[1] if hi is None else max(hi, r[1])
        return (lo, hi)

    def is_counter(self, B, l):
        """local whose every definition is a constant or `self + small constant`"""
        ds = B.defs.get(l, [])
        if not ds:
            return False
        for bi, si, st in ds:
            if st["k"] != "Assign" or st["place"]["p"]:
                return False
            rv = st["rv"]
            if rv["k"] == "Use" and rv["op"]["k"] == "const":
                continue
            if rv["k"] == "Use" and rv["op"]["k"] in ("move", "copy"):
                v = B.trace(rv["op"])
                if v[0] == "bin" and v[1].startswith("Add") and any(x == ("local", l, B.local_name(l), B.ty(l)) for x in (v[3], v[4])) and any(x[0] == "const" and 0 <= x[1] <= 16 for x in (v[3], v[4])):
                    continue
                return False
            return False
        return True

    def provenance_ok(self, v, depth=0):
        """D1 provenance: the value is a counter / length / index — not derived from a parsed literal,
        a multiplication, a shift or a widening of a signed value."""
        if v is None or depth > 20:
            return False
        t = v[0]
        if t in ("param", "local", "const"):
            return True
        if t == "proj":
            return self.provenance_ok(v[1], depth + 1)
        if t == "ref":
            return self.provenance_ok(v[1], depth + 1)
        if t == "cast":
            return ty_range(v[2]) is not None and ty_range(v[2])[0] >= 0 and self.provenance_ok(v[4], depth + 1)
        if t == "bin":
            op = v[1].replace("WithOverflow", "")
            if op in ("Add", "Sub"):
                return self.provenance_ok(v[3], depth + 1) and self.provenance_ok(v[4], depth + 1)
            return False
        if t == "call":
            c = v[1]
            if re.search(r"::(len|count|position|zero_idx_line|zero_idx_column|one_idx_line|one_idx_column|raw_index|chars|min|max)$", c):
                return True
            if c in self.F.fns and self.F.fns[c].get("ret_ty") == "usize":
                return True
            return False
        return False

    def discharge(self, s):
        """(rule id, explanation) if the site provably cannot panic, else None."""
        B = self.body(s["fn"])
        t = s["term"]
        bb = s["bb"]
        fexp = self.F.fns[s["fn"]].get("exp") or ""
        sexp = s.get("exp") or ""
        if s["what"] == "assert":
            kind = s["kind"]
            ops = [B.trace(o) for o in t["ops"]]
            tys = s["op_tys"]
            facts = implied_facts(edge_guards(B, bb))
            if kind.startswith("Overflow("):
                op = kind[9:-1]
                tr = ty_range(tys[0])
                if op in ("Add", "Mul") and tr:
                    acc_ = radix_accumulations(self.F, s["fn"]).get(s["sp"])
                    if acc_ and acc_[0] <= tr[1]:
                        return "D6", acc_[1] + f", fits {tys[0]}"
                ra, rb = self.R.rng(ops[0], B), self.R.rng(ops[1], B)
                # interprocedural: operand is a parameter whose every caller passes a small constant
                for i in (0, 1):
                    if (ra, rb)[i] is None and ops[i][0] == "param":
                        r = self.arg_ranges_at_callers(s["fn"], ops[i][1])
                        if r:
                            if i == 0:
                                ra = r
                            else:
                                rb = r
                if op in ("Shl", "Shr"):
                    bits = ty_bits(tys[0])
                    if rb and bits and 0 <= rb[0] and rb[1] < bits:
                        return "D3", f"shift amount in [{rb[0]},{rb[1]}] < {bits}"
                    return None
                if ra and rb and tr:
                    if op == "Add":
                        r = (ra[0] + rb[0], ra[1] + rb[1])
                    elif op == "Sub":
                        r = (ra[0] - rb[1], ra[1] - rb[0])
                    elif op == "Mul":
                        c = [ra[0] * rb[0], ra[0] * rb[1], ra[1] * rb[0], ra[1] * rb[1]]
                        r = (min(c), max(c))
                    else:
                        r = None
                    if r and tr[0] <= r[0] and r[1] <= tr[1]:
                        return ("D4" if op == "Mul" else "D0"), f"operand ranges {ra} {op} {rb} fit {tys[0]}"
                # guards: x < c  before  x + k
                if op == "Add" and tr:
                    for i in (0, 1):
                        x, k = ops[i], (ra, rb)[1 - i]
                        if k and k[0] == k[1]:
                            for f_op, fx, fc, dom in facts:
                                if f_op in ("lt", "le") and same_value(fx, x) and not writes_between(B, dom, bb, fx):
                                    top = fc - 1 if f_op == "lt" else fc
                                    if top + k[1] <= tr[1]:
                                        return "D2", f"dominated by guard `{fmt(fx)} {'<' if f_op == 'lt' else '<='} {fc}`"
                if op == "Sub" and tr and tr[0] == 0 and rb and rb[0] == rb[1]:
                    c = rb[0]
                    for f_op, fx, fc, dom in facts:
                        okk = (f_op == "ne" and fc == 0 and c == 1) or (f_op == "ge" and fc >= c) or (f_op == "gt" and fc + 1 >= c)
                        if okk and same_value(fx, ops[0]) and not writes_between(B, dom, bb, fx):
                            return "D2", f"dominated by guard `{fmt(fx)} {f_op} {fc}`"
                if op == "Add" and ty_bits(tys[0]) and ty_bits(tys[0]) >= 32:
                    for i in (0, 1):
                        k = (ra, rb)[1 - i]
                        if k and 0 <= k[0] and k[1] <= 16 and ops[i][0] == "local" and self.is_counter(B, ops[i][1]):
                            return "D1", f"`{fmt(ops[i])}` is an iteration counter (starts at a constant, only incremented by constants): bounded by the number of in-memory items"
                if op == "Add" and tys[0] in ("usize", "u64"):
                    for i in (0, 1):
                        k = (ra, rb)[1 - i]
                        if k and 0 <= k[0] and k[1] <= 16 and self.provenance_ok(ops[i]):
                            return "D1", f"`{fmt(ops[i])}` is a counter/length (bounded by allocated input size) + constant <= 16"
                return None
            if kind in ("DivisionByZero", "RemainderByZero"):
                cnd = B.trace(t["cond"])
                d = cnd[3] if cnd[0] == "bin" and cnd[1] == "Eq" else ops[0]
                for f_op, fx, fc, dom in facts:
                    if f_op == "ne" and fc == 0 and same_value(fx, d):
                        return "D5", f"dominated by `{fmt(fx)} != 0`"
                r = self.R.rng(d, B)
                if r and (r[0] > 0 or r[1] < 0):
                    return "D5", f"divisor range {r} excludes 0"
                return None
            if kind == "OverflowNeg":
                r = self.R.rng(ops[0], B)
                tr = ty_range(tys[0])
                if r and tr and r[0] > tr[0]:
                    return "D0", f"operand range {r} excludes MIN"
                return None
            if kind == "BoundsCheck":
                ri, rl = self.R.rng(ops[1], B), self.R.rng(ops[0], B)
                if ri and rl and 0 <= ri[0] and ri[1] < rl[0]:
                    return "D0", "index range below the length"
                return None
            return None
        # calls
        c = s["kind"]
        if re.search(r"Option::<T>::(unwrap|expect)$", c) and t.get("args"):
            why = self.first_of_nonempty(B, B.trace(t["args"][0]), s["fn"])
            if why:
                return "D7", why
        m_ = re.match(r"^<([iu]\d+) as core::ops::bit::Sh[lr]<&?&?([iu]\d+)>>::sh[lr]$", c)
        if m_ and len(t.get("args", [])) == 2:
            # `1 << *n` written through the operator trait (the amount is a reference): same condition as the built-in shift
            bits = ty_bits(m_.group(1))
            rb = self.R.rng(B.trace(t["args"][1]), B)
            if rb and bits and 0 <= rb[0] and rb[1] < bits:
                return "D3", f"shift amount in [{rb[0]},{rb[1]}] < {bits}"
            return None
        if re.search(r"<impl (i|u)\d+>::(checked)_(div|rem)", c):
            return "D5", "checked division returns None on a zero divisor"
        if re.search(r"<impl (i|u)\d+>::(wrapping|overflowing|saturating)?_?(div|rem|div_euclid|rem_euclid)$", c) and len(t["args"]) == 2:
            d = B.trace(t["args"][1])
            for f_op, fx, fc, dom in implied_facts(edge_guards(B, bb)):
                if f_op == "ne" and fc == 0 and same_value(fx, d):
                    return "D5", f"dominated by `{fmt(fx)} != 0`"
            r = self.R.rng(d, B)
            if r and (r[0] > 0 or r[1] < 0):
                return "D5", f"divisor range {r} excludes 0"
            return None
        if re.search(r"<impl (i|u)\d+>::abs$", c):
            B = self.body(s["fn"])
            r = self.R.rng(B.trace(t["args"][0]), B)
            tr = ty_range(t["arg_tys"][0])
            if r and tr and r[0] > tr[0]:
                return "D0", "argument range excludes MIN"
        return None
