"""Self-test of the checker (thorough tier): seeded-defect patches must be reported with the named key,
benign refactors must stay silent.  Patches are applied to scratch copies of /repo under mktemp."""
import glob, json, os, re, shutil, subprocess, sys, tempfile, time
from . import factbase, core
from .facts import Facts

VERIF = os.path.dirname(os.path.dirname(os.path.abspath(__file__)))


def header(path):
    meta = os.path.join(os.path.dirname(path), "meta.json")
    if os.path.basename(path) == "patch.diff" and os.path.exists(meta):
        m = json.load(open(meta))
        return "expect", [(p, s) for p, s in m.get("expect", [])]
    first = open(path).readline().strip()
    m = re.match(r"#\s*(expect|benign):\s*(.*)$", first)
    if not m:
        raise SystemExit(f"{path}: first line must be `# expect: PROP key-substring ; ...` or `# benign: PROP ...`")
    kind, rest = m.group(1), m.group(2)
    if kind == "expect":
        exps = []
        for part in rest.split(";"):
            part = part.strip()
            if part:
                prop, sub = part.split(None, 1)
                exps.append((prop, sub.strip()))
        return kind, exps
    return kind, rest.split()


def run_patch(path, baseline):
    kind, spec = header(path)
    d = tempfile.mkdtemp(prefix="vselftest.")
    try:
        subprocess.check_call(["rsync", "-a", "--exclude", "target", "--exclude", ".git", factbase.REPO + "/", d + "/"])
        p = subprocess.run(["patch", "-p1", "-s", "-d", d, "-i", os.path.abspath(path)], capture_output=True, text=True)
        if p.returncode != 0:
            return False, f"patch does not apply: {p.stdout[-300:]}{p.stderr[-300:]}"
        try:
            fd, info = factbase.build("default", repo=d)
        except SystemExit as ex:
            return False, f"patched tree does not compile: {ex}"
        F = Facts(factbase.load(fd), info)
        props = sorted({pr for pr, _ in spec}) if kind == "expect" else spec
        msgs = []
        ok = True
        for prop in props:
            R = core.run_property(prop, F, "quick")
            keys = {v["key"] for v in R.violations}
            new = keys - baseline.get(prop, set())
            if kind == "expect":
                for pr, sub in spec:
                    if pr != prop:
                        continue
                    hit = [k for k in new if sub in k]
                    if hit:
                        msgs.append(f"{prop}: reported {hit[0][:110]}")
                    else:
                        ok = False
                        msgs.append(f"{prop}: MISSED `{sub}` (new keys: {sorted(new)[:4]})")
            else:
                if new:
                    ok = False
                    msgs.append(f"{prop}: FALSE ALARM {sorted(new)[:3]}")
                else:
                    msgs.append(f"{prop}: silent")
        return ok, "; ".join(msgs)
    finally:
        shutil.rmtree(d, ignore_errors=True)


def baseline_keys(props):
    fd, info = factbase.build("default")
    F = Facts(factbase.load(fd), info)
    out = {}
    for prop in props:
        R = core.run_property(prop, F, "quick")
        out[prop] = {v["key"] for v in R.violations}
    return out


def patches_for(prop=None):
    out = []
    for path in sorted(glob.glob(os.path.join(VERIF, "selftest", "seeded", "*.diff")) + glob.glob(os.path.join(VERIF, "selftest", "benign", "*.diff"))
                       + glob.glob(os.path.join(VERIF, "seeded", "*", "patch.diff"))):
        kind, spec = header(path)
        props = {pr for pr, _ in spec} if kind == "expect" else set(spec)
        if prop is None or prop in props:
            out.append(path)
    return out


def run(prop=None, verbose=True):
    os.environ.setdefault("VERIF_TARGET_TAG", "-selftest")   # own target dir: does not disturb concurrent checks
    paths = patches_for(prop)
    allprops = set()
    for p in paths:
        kind, spec = header(p)
        allprops |= ({pr for pr, _ in spec} if kind == "expect" else set(spec))
    base = baseline_keys(sorted(allprops))
    results = []
    for p in paths:
        t = time.time()
        ok, msg = run_patch(p, base)
        results.append({"patch": os.path.relpath(p, VERIF), "ok": ok, "detail": msg, "s": round(time.time() - t, 1)})
        if verbose:
            print(("PASS " if ok else "FAIL ") + os.path.relpath(p, VERIF) + " :: " + msg[:300])
    return results


def main(a):
    res = run(None)
    bad = [r for r in res if not r["ok"]]
    print(f"selftest: {len(res) - len(bad)}/{len(res)} patches behaved as expected")
    json.dump(res, open(os.path.join(VERIF, "selftest", "last_run.json"), "w"), indent=1)
    return 1 if bad else 0
