"""C11.l: an interrupt-vector installation makes its label a function."""
from .facts import *
from .core import rule, Anchor

UTVEC = 0x005   # RISC-V N extension / RARS: utvec, the user trap-vector base address CSR


@rule("C11", "C11.l.vector-installations-name-functions", floor=5)
def c11l(F, R):
    """"or an interrupt-vector installation names it": the label written into utvec reaches the second CFG construction as a call name - (1) the vector test
    is `csr == 0x005`, (2) every node is asked, and the label of an `Address` value written to the vector is put into the set that is handed back,
    (3) both CSR write forms are seen (`csrrw` with the known value of its source register, `csrrwi`), (4) the pipeline hands that set to the graph
    construction, which adds it to the call names"""
    from .p_parse import parent_map
    CSRIMM = "riscv_analysis::parser::imm::CsrImm"
    # (1)
    iv = [q for q in F.fns if q.endswith("::is_interrupt_vector") and "hir" in F.fns[q]]
    if len(iv) != 1:
        raise Anchor(f"is_interrupt_vector: {len(iv)} candidates")
    b = peel(F.fn(iv[0])["hir"]["value"])
    while b.get("k") == "Block" and not b.get("stmts") and b.get("expr") is not None:
        b = peel(b["expr"])
    nums = [lit_value(x) for x in walk(b, pats=False) if isinstance(lit_value(x), int) and not isinstance(lit_value(x), bool)]
    if b.get("k") == "Binary" and b["op"] == "Eq" and nums == [UTVEC] and any(m.get("k") == "MethodCall" and m["name"] == "value" for m in walk(b, pats=False)):
        R.ok("vector-csr", detail=f"is_interrupt_vector: value() == {UTVEC:#05x} (utvec)", where=F.fn(iv[0])["sp"])
    else:
        R.bad("vector-csr", f"is_interrupt_vector is `{ekey(b)[:60]}`, not `value() == {UTVEC:#05x}` (utvec): an installation of a handler is not seen, or a write to another CSR is taken for one", F.fn(iv[0])["sp"])
    # (2)
    gn = [q for q in F.fns if q.endswith("::get_names_of_interrupt_handler_functions") and "hir" in F.fns[q]]
    if len(gn) != 1:
        raise Anchor(f"get_names_of_interrupt_handler_functions: {len(gn)} candidates")
    g = F.fn(gn[0])
    body = g["hir"]["value"]
    pm = parent_map(body)
    ret = peel(body.get("expr") or {})
    loops = list(for_loops(body))
    over_all = [lp for lp in loops if ekey(lp["iter"]).lstrip("&*") in ("self", "self.iter()", "self.nodes") or ekey(lp["iter"]).lstrip("&*").startswith("self")]
    good = None
    why = "no label is put into the set that is handed back"
    for m in walk(body, pats=False):
        if m.get("k") == "MethodCall" and m["name"] == "insert" and ret.get("k") == "Path" and ekey(m["recv"]).lstrip("&*") == ret.get("res"):
            if not any(any(y is m for y in walk(lp["body"], pats=False)) for lp in over_all):
                why = "the insertion is not inside a loop over every node of the graph"
                continue
            lab = peel(m["args"][0])
            while lab.get("k") == "MethodCall" and lab["name"] in ("clone",):
                lab = peel(lab["recv"])
            # the label comes out of `AvailableValue::Address(label)` of sets_csr_to_value()
            bound = False
            csrs = set()
            up = m
            while id(up) in pm:
                up = pm[id(up)]
                c = peel(up.get("cond") or {}) if up.get("k") == "If" else {}
                if c.get("k") == "LetExpr" and any(y.get("k") == "MethodCall" and y["name"] == "sets_csr_to_value" for y in walk(c["init"], pats=False)):
                    for p_ in walk(c["pat"]):
                        if p_.get("k") == "PTupleStruct" and (p_.get("res") or "").endswith("AvailableValue::Address") and any(b_.get("k") == "PBinding" and b_["name"] == lab.get("res") for b_ in walk(p_)):
                            bound = True
                    if c["pat"].get("k") == "PTupleStruct" and c["pat"].get("pats"):
                        tp = c["pat"]["pats"][0]
                        if tp.get("k") == "PTuple" and tp["pats"] and tp["pats"][0].get("k") == "PBinding":
                            csrs.add(tp["pats"][0]["name"])
            if not bound:
                why = f"`{ekey(lab)}` is not the label of the `Address` value that sets_csr_to_value() reports"
                continue
            cons = path_constraints(pm, m)
            tests = [(c, want) for c, want in cons if any(y.get("k") == "MethodCall" and y["name"] == "is_interrupt_vector" for y in walk(c, pats=False))]
            others = [(c, want) for c, want in cons if (c, want) not in tests]
            def is_vec(c):
                c = peel(c)
                return c.get("k") == "MethodCall" and c["name"] == "is_interrupt_vector" and ekey(c["recv"]).lstrip("&*") in csrs
            if len(tests) == 1 and tests[0][1] is True and is_vec(tests[0][0]) and not others:
                good = m
            else:
                why = "the insertion depends on " + ", ".join(f"`{ekey(c)[:40]}` = {w}" for c, w in cons) + " instead of on `csr.is_interrupt_vector()` alone"
    if good is not None:
        R.ok("names-collected", detail="every node: the label of an `Address` written to the vector CSR is inserted into the set that is returned", where=loc(good))
    else:
        R.bad("names-collected", f"get_names_of_interrupt_handler_functions: {why}: a handler installed with `la t0, handler; csrrw zero, utvec, t0` is not a function, its body is unreachable code and its register use is judged as straight-line code", g["sp"])
    # (3)
    sc = [q for q in F.fns if q.endswith("::sets_csr") and "hir" in F.fns[q]]
    sv = [q for q in F.fns if q.endswith("::sets_csr_to_value") and "hir" in F.fns[q]]
    if len(sc) != 1 or len(sv) != 1:
        raise Anchor("sets_csr / sets_csr_to_value not found")
    from .nodeprops import Ev, Unx
    from .p_c08 import self_match, arm_table, PNODE
    sm = self_match(F, sc[0], PNODE)
    forms = {}
    for v, arm in arm_table(sm):
        if v in ("Csr", "CsrI"):
            g_ = arm.get("guard")
            insts = {short(y.get("res") or "") for y in walk(g_ or {}, pats=True) if (y.get("res") or "").startswith("riscv_analysis::parser::inst::Csr")} if g_ is not None else {"*"}
            src = [y["name"] for y in walk(arm["body"], pats=False) if y.get("k") == "Field" and y["name"] in ("rs1", "imm", "csr")]
            forms[v] = (insts, src)
    want = {"Csr": ("Csrrw", "rs1"), "CsrI": ("Csrrwi", "imm")}
    for v, (inst, fld) in want.items():
        got = forms.get(v)
        if got and (inst in got[0] or "*" in got[0]) and fld in got[1] and "csr" in got[1]:
            R.ok(f"write-form|{v}", detail=f"{inst.lower()}: the CSR number and the source `{fld}` are reported")
        else:
            R.bad(f"write-form|{v}", f"sets_csr does not report `{inst.lower()}` with its CSR number and source `{fld}` (found {got}): a vector installed by that instruction is not seen", F.fn(sc[0])["sp"])
    vb = F.fn(sv[0])["hir"]["value"]
    looks = [m for m in walk(vb, pats=False) if m.get("k") == "MethodCall" and m["name"] == "get" and any(y.get("k") == "MethodCall" and y["name"] == "reg_values_in" for y in walk(m["recv"], pats=False))]
    if looks:
        R.ok("source-value", detail="a register source is read as the value known *before* the instruction (reg_values_in)", where=loc(looks[0]))
    else:
        R.bad("source-value", "sets_csr_to_value does not look the source register up in the values that hold before the instruction: the label loaded by `la` is not found (or the value after the instruction, which `csrrw t0, utvec, t0` has just replaced, is taken)", F.fn(sv[0])["sp"])
    # (4)
    mg = [q for q in F.fns if q.endswith("Manager::gen_full_cfg") and "hir" in F.fns[q]]
    if len(mg) != 1:
        raise Anchor("Manager::gen_full_cfg not found")
    mb = F.fn(mg[0])["hir"]["value"]
    lets = local_inits(mb)
    handed = None
    for c in walk(mb, pats=False):
        if c.get("k") == "Call" and (callee_of(c) or "").endswith("Cfg::new_with_predefined_call_names") and len(c["args"]) == 2:
            if any(y.get("k") == "MethodCall" and y["name"] == "get_names_of_interrupt_handler_functions" for y in walk_expanded(c["args"][1], lets)) and any(short(callee_of(y) or "") == "Some" for y in walk(c["args"][1], pats=False) if y.get("k") == "Call"):
                handed = c
    if handed is not None:
        R.ok("handed-to-the-graph", detail="gen_full_cfg: the names found are the predefined call names of the final graph", where=loc(handed))
    else:
        R.bad("handed-to-the-graph", "gen_full_cfg does not build the final graph with the handler names as predefined call names", F.fn(mg[0])["sp"])
    nw = [q for q in F.fns if q.endswith("Cfg::new_with_predefined_call_names") and "hir" in F.fns[q]]
    nf = F.fn(nw[0])
    pn = [p_.get("name") for p_ in nf["hir"]["params"]]
    nl = local_inits(nf["hir"]["value"])
    ext = None
    for m in walk(nf["hir"]["value"], pats=False):
        if m.get("k") == "MethodCall" and m["name"] in ("extend", "union", "insert") and m["args"]:
            # the argument comes from the parameter (`if let Some(new_set) = predefined_call_names.clone()`)
            srcs = {y.get("res") for y in walk(m["args"][0], pats=False) if y.get("k") == "Path" and y.get("res_kind") == "Local"}
            from_param = False
            for le in walk(nf["hir"]["value"], pats=False):
                if le.get("k") == "LetExpr" and any(y.get("k") == "Path" and y.get("res") == pn[1] for y in walk(le["init"], pats=False)) and srcs & {b_["name"] for b_ in walk(le["pat"]) if b_.get("k") == "PBinding"}:
                    from_param = True
            if pn[1] in srcs:
                from_param = True
            if from_param:
                # ... into what becomes `call_names`
                tgt = ekey(m["recv"]).lstrip("&*")
                for nm, ini in nl.items():
                    if nm == "call_names" or any(y is m for y in walk(ini, pats=False)):
                        if any(y is m for y in walk(ini, pats=False)):
                            ext = (m, nm)
    uses = ext and any(y.get("k") == "Path" and y.get("res") == ext[1] for y in walk(nf["hir"]["value"], pats=False))
    if ext and uses:
        R.ok("added-to-call-names", detail=f"new_with_predefined_call_names: the predefined names are added to `{ext[1]}`", where=loc(ext[0]))
    else:
        R.bad("added-to-call-names", "new_with_predefined_call_names does not add the predefined names to the call names from which function entries are made", nf["sp"])
