"""Rule registry, report object, known-findings handling, evidence writer."""
import json, os, time, traceback
from .facts import Anchor

VERIF = os.path.dirname(os.path.dirname(os.path.abspath(__file__)))
RULES = {}  # property -> [(rule_id, fn, doc, tier)]


def rule(prop, rid, tier="quick", floor=None):
    """Register `fn(F, R)` as rule `rid` of property `prop`.  `floor` is the
    minimum number of instances the rule must examine (hand-counted on the
    pinned tree); fewer => the rule fails closed."""
    def deco(fn):
        RULES.setdefault(prop, []).append({"id": rid, "fn": fn, "doc": (fn.__doc__ or "").strip(), "tier": tier, "floor": floor})
        return fn
    return deco


class Report:
    def __init__(self, prop):
        self.prop = prop
        self.cur = None
        self.instances = []      # (rule, key, ok)
        self.violations = []     # dict
        self.samples = []
        self.notes = []
        self.per_rule = {}
        self.obligations = 0
        self.discharged = 0

    def begin(self, rid):
        self.cur = rid
        self.per_rule[rid] = {"instances": 0, "violations": 0}

    def ok(self, key, detail=None, where=None, trivial=False):
        """An instance that was examined and satisfies the rule."""
        self.instances.append((self.cur, key, True, trivial))
        self.per_rule[self.cur]["instances"] += 1
        if detail is not None and len([s for s in self.samples if s["rule"] == self.cur]) < 3:
            self.samples.append({"rule": self.cur, "instance": key, "where": where, "verdict": "ok", "detail": detail})

    def bad(self, key, msg, where=None, detail=None):
        """An instance that violates the rule.  `key` must not contain line numbers."""
        self.instances.append((self.cur, key, False, False))
        self.per_rule[self.cur]["instances"] += 1
        self.per_rule[self.cur]["violations"] += 1
        v = {"property": self.prop, "rule": self.cur, "key": f"{self.cur}|{key}", "where": where, "msg": msg}
        if detail is not None:
            v["detail"] = detail
        self.violations.append(v)

    def note(self, text):
        self.notes.append(f"[{self.cur}] {text}")

    def oblig(self, discharged):
        self.obligations += 1
        if discharged:
            self.discharged += 1


def load_known():
    p = os.path.join(VERIF, "known_findings.json")
    if not os.path.exists(p):
        return []
    return json.load(open(p))["findings"]


def load_exemptions():
    p = os.path.join(VERIF, "exemptions.json")
    if not os.path.exists(p):
        return []
    return json.load(open(p))["exemptions"]


_EX = None


def exempt(rule_id, key):
    """Reviewed exemption lookup: exact (rule, key) only.  Returns the reason or None."""
    global _EX
    if _EX is None:
        _EX = load_exemptions()
    for e in _EX:
        if e["rule"] == rule_id and e["key"] == key:
            e["_used"] = True
            return e["reason"]
    return None


def run_property(prop, F, tier="quick", only_rule=None):
    R = Report(prop)
    rules = RULES.get(prop, [])
    if not rules:
        raise SystemExit(f"no rules registered for {prop}")
    for r in rules:
        if r["tier"] == "thorough" and tier != "thorough":
            continue
        if only_rule and r["id"] != only_rule:
            continue
        R.begin(r["id"])
        try:
            r["fn"](F, R)
        except Anchor as a:
            R.bad(f"anchor|{a}", f"rule anchor missing (fail closed): {a}")
        except Exception as ex:  # a crash of a rule is never a pass
            R.bad(f"crash|{type(ex).__name__}", f"rule crashed (fail closed): {ex}\n{traceback.format_exc()[-1500:]}")
        n = R.per_rule[r["id"]]["instances"]
        if r["floor"] is not None and n < r["floor"]:
            R.bad("floor", f"rule examined {n} instances, fewer than the floor {r['floor']} counted on the pinned tree (fail closed)")
    return R
