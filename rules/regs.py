"""Register tables extracted from the source: Xn <-> number, names, class sets."""
import json, os, re
from .facts import *
from .core import VERIF

REG = "riscv_analysis::parser::register::Register"
RSET = "riscv_analysis::cfg::register_set::RegisterSet"
HRS = "HasRegisterSets"


def abi():
    return json.load(open(os.path.join(VERIF, "reference", "abi_registers.json")))


def variant_index(F):
    """Register variant name -> declaration index (== discriminant, repr(u8) without explicit values)."""
    return {v["name"]: v["idx"] for v in F.adt(REG)["variants"]}


def to_num_table(F):
    """Register::to_num as {variant: n} (extracted from the match)."""
    from .p_c08 import self_match, arm_table
    p = F.method(REG, "to_num")
    m = self_match(F, p, REG)
    out = {}
    for v, arm in arm_table(m):
        if v == "_":
            raise Anchor("Register::to_num has a wildcard arm")
        n = lit_value(arm["body"])
        out[v] = n
    return out, m


class SetEval:
    """Evaluates register-set valued HIR expressions to frozensets of variant names."""

    def __init__(self, F):
        self.F = F
        self.memo = {}
        self.variants = set(F.variants(REG))

    def fn(self, path, depth=0):
        if path in self.memo:
            return self.memo[path]
        if depth > 8:
            raise Anchor(f"set evaluation too deep at {path}")
        f = self.F.fn(path)
        v = self.ev(f["hir"]["value"], depth + 1)
        self.memo[path] = v
        return v

    def ev(self, e, depth=0):
        e = peel(e)
        k = e.get("k")
        if k == "Path":
            r = e.get("res") or ""
            if r.startswith(REG + "::") and short(r) in self.variants:
                return frozenset([short(r)])
            raise Anchor(f"cannot evaluate path {r} as a register set at {loc(e)}")
        if k == "Array":
            s = frozenset()
            for x in e["elems"]:
                s |= self.ev(x, depth)
            return s
        if k == "MethodCall":
            if e["name"] in ("set", "iter", "into_iter", "copied", "cloned", "collect", "into"):
                return self.ev(e["recv"], depth)
            c = callee_of(e)
            if c and c in self.F.fns:
                return self.fn(c, depth)
            raise Anchor(f"cannot evaluate method {e['name']} at {loc(e)}")
        if k == "Call":
            c = callee_of(e)
            if c and c in self.F.fns and not e["args"]:
                return self.fn(c, depth)
            raise Anchor(f"cannot evaluate call {c} at {loc(e)}")
        if k == "Binary":
            a, b = self.ev(e["a"], depth), self.ev(e["b"], depth)
            op = e["op"]
            if op == "BitOr":
                return a | b
            if op == "BitAnd":
                return a & b
            if op == "Sub":
                return a - b
            raise Anchor(f"operator {op} on register sets at {loc(e)}")
        if k == "Block" and e.get("expr") is not None and not e.get("stmts"):
            return self.ev(e["expr"], depth)
        raise Anchor(f"cannot evaluate {k} as a register set at {loc(e)}")


def class_sets(F):
    """{method name: frozenset(variant names)} for `impl HasRegisterSets for Register`."""
    ev = SetEval(F)
    out = {}
    for i in F.impls:
        if (i.get("trait") or "").split("::")[-1] == HRS and i["self_ty"] == REG:
            for it in i["items"]:
                out[it["name"]] = (ev.fn(it["path"]), it["path"])
    if not out:
        raise Anchor("impl HasRegisterSets for Register not found")
    return out
