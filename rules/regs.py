"""Register tables extracted from the source: Xn <-> number, names, class sets."""
import json, os, re
from .facts import *
from .core import VERIF

REG = "riscv_analysis::parser::register::Register"
RSET = "riscv_analysis::cfg::register_set::RegisterSet"
HRS = "HasRegisterSets"


def abi():
    return json.load(open(os.path.join(VERIF, "reference", "abi_registers.json")))


def variant_index(F):
    """Register variant name -> declaration index (== discriminant, repr(u8) without explicit values)."""
    return {v["name"]: v["idx"] for v in F.adt(REG)["variants"]}


def to_num_table(F):
    """Register::to_num as {variant: n}: read off the match, or - when the function is `self as <int>` - off the
    discriminants of the enum (the compiler's own numbering, explicit values included)."""
    from .p_c08 import self_match, arm_table
    p = F.method(REG, "to_num")
    body = peel(F.fn(p)["hir"]["value"])
    while body.get("k") == "Block" and not body.get("stmts") and body.get("expr") is not None:
        body = peel(body["expr"])
    if body.get("k") == "Cast" and peel(body["e"]).get("k") == "Path" and peel(body["e"]).get("res") == "self":
        vs = F.adt(REG)["variants"]
        if any("discr" not in v for v in vs):
            raise Anchor("the fact base carries no discriminants for Register")
        return {v["name"]: v["discr"] for v in vs}, body
    m = self_match(F, p, REG)
    out = {}
    for v, arm in arm_table(m):
        if v == "_":
            raise Anchor("Register::to_num has a wildcard arm")
        n = lit_value(arm["body"])
        out[v] = n
    return out, m


class SetEval:
    """Evaluates register-set valued HIR expressions to frozensets of variant names."""

    def __init__(self, F):
        self.F = F
        self.memo = {}
        self.variants = set(F.variants(REG))

    def fn(self, path, depth=0):
        if path in self.memo:
            return self.memo[path]
        if depth > 8:
            raise Anchor(f"set evaluation too deep at {path}")
        f = self.F.fn(path)
        v = self.ev(f["hir"]["value"], depth + 1)
        self.memo[path] = v
        return v

    def ev(self, e, depth=0):
        e = peel(e)
        k = e.get("k")
        if k == "Path":
            r = e.get("res") or ""
            if r.startswith(REG + "::") and short(r) in self.variants:
                return frozenset([short(r)])
            if e.get("res_kind") == "Local" and r in getattr(self, "env", {}):
                return self.env[r]
            raise Anchor(f"cannot evaluate path {r} as a register set at {loc(e)}")
        if k == "Array":
            s = frozenset()
            for x in e["elems"]:
                s |= self.ev(x, depth)
            return s
        if k == "MethodCall":
            if e["name"] in ("set", "iter", "into_iter", "copied", "cloned", "collect", "into"):
                return self.ev(e["recv"], depth)
            c = callee_of(e)
            if c and c in self.F.fns:
                return self.fn(c, depth)
            raise Anchor(f"cannot evaluate method {e['name']} at {loc(e)}")
        if k == "Call":
            c = callee_of(e)
            if c and c in self.F.fns and not e["args"]:
                return self.fn(c, depth)
            if c and c in self.F.fns and len(e["args"]) == 1 and depth < 8:
                # helper taking the registers themselves (`set_of(&[X10, X11])`): its body only collects its parameter
                try:
                    regs = self.ev(e["args"][0], depth + 1)
                except Anchor:
                    regs = None
                if regs is not None:
                    g = self.F.fn(c)
                    pn = g["hir"]["params"][0].get("name")
                    saved = getattr(self, "env", {})
                    self.env = dict(saved, **{pn: regs})
                    try:
                        return self.ev(g["hir"]["value"], depth + 1)
                    finally:
                        self.env = saved
                # helper taking an iterator of register numbers: evaluate the argument, then the body with the parameter bound
                nums = self.nums(e["args"][0])
                g = self.F.fn(c)
                pn = g["hir"]["params"][0].get("name")
                return self.ev_numbody(g["hir"]["value"], {pn: nums}, depth + 1)
            raise Anchor(f"cannot evaluate call {c} at {loc(e)}")
        if k == "Binary":
            a, b = self.ev(e["a"], depth), self.ev(e["b"], depth)
            op = e["op"]
            if op == "BitOr":
                return a | b
            if op == "BitAnd":
                return a & b
            if op == "Sub":
                return a - b
            raise Anchor(f"operator {op} on register sets at {loc(e)}")
        if k == "Block" and e.get("expr") is not None and not e.get("stmts"):
            return self.ev(e["expr"], depth)
        raise Anchor(f"cannot evaluate {k} as a register set at {loc(e)}")


def _from_num_table(F):
    """Register::from_num as {n: variant}"""
    from .p_c08 import arm_table, ctor_names
    f = F.fn(F.method(REG, "from_num"))
    best = None
    for m in find_matches(f["hir"]["value"]):
        if any(isinstance(k, int) for k, _ in arm_table(m)):
            best = m
    if best is None:
        raise Anchor("Register::from_num: no integer match")
    out = {}
    for k, arm in arm_table(best):
        if isinstance(k, int):
            cs = ctor_names(arm["body"], REG)
            if len(cs) == 1:
                out[k] = cs[0]
    return out


def _nums(self, e):
    """evaluate an iterator-of-integers expression (ranges, arrays, chain) to a sorted list"""
    e = peel(e)
    k = e.get("k")
    if k == "Call" and len(e["args"]) == 2 and (callee_of(e) or declared_callee(e) or "").endswith("RangeInclusive::<Idx>::new"):
        a, b = lit_value(e["args"][0]), lit_value(e["args"][1])
        if isinstance(a, int) and isinstance(b, int):
            return list(range(a, b + 1))
    if k == "Struct" and (e.get("path") or e.get("res") or "").split("<")[0].endswith("Range"):
        fs = {f["name"]: lit_value(f["e"]) for f in e["fields"]}
        if isinstance(fs.get("start"), int) and isinstance(fs.get("end"), int):
            return list(range(fs["start"], fs["end"]))
    if k == "Array":
        vs = [lit_value(x) for x in e["elems"]]
        if all(isinstance(v, int) for v in vs):
            return vs
    if k == "MethodCall":
        if e["name"] == "chain" and len(e["args"]) == 1:
            return self.nums(e["recv"]) + self.nums(e["args"][0])
        if e["name"] in ("into_iter", "iter", "copied", "cloned", "rev") and not e["args"]:
            return self.nums(e["recv"])
    raise Anchor(f"cannot evaluate `{ekey(e)[:60]}` as a sequence of register numbers at {loc(e)}")


def _ev_numbody(self, body, env, depth):
    """body of a helper whose parameter is an iterator of numbers: <param>.(filter_map|map)(|n| Register::from_num(n)..).collect()"""
    e = peel(body)
    while e.get("k") == "Block" and not e.get("stmts") and e.get("expr") is not None:
        e = peel(e["expr"])
    chain = []
    x = e
    while x.get("k") == "MethodCall":
        chain.append(x)
        x = peel(x["recv"])
    if not (x.get("k") == "Path" and x.get("res") in env):
        raise Anchor(f"cannot evaluate helper body `{ekey(e)[:60]}` at {loc(e)}")
    nums = env[x["res"]]
    regs = None
    for mc in reversed(chain):
        if mc["name"] in ("filter_map", "map", "flat_map") and regs is None:
            cl = [c for c in walk(mc["args"][0], pats=False) if c.get("k") == "Call" and (callee_of(c) or "").endswith("Register::from_num")]
            if len(cl) != 1:
                raise Anchor(f"helper maps numbers through something other than Register::from_num at {loc(mc)}")
            tab = _from_num_table(self.F)
            regs = frozenset(tab[n] for n in nums if n in tab)
        elif mc["name"] in ("collect", "into_iter", "iter", "copied", "set", "into"):
            continue
        else:
            raise Anchor(f"cannot evaluate `{mc['name']}` in a register-set helper at {loc(mc)}")
    if regs is None:
        raise Anchor(f"helper never maps numbers to registers at {loc(e)}")
    return regs


SetEval.nums = _nums
SetEval.ev_numbody = _ev_numbody


def class_sets(F):
    """{method name: frozenset(variant names)} for `impl HasRegisterSets for Register`."""
    ev = SetEval(F)
    out = {}
    for i in F.impls:
        if (i.get("trait") or "").split("::")[-1] == HRS and i["self_ty"] == REG:
            for it in i["items"]:
                out[it["name"]] = (ev.fn(it["path"]), it["path"])
    if not out:
        raise Anchor("impl HasRegisterSets for Register not found")
    return out
