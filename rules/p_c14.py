"""C14 — equivariance under label / same-class register renaming: nothing may
distinguish members of a class except through whole-class tables.
Also serves C13.b (numeric vs ABI register names)."""
from .core import rule
from .facts import *
from .regs import *
from .p_c08 import self_match, arm_table, str_lits, ctor_names, from_str_table

CLASS_OF = {
    "temporary_set": ["temporary"], "saved_set": ["saved"], "argument_set": ["argument"], "sp_ra_set": ["sp_ra"],
    "return_addr_set": ["return_addr"], "const_zero_set": ["const_zero"], "all_writable_set": ["all_writable"],
    "program_args_set": ["program_args"], "ecall_always_argument_set": ["ecall_number"],
    "caller_saved_set": ["temporary", "argument"], "callee_saved_set": ["saved", "sp_ra"], "return_set": ["argument"],
}


@rule("C14", "C14.a.class-tables", floor=12)
def c14a(F, R):
    """every convention-class table of `impl HasRegisterSets for Register` equals the psABI class (derived classes = union of their parts)"""
    ref = abi()
    tn, _ = to_num_table(F)
    sets = class_sets(F)
    for name, parts in CLASS_OF.items():
        if name not in sets:
            R.bad(f"{name}|missing", f"HasRegisterSets::{name} is not implemented for Register")
            continue
        got, path = sets[name]
        want = set()
        for p in parts:
            want |= set(ref["classes"][p])
        gotn = {tn[v] for v in got}
        if gotn == want:
            R.ok(name, detail=f"{name} = {sorted(gotn)}", where=F.fn(path)["sp"])
        else:
            R.bad(name, f"{name} = {sorted(gotn)}; the ABI class {'+'.join(parts)} is {sorted(want)} (extra {sorted(gotn - want)}, missing {sorted(want - gotn)})", F.fn(path)["sp"])
    for name in sets:
        if name not in CLASS_OF:
            R.bad(f"{name}|unknown", f"new register class table `{name}` has no reference class; add it to the rule after review")


def _is_register_impl_fn(F):
    ok = set()
    for i in F.impls:
        if i["self_ty"] == REG or i["self_ty"].endswith("[riscv_analysis::parser::register::Register; N]"):
            for it in i["items"]:
                ok.add(it["path"])
    return ok


@rule("C14", "C14.b.class-member-mentions", floor=100)
def c14b(F, R):
    """a temporary- or saved-class register is named (expression or pattern) only inside impls for `Register` itself"""
    ref = abi()
    tn, _ = to_num_table(F)
    permuted = set(ref["classes"]["temporary"]) | set(ref["classes"]["saved"])
    allowed = _is_register_impl_fn(F)
    n_allowed = 0
    for p, f in sorted(F.fns.items()):
        if "hir" not in f or not f["crate"].startswith("riscv_analysis") or (f.get("exp") or "").startswith("Derive"):
            continue
        root = p
        mentions = {}
        for n in walk(f["hir"]["value"]):
            if n.get("k") == "Path":
                r = n.get("res") or ""
                if r.startswith(REG + "::") and short(r) in tn and tn[short(r)] in permuted:
                    mentions.setdefault(short(r), n)
        if not mentions:
            continue
        inside = p in allowed or any(p.startswith(a + "::") for a in allowed)
        if not inside and f.get("ret_ty") == "bool" and [t.lstrip("&") for t in (f.get("param_tys") or [])] == [REG] and "{closure" not in p:
            # a pure predicate over one register is its extension: evaluated on all 32 registers (as C14.g does), it may name
            # members as long as the set it accepts contains each permuted class whole or not at all
            try:
                got = {n_ for n_ in range(32) if _eval_reg_predicate(F, p, n_, tn, class_sets(F))}
                T_, S_ = set(ref["classes"]["temporary"]), set(ref["classes"]["saved"])
                if all(not (got & c_) or not (c_ - got) for c_ in (T_, S_)):
                    for v in mentions:
                        R.ok(f"{p}|{v}", detail="named inside a register predicate whose extension keeps both classes whole")
                    continue
            except Exception:
                pass
        if inside:
            n_allowed += len(mentions)
            for v in mentions:
                R.ok(f"{p}|{v}", trivial=True)
        else:
            for v, n in sorted(mentions.items()):
                R.bad(f"{p}|{v}", f"`Register::{v}` (x{tn[v]}, a temporary/saved-class register) is singled out in `{p}`; "
                      f"class members may only be named in the class tables, otherwise permuting registers within the class changes the result", loc(n))
    # positive control: the matcher must see the class tables themselves
    if n_allowed < 19 * 4:
        R.bad("control", f"matcher saw only {n_allowed} class-member mentions inside the Register impls (expected >= 76): extraction broken")


def _register_spellings_by_search(F, tn, disp, reps):
    """Register::from_str written as a search: `<all registers>.find(|reg| s == A(reg) || s == B(reg) || C(reg).contains(s))`.
    -> ({spelling: variant}, lowered, find node) or None. A/B: `reg.to_string()` (the Display table), `format!("x{}", reg.to_num())`;
    C: `reg.all_representations()`. The registers searched must be all of them (`0..32` through from_num, or `Register::all()`)."""
    p = F.method(REG, "from_str", trait="core::str::traits::FromStr")
    f = F.fn(p)
    body = f["hir"]["value"]
    finds = [m for m in walk(body, pats=False) if m.get("k") == "MethodCall" and m["name"] in ("find", "find_map") and m["args"] and peel(m["args"][0]).get("k") == "Closure"]
    if len(finds) != 1:
        return None
    fd = finds[0]
    # the searched collection
    r = peel(fd["recv"])
    chain = []
    while r.get("k") == "MethodCall":
        chain.append(r["name"])
        r = peel(r["recv"])
    full = False
    if _range_end(r) == len(tn) and any(c.get("k") == "Call" and (callee_of(c) or "").endswith("Register::from_num") for c in walk(fd["recv"], pats=False)):
        lo = None
        if r.get("k") == "Struct":
            lo = {f_["name"]: lit_value(f_["e"]) for f_ in r["fields"]}.get("start")
        full = lo == 0
    if r.get("k") == "Call" and (callee_of(r) or "").endswith("Register::all"):
        full = True
    if not full or set(chain) - {"filter_map", "map", "into_iter", "iter", "copied", "cloned", "flatten"}:
        return None
    cl = peel(fd["args"][0])
    pn = [b_["name"] for p_ in cl.get("params", []) for b_ in walk(p_) if b_.get("k") == "PBinding"]
    if len(pn) != 1:
        return None

    def strings_of(e, v):
        """the set of strings expression e denotes for register v, or None"""
        e = peel(e)
        while e.get("k") in ("AddrOf",) or (e.get("k") == "Unary" and e.get("op") == "Deref") or (e.get("k") == "MethodCall" and e["name"] in ("as_str", "as_ref", "to_owned", "clone") and not e["args"]):
            e = peel(e.get("e") or e.get("a") or e.get("recv"))
        if e.get("k") == "MethodCall" and e["name"] == "to_string" and any(x.get("k") == "Path" and x.get("res") == pn[0] for x in walk(e["recv"], pats=False)):
            return {disp.get(v)}
        fc = format_calls_ex(e)
        if len(fc) == 1:
            out = ""
            for pc in fc[0]:
                if pc[0] == "lit":
                    out += pc[1]
                else:
                    a = peel(pc[1]["e"])
                    if a.get("k") == "MethodCall" and a["name"] == "to_num":
                        out += str(tn[v])
                    elif a.get("k") == "Path" and a.get("res") == pn[0] and pc[1]["how"] == "display":
                        out += disp.get(v) or "?"
                    else:
                        return None
            return {out}
        if e.get("k") == "MethodCall" and e["name"] == "all_representations":
            return set(reps.get(v, []))
        return None
    spell = {}
    ok = True

    def disj(e, v):
        nonlocal ok
        e = peel(e)
        while e.get("k") == "Block" and not e.get("stmts") and e.get("expr") is not None:
            e = peel(e["expr"])
        if e.get("k") == "Binary" and e["op"] == "Or":
            return disj(e["a"], v) | disj(e["b"], v)
        if e.get("k") == "Binary" and e["op"] == "Eq":
            for side in (e["a"], e["b"]):
                ss = strings_of(side, v)
                if ss is not None:
                    return ss
        if e.get("k") == "MethodCall" and e["name"] == "contains":
            ss = strings_of(e["recv"], v)
            if ss is not None:
                return ss
        ok = False
        return set()
    for v in tn:
        for sp_ in disj(cl["body"], v):
            if sp_ in spell and spell[sp_] != v:
                spell[sp_] = None
            else:
                spell[sp_] = v
    if not ok:
        return None
    lowered = any(n.get("k") == "MethodCall" and n.get("name") == "to_lowercase" for n in walk(body, pats=False))
    return spell, lowered, fd



@rule("C14", "C14.c.register-bijections", floor=32 * 6)
@rule("C13", "C13.b.register-names", floor=32 * 6)
def c14c(F, R):
    """to_num / from_num / Display / from_str / all_representations / all() agree with each other and with the psABI names for all 32 registers"""
    ref = abi()
    names = {int(k): v for k, v in ref["names"].items()}
    aliases = {int(k): v for k, v in ref["aliases"].items()}
    idx = variant_index(F)
    tn, tm = to_num_table(F)
    for v in sorted(idx, key=lambda x: idx[x]):
        n = tn.get(v)
        if n == idx[v] and v == f"X{n}":
            R.ok(f"to_num|{v}", detail=f"Register::{v}.to_num() = {n} = discriminant")
        else:
            R.bad(f"to_num|{v}", f"Register::{v}.to_num() = {n}, declaration index {idx[v]}", loc(tm))
    # from_num
    fp = F.method(REG, "from_num")
    f = F.fn(fp)
    best = None
    for m in find_matches(f["hir"]["value"]):
        if any(isinstance(k, int) for k, _ in arm_table(m)):
            best = m
    if best is None:
        raise Anchor("Register::from_num: no integer match")
    seen = {}
    for k, arm in arm_table(best):
        if k == "_":
            if ctor_names(arm["body"], REG):
                R.bad("from_num|wildcard", "wildcard arm of from_num yields a register", loc(arm))
            continue
        cs = ctor_names(arm["body"], REG)
        seen[k] = cs[0] if len(cs) == 1 else None
    for v, n in sorted(tn.items(), key=lambda x: x[1] if x[1] is not None else -1):
        if seen.get(n) == v:
            R.ok(f"from_num|{n}")
        else:
            R.bad(f"from_num|{n}", f"from_num({n}) = {seen.get(n)}, but {v}.to_num() = {n}", loc(best))
    for n in seen:
        if n not in tn.values():
            R.bad(f"from_num|{n}|extra", f"from_num accepts {n}, which no register maps to", loc(best))
    # Display
    dp = F.method(REG, "fmt", trait="core::fmt::Display")
    dm = self_match(F, dp, REG)
    disp = {}
    for v, arm in arm_table(dm):
        ls = str_lits(arm["body"])
        disp[v] = ls[0] if len(ls) == 1 else None
    for v, n in tn.items():
        if disp.get(v) == names.get(n):
            R.ok(f"display|{v}")
        else:
            R.bad(f"display|{v}", f"Register::{v} (x{n}) is printed as {disp.get(v)!r}; ABI name is {names.get(n)!r}", loc(dm))
    # all_representations (read first: a from_str written as a search may consult it)
    ap = F.method(REG, "all_representations")
    am = self_match(F, ap, REG)
    reps = {v: str_lits(arm["body"]) for v, arm in arm_table(am) if v != "_"}
    # from_str
    spell = {}
    try:
        m, lowered, p = from_str_table(F, R, REG, "Register")
        for lit, arm in arm_table(m):
            if lit == "_":
                continue
            cs = ctor_names(arm["body"], REG)
            if lit in spell:
                R.bad(f"from_str|dup|{lit}", f"register spelling {lit!r} appears twice", loc(arm))
            spell[lit] = cs[0] if len(cs) == 1 else None
    except Anchor:
        alt = _register_spellings_by_search(F, tn, disp, reps)
        if alt is None:
            raise
        spell, lowered, m = alt
    for v, n in tn.items():
        want = {f"x{n}", names[n]} | set(aliases.get(n, []))
        got = {s for s, vv in spell.items() if vv == v}
        if got == want:
            R.ok(f"from_str|{v}", detail=f"{sorted(got)} -> Register::{v}")
        else:
            R.bad(f"from_str|{v}", f"spellings decoded as Register::{v}: {sorted(got)}; expected {sorted(want)}", loc(m))
    for s, vv in spell.items():
        if vv not in tn:
            R.bad(f"from_str|{s}", f"spelling {s!r} maps to {vv}", loc(m))
    # all_representations
    for v, arm in arm_table(am):
        if v == "_":
            R.bad("all_representations|wildcard", "wildcard arm", loc(arm))
            continue
        got = set(str_lits(arm["body"]))
        want = {s for s, vv in spell.items() if vv == v}
        if got == want:
            R.ok(f"all_representations|{v}")
        else:
            R.bad(f"all_representations|{v}", f"all_representations({v}) = {sorted(got)} but from_str accepts {sorted(want)}", loc(arm))
    # Register::all
    allp = F.method(REG, "all")
    listed = ctor_names(F.fn(allp)["hir"]["value"], REG)
    for v in tn:
        if listed.count(v) == 1:
            R.ok(f"all|{v}")
        else:
            R.bad(f"all|{v}", f"Register::all() lists {v} {listed.count(v)} times", F.fn(allp)["sp"])


@rule("C14", "C14.c.bit-index", floor=1)
def c14c_bits(F, R):
    """every single-register bit mask in RegisterSet is `1 << register.to_num()` (bit index = register number)"""
    tonum = F.method(REG, "to_num")
    n = 0
    for i in F.impls:
        if i["self_ty"] != RSET:
            continue
        for it in i["items"]:
            f = F.fns.get(it["path"])
            if not f or "hir" not in f:
                continue
            for e in walk(f["hir"]["value"]):
                if e.get("k") == "Binary" and e.get("op") == "Shl":
                    a, b = peel(e["a"]), peel(e["b"])
                    okk = lit_value(a) == 1 and b.get("k") == "MethodCall" and callee_of(b) == tonum
                    key = f"{it['path']}"
                    n += 1
                    if okk:
                        R.ok(key + f"|shl{n}", trivial=False)
                    else:
                        R.bad(key + "|shl", "register bit mask is not `1 << reg.to_num()`", loc(e))


def _unspellable(F, text):
    """True iff `LabelString::from_str` provably rejects `text`: some character fails the alphabet test read from its body
    (`if !s.chars().all(|c| ok(c)) { Err }` or `if s.chars().any(|c| !ok(c)) { Err }`), or the text is empty."""
    from .facts import bool_eval, BoolUnx
    from .p_parse import parent_map
    p = F.method("riscv_analysis::parser::label::LabelString", "from_str", trait="FromStr")
    f = F.fn(p)
    if not text:
        return True
    body = f["hir"]["value"]
    pm = parent_map(body)
    # the test of the first character: `let first = s.chars().next()..; if !is_label_start(first) { return Err(()) }`
    firsts = {st["pat"]["name"] for st in walk(body, pats=False) if st.get("k") == "Let" and st["pat"].get("k") == "PBinding" and st.get("init") is not None
              and any(y.get("k") == "MethodCall" and y["name"] == "next" and any(z.get("k") == "MethodCall" and z["name"] == "chars" for z in walk(y["recv"], pats=False)) for y in walk(st["init"], pats=False))
              and not any(y.get("k") == "MethodCall" and y["name"] in ("skip", "rev", "nth", "last") for y in walk(st["init"], pats=False))}
    for iff in walk(body, pats=False):
        if iff.get("k") == "If" and any(c.get("k") == "Call" and short(callee_of(c) or "") == "Err" for c in walk(iff["then"], pats=False)):
            for nm in firsts:
                if any(y.get("k") == "Path" and y.get("res") == nm for y in walk(iff["cond"], pats=False)) and _char_pred(iff["cond"], nm, text[0], F) is True:
                    return True
    for m in walk(body, pats=False):
        if m.get("k") == "MethodCall" and m["name"] in ("all", "any") and m["args"] and closure_like(F, m["args"][0]) is not None:
            cl = closure_like(F, m["args"][0])     # a closure, or a named predicate (`.all(is_label_char)`)
            pn = [b_["name"] for p_ in cl.get("params", []) for b_ in walk(p_) if b_.get("k") == "PBinding"]
            if len(pn) != 1:
                return False
            # the test must guard an `Err`: find the `if` it decides and the value of the test under which it rejects
            x, iff = m, None
            while id(x) in pm:
                par = pm[id(x)]
                if par.get("k") == "If" and any(y is m for y in walk(par["cond"], pats=False)):
                    iff = par
                    break
                x = par
            if iff is None or not any(c.get("k") == "Call" and short(callee_of(c) or "") == "Err" for c in walk(iff["then"], pats=False)):
                return False
            try:
                rej_when = [v for v in (True, False) if bool_eval(iff["cond"], lambda e, m=m: "t" if (e is m or peel(e) is m) else None, {"t": v})]
            except BoolUnx:
                return False
            if len(rej_when) != 1:
                return False
            # all(..) is False / any(..) is True as soon as one character makes the closure False / True
            if (m["name"], rej_when[0]) not in (("all", False), ("any", True)):
                return False
            for ch in text:
                v = _char_pred(cl["body"], pn[0], ch, F)
                if v is rej_when[0]:
                    return True
            return False
    return False


def _char_pred(e, pn, ch, F=None, depth=0):
    e = peel(e)
    while e.get("k") == "Block" and not e.get("stmts") and e.get("expr") is not None:
        e = peel(e["expr"])
    k = e.get("k")
    if k == "Binary" and e["op"] in ("Or", "And"):
        a, b = _char_pred(e["a"], pn, ch, F, depth), _char_pred(e["b"], pn, ch, F, depth)
        if a is None or b is None:
            return None
        return (a or b) if e["op"] == "Or" else (a and b)
    if k == "Unary" and e["op"] == "Not":
        a = _char_pred(e["a"], pn, ch, F, depth)
        return None if a is None else not a
    if k == "Binary" and e["op"] in ("Eq", "Ne"):
        x, y = peel(e["a"]), peel(e["b"])
        if x.get("k") == "Path" and x.get("res") == pn and y.get("k") == "Lit" and y["lit"]["t"] == "char":
            r = (y["lit"]["v"] == ch)
            return r if e["op"] == "Eq" else not r
        return None
    if k == "Call" and F is not None and depth < 3 and len(e.get("args", [])) == 1 and peel(e["args"][0]).get("k") == "Path" and peel(e["args"][0]).get("res") == pn:
        # a named character class: `fn is_label_start(c: char) -> bool`
        g = F.fns.get(callee_of(e) or "")
        if g and "hir" in g and len(g["hir"]["params"]) == 1 and g["hir"]["params"][0].get("name"):
            return _char_pred(g["hir"]["value"], g["hir"]["params"][0]["name"], ch, F, depth + 1)
        return None
    if k == "Match" and e.get("src") in (None, "Normal") and peel(e["scrut"]).get("res") == pn:
        # matches!(c, 'a'..='z' | '_')
        for arm in e["arms"]:
            hit = arm["pat"].get("k") in ("PWild", "PBinding")
            for p_ in walk(arm["pat"]):
                if p_.get("k") == "PExpr" and peel(p_["e"]).get("k") == "Lit" and peel(p_["e"])["lit"]["v"] == ch:
                    hit = True
                if p_.get("k") == "PRange":
                    if prange_contains(p_, ch):
                        hit = True
            if hit and arm.get("guard") is None:
                v = lit_value(arm["body"])
                return v if isinstance(v, bool) else None
            if hit:
                return None
        return None
    if k == "MethodCall" and peel(e["recv"]).get("res") == pn and not e["args"]:
        table = {"is_ascii_digit": ch.isascii() and ch.isdigit(), "is_alphabetic": ch.isalpha(), "is_alphanumeric": ch.isalnum(),
                 "is_ascii_alphabetic": ch.isascii() and ch.isalpha(), "is_ascii_alphanumeric": ch.isascii() and ch.isalnum(),
                 "is_ascii_lowercase": ch.isascii() and ch.islower(), "is_ascii_uppercase": ch.isascii() and ch.isupper(),
                 "is_ascii_graphic": "!" <= ch <= "~", "is_ascii_punctuation": "!" <= ch <= "~" and not ch.isalnum(), "is_ascii": ch.isascii(),
                 "is_whitespace": ch.isspace(), "is_ascii_whitespace": ch in " \t\n\x0c\r", "is_numeric": ch.isnumeric()}
        return table.get(e["name"])
    return None


@rule("C14", "C14.d.literal-labels", floor=1)
def c14d(F, R):
    """no label is created from a string literal in non-test code (a reserved name would collide with a user label)"""
    new = "riscv_analysis::parser::label::LabelString::new"
    sites = 0
    for p, f in sorted(F.fns.items()):
        if "hir" not in f:
            continue
        for e in walk(f["hir"]["value"]):
            if e.get("k") == "Call" and (callee_of(e) or "").startswith(new):
                sites += 1
                a = peel(e["args"][0]) if e["args"] else {}
                while True:
                    if a.get("k") == "MethodCall" and a["name"] in ("to_string", "to_owned", "into", "clone", "as_str"):
                        a = peel(a["recv"])
                    elif a.get("k") == "Call" and len(a["args"]) == 1 and short(callee_of(a) or "") in ("from", "new"):
                        a = peel(a["args"][0])
                    else:
                        break
                lits = [a["lit"]["v"]] if a.get("k") == "Lit" and a["lit"]["t"] == "str" else []
                root = p.split("::{closure")[0]
                if lits and _unspellable(F, lits[0]):
                    R.ok(f"{root}|{lits[0]}", detail=f"label {lits[0]!r} is a literal that LabelString::from_str rejects: no label in a source file can have this name", where=loc(e))
                elif lits:
                    R.bad(f"{root}|{lits[0]}", f"label {lits[0]!r} is created from a literal in `{root}`; a user label of the same name is indistinguishable from it", loc(e))
                else:
                    R.ok(f"{root}|dynamic", trivial=True)
    # the constructor itself must exist (anchor)
    if not any(q.startswith(new) for q in F.fns):
        raise Anchor("LabelString::new not found")
    R.ok("anchor|LabelString::new", detail=f"{sites} construction sites examined")


@rule("C19", "C19.e.register-enumerations-complete", floor=1)
@rule("C01", "C01.l.register-enumerations-complete", floor=1)
@rule("C05", "C05.g.register-enumerations-complete", floor=1)
@rule("C14", "C14.e.register-enumerations-complete", floor=1)
def c14e(F, R):
    """every loop or range that enumerates register numbers through Register::from_num runs up to the last register (x31): a bound of 31 instead of 32 silently drops t6 from whatever walks a RegisterSet (lint loops, kills, the dump)"""
    from .p_parse import parent_map
    nreg = len(F.variants(REG))
    fromnum = F.method(REG, "from_num")
    n = 0
    for q, g in sorted(F.fns.items()):
        if "hir" not in g or (g.get("exp") or "").startswith("Derive") or "::{closure" in q:
            continue
        root = q
        body = g["hir"]["value"]
        calls = [c for c in walk(body, pats=False) if c.get("k") == "Call" and callee_of(c) == fromnum]
        if not calls:
            continue
        pm = parent_map(body)
        for c in calls:
            arg = peel(c["args"][0])
            akey = ekey(arg)
            bound = None   # (exclusive_end, where)
            # (a) enclosing `while <arg> < N`
            x = c
            while id(x) in pm:
                x = pm[id(x)]
                if x.get("k") == "Loop" and x.get("src") == "While":
                    iff = peel(x["body"].get("expr") or {})
                    cond = iff.get("cond") if iff.get("k") == "If" else None
                    while cond is not None and cond.get("k") in ("DropTemps", "Use"):
                        cond = cond["e"]
                    if cond is not None and cond.get("k") == "Binary" and cond["op"] in ("Lt", "Le") and ekey(cond["a"]) == akey:
                        v = lit_value(cond["b"])
                        if isinstance(v, int):
                            bound = (v if cond["op"] == "Lt" else v + 1, loc(cond))
            # (b) the argument is the parameter of a closure applied to a range (`(a..b).filter_map(|n| from_num(n))`)
            if bound is None and arg.get("k") == "Path" and arg.get("res_kind") == "Local":
                x = c
                while id(x) in pm and bound is None:
                    x = pm[id(x)]
                    if x.get("k") == "Closure":
                        pnames = [b_["name"] for p_ in x.get("params", []) for b_ in walk(p_) if b_.get("k") == "PBinding"]
                        m = pm.get(id(x))
                        if arg.get("res") in pnames and m is not None and m.get("k") == "MethodCall":
                            r = m
                            while r.get("k") == "MethodCall":
                                r = peel(r["recv"])
                            be = _range_end(r)
                            if be is not None:
                                bound = (be, loc(r))
                        break
            if bound is None:
                for fl in for_loops(body):
                    if any(y is c for y in walk(fl["body"], pats=False)):
                        names = [b_["name"] for b_ in walk(fl["pat"]) if b_.get("k") == "PBinding"]
                        if arg.get("k") == "Path" and arg.get("res") in names:
                            r = peel(fl["iter"])
                            while r.get("k") == "MethodCall":
                                r = peel(r["recv"])
                            b = _range_end(r)
                            if b is not None:
                                bound = (b, loc(r))
            # (b') the argument is a local picked out of a range: `let n = (a..b).find(|n| ..)?; from_num(n)`
            if bound is None and arg.get("k") == "Path" and arg.get("res_kind") == "Local":
                for st in walk(body, pats=False):
                    if st.get("k") == "Let" and st.get("init") is not None and any(b_.get("k") == "PBinding" and b_["name"] == arg["res"] for b_ in walk(st["pat"])):
                        for m in walk(st["init"], pats=False):
                            if m.get("k") == "MethodCall" and m["name"] in ("find", "position", "next", "min", "max", "last", "nth", "find_map", "rev", "filter", "skip_while"):
                                r = m
                                while r.get("k") == "MethodCall":
                                    r = peel(r["recv"])
                                be = _range_end(r)
                                if be is not None:
                                    bound = (be, loc(r))
            # (c) any comparison of a cursor that feeds from_num with an integer literal in the same body bounds the enumeration
            extra = []
            vars_in_arg = {ekey(x) for x in walk(arg, pats=False) if x.get("k") in ("Field", "Path") and x.get("res_kind") != "Fn"} | {akey}
            for cmp_ in walk(body, pats=False):
                if cmp_.get("k") == "Binary" and cmp_["op"] in ("Lt", "Le", "Gt", "Ge"):
                    for side, other, flip in ((cmp_["a"], cmp_["b"], False), (cmp_["b"], cmp_["a"], True)):
                        v = lit_value(other)
                        if isinstance(v, int) and not isinstance(v, bool) and ekey(side) in vars_in_arg and v >= 8:
                            op = cmp_["op"]
                            if flip:
                                op = {"Lt": "Gt", "Gt": "Lt", "Le": "Ge", "Ge": "Le"}[op]
                            extra.append((v if op in ("Lt", "Ge") else v + 1, loc(cmp_)))
            if bound is None and extra:
                bound = extra[0]
            for be, where in extra:
                if bound is not None and be != nreg:
                    bound = (be, where)
            if bound is None:
                continue
            n += 1
            key = f"{short(root)}|{n}"
            if bound[0] == nreg:
                R.ok(key, detail=f"{root}: register numbers are enumerated up to {nreg - 1}", where=bound[1])
            else:
                R.bad(f"{short(root)}|bound", f"{root} enumerates register numbers below {bound[0]}, but there are {nreg} registers: x{nreg - 1} (t6) is never produced, so whatever walks this set skips it", bound[1])
    if n == 0:
        raise Anchor("no register-number enumeration through Register::from_num found")


def _range_end(r):
    """exclusive end of a literal range expression, or None"""
    r = peel(r)
    if r.get("k") == "Struct" and (r.get("res") or r.get("path") or "").split("<")[0].endswith("Range"):
        fs = {f_["name"]: lit_value(f_["e"]) for f_ in r["fields"]}
        if isinstance(fs.get("end"), int):
            return fs["end"]
    if r.get("k") == "Call" and len(r["args"]) == 2 and (callee_of(r) or declared_callee(r) or "").endswith("RangeInclusive::<Idx>::new"):
        v = lit_value(r["args"][1])
        if isinstance(v, int):
            return v + 1
    return None


def _contains_sp(m, g):
    """closure g is (textually) one of the closure arguments of method call m"""
    gs = g.get("sp") or ""
    for a in m["args"]:
        if a.get("k") == "Closure" and (a.get("sp") or "").split(":")[:3] == gs.split(":")[:3]:
            return True
    return False


# ----------------------------------------------------------------------------- C14.g
class _PUnx(Exception):
    pass


def _eval_reg_predicate(F, path, regnum, tn, classes, depth=0):
    """value of the `&self -> bool` method `path` of Register on the register with number regnum (concrete evaluation of a pure predicate over a 32-element domain)"""
    if depth > 4:
        raise _PUnx("predicate delegation too deep")
    num2var = {n: v for v, n in tn.items()}
    me = num2var[regnum]
    f = F.fn(path)
    env = {}
    for p_ in (f["hir"].get("params") or []):
        # a free predicate `fn is_xxx(reg: Register) -> bool`: its parameter is the register asked about
        if p_.get("k") == "PBinding" and p_.get("name") != "self" and (p_.get("ty") or "").lstrip("&") == REG:
            env[p_["name"]] = ("reg", me)

    def strip(e):
        e = peel(e)
        while True:
            if e.get("k") in ("DropTemps", "Use"):
                e = peel(e["e"])
            elif e.get("k") == "AddrOf" or (e.get("k") == "Unary" and e.get("op") == "Deref"):
                e = peel(e.get("e") or e.get("a"))
            elif e.get("k") == "Block" and not e.get("stmts") and e.get("expr") is not None:
                e = peel(e["expr"])
            else:
                return e

    def val(e):
        """-> ('reg', variant) | int | bool | ('set', frozenset of numbers)"""
        e = strip(e)
        k = e.get("k")
        if k == "Block":
            for st in e.get("stmts", []):
                if st.get("k") == "Let" and st["pat"].get("k") == "PBinding" and st.get("init") is not None:
                    env[st["pat"]["name"]] = val(st["init"])
                else:
                    raise _PUnx("statement in a predicate body")
            if e.get("expr") is None:
                raise _PUnx("block without a value")
            return val(e["expr"])
        if k == "Path" and e.get("res") == "self":
            return ("reg", me)
        if k == "Path" and e.get("res_kind") == "Local":
            if e["res"] in env:
                return env[e["res"]]
            raise _PUnx(f"local `{e['res']}`")
        if k == "Path" and (e.get("res") or "").startswith(REG + "::"):
            return ("reg", short(e["res"]))
        lv = lit_value(e)
        if isinstance(lv, bool) or isinstance(lv, int):
            return lv
        if k == "Cast":
            return val(e["e"])
        if k == "Unary" and e.get("op") == "Not":
            return not val(e["a"])
        if k == "Binary":
            op = e["op"]
            if op == "And":
                return bool(val(e["a"])) and bool(val(e["b"]))
            if op == "Or":
                return bool(val(e["a"])) or bool(val(e["b"]))
            a, b = val(e["a"]), val(e["b"])
            if op in ("Eq", "Ne"):
                r = a == b
                return r if op == "Eq" else not r
            if isinstance(a, int) and isinstance(b, int):
                return {"Lt": a < b, "Le": a <= b, "Gt": a > b, "Ge": a >= b}[op]
            raise _PUnx(f"comparison {op}")
        if k == "Struct" and (e.get("path") or e.get("res") or "").split("<")[0].endswith("Range"):
            fs = {x["name"]: val(x["e"]) for x in e["fields"]}
            return ("set", frozenset(range(fs["start"], fs["end"])))
        if k == "Call" and len(e["args"]) == 2 and (callee_of(e) or declared_callee(e) or "").endswith("RangeInclusive::<Idx>::new"):
            return ("set", frozenset(range(val(e["args"][0]), val(e["args"][1]) + 1)))
        if k == "Array":
            vs = [val(x) for x in e["elems"]]
            return ("set", frozenset(tn[v[1]] if isinstance(v, tuple) else v for v in vs))
        if k in ("MethodCall", "Call"):
            c = callee_of(e) or ""
            recv, args = call_recv_args(e)
            nm = e.get("name") or short(c)
            if c == F.method(REG, "to_num") or nm == "to_num":
                r = val(recv if recv is not None else args[0])
                if isinstance(r, tuple) and r[0] == "reg":
                    return tn[r[1]]
            if nm == "contains" and recv is not None:
                s_ = val(recv)
                x = val(args[0])
                if isinstance(x, tuple) and x[0] == "reg":
                    x = tn[x[1]]
                if isinstance(s_, tuple) and s_[0] == "set":
                    return x in s_[1]
            if nm in classes and not args:
                return ("set", frozenset(tn[v] for v in classes[nm][0]))
            if c in F.fns and recv is not None and strip(recv).get("res") == "self" and not args:
                return _eval_reg_predicate(F, c, regnum, tn, classes, depth + 1)
            raise _PUnx(f"call {c or nm}")
        if k == "Match":
            sc = val(e["scrut"])
            for arm in e["arms"]:
                if _pmatch(arm["pat"], sc):
                    if arm.get("guard") is not None and not val(arm["guard"]):
                        continue
                    return val(arm["body"])
            raise _PUnx("no arm")
        if k == "If" and e.get("else") is not None:
            return val(e["then"]) if val(e["cond"]) else val(e["else"])
        raise _PUnx(f"{k} `{ekey(e)[:40]}`")

    def _pmatch(p, v):
        k = p.get("k")
        if k == "PWild" or k == "PBinding":
            return True
        if k == "POr":
            return any(_pmatch(x, v) for x in p["pats"])
        if k in ("PRef", "PDeref"):
            return _pmatch(p["pat"], v)
        if k == "PRange":
            r_ = prange_contains(p, v)
            if r_ is None:
                raise _PUnx("range pattern")
            return r_
        if k == "PExpr" or k == "PLit":
            x = peel(p.get("e") or p)
            lv = lit_value(x)
            if isinstance(lv, int) and not isinstance(lv, bool):
                return v == lv
            if (x.get("res") or "").startswith(REG + "::"):
                return v == ("reg", short(x["res"]))
        res = p.get("res") or ""
        if res.startswith(REG + "::"):
            return v == ("reg", short(res))
        raise _PUnx(f"pattern {k}")

    r = val(f["hir"]["value"])
    if not isinstance(r, bool):
        raise _PUnx("predicate does not evaluate to a bool")
    return r


PREDICATE_CLASS = {"is_const_zero": ["const_zero"], "is_stack_pointer": None}   # None: the singleton sp (x2), no class table of its own


@rule("C14", "C14.g.register-predicates-are-class-tables", floor=2)
def c14g(F, R):
    """every per-register predicate (`fn is_xxx(&self) -> bool` on Register) selects exactly an ABI class - it is evaluated on all 32 registers and compared with the class of its name (`is_saved` <-> `saved_set`), or with the singleton it names: a second, hand-written encoding of a class that drops or adds a member makes two registers of one class behave differently"""
    ref = abi()
    tn, _ = to_num_table(F)
    classes = class_sets(F)
    preds = []
    for i in F.impls:
        if i["self_ty"] != REG:
            continue
        for it in i["items"]:
            g = F.fns.get(it["path"])
            if not g or "hir" not in g or (g.get("exp") or "").startswith("Derive"):
                continue
            if (g.get("ret") or g.get("output") or "") != "bool" and not it["name"].startswith("is_"):
                continue
            ps = g["hir"].get("params") or []
            if len(ps) != 1 or not it["name"].startswith("is_"):
                continue
            preds.append((it["name"], it["path"]))
    for name, path in sorted(preds):
        sp = F.fn(path)["sp"]
        try:
            got = {n for n in range(32) if _eval_reg_predicate(F, path, n, tn, classes)}
        except (_PUnx, KeyError, TypeError) as ex:
            R.bad(f"{name}|unextractable", f"UNEXTRACTABLE: cannot evaluate Register::{name} on every register: {ex}", sp)
            continue
        want = None
        if name in PREDICATE_CLASS and PREDICATE_CLASS[name] is None:
            want, wname = {2}, "the stack pointer x2"
        elif name in PREDICATE_CLASS:
            want, wname = set().union(*[set(ref["classes"][p]) for p in PREDICATE_CLASS[name]]), "+".join(PREDICATE_CLASS[name])
        else:
            stem = name[3:]
            for cname, parts in CLASS_OF.items():
                if cname in (stem + "_set", stem.rstrip("s") + "_set", stem + "s_set"):
                    want, wname = set().union(*[set(ref["classes"][p]) for p in parts]), cname
            if want is None:
                for cname, parts in CLASS_OF.items():
                    w = set().union(*[set(ref["classes"][p]) for p in parts])
                    if w == got:
                        want, wname = w, cname
        if want is None:
            near = min(CLASS_OF.items(), key=lambda kv: len(set().union(*[set(ref["classes"][p]) for p in kv[1]]) ^ got))
            w = set().union(*[set(ref["classes"][p]) for p in near[1]])
            R.bad(f"{name}|no-class", f"Register::{name} holds for {sorted(got)}, which is no ABI class; nearest is {near[0]} (differs by {sorted(w ^ got)}): a predicate that splits a class makes same-class registers behave differently", sp)
        elif got == want:
            R.ok(name, detail=f"Register::{name} = {wname} = {sorted(got)}", where=sp)
        else:
            R.bad(name, f"Register::{name} holds for {sorted(got)}, but {wname} is {sorted(want)} (missing {sorted(want - got)}, extra {sorted(got - want)}): the lints that ask the predicate treat x{sorted(want ^ got)[0]} differently from the rest of its class", sp)
    # free predicates over a register anywhere else in the two crates (a lint's private `fn is_saved(reg: Register) -> bool`):
    # a second, local encoding of a class. What C14 needs of it is that it does not split the temporaries or the saved registers
    T, S = set(ref["classes"]["temporary"]), set(ref["classes"]["saved"])
    mine = {pth for _, pth in preds}
    for q, g in sorted(F.fns.items()):
        if q in mine or "hir" not in g or g.get("ret_ty") != "bool" or g.get("def_kind") not in ("Fn", "AssocFn") or "{closure" in q:
            continue
        if [t.lstrip("&") for t in (g.get("param_tys") or [])] != [REG] or "::test" in q or (g.get("exp") or "").startswith("Derive"):
            continue
        if (g["hir"].get("params") or [{}])[0].get("name") == "self":
            continue
        nm = short(q)
        try:
            got = {n for n in range(32) if _eval_reg_predicate(F, q, n, tn, classes)}
        except (_PUnx, KeyError, TypeError) as ex:
            R.bad(f"free|{nm}|unextractable", f"UNEXTRACTABLE: cannot evaluate the register predicate `{q}` on every register: {ex}", g["sp"])
            continue
        split = [(cn, sorted(c - got)) for cn, c in (("temporaries", T), ("saved", S)) if got & c and c - got]
        if split:
            R.bad(f"free|{nm}|splits-{split[0][0]}", f"`{q}` holds for some {split[0][0]} registers but not for x{split[0][1]}: code that asks it treats registers of one class differently, so a permutation inside the class changes more than the names", g["sp"])
        else:
            R.ok(f"free|{nm}", detail=f"`{q}` = {sorted(got)} does not split the temporaries or the saved registers", where=g["sp"])
