"""C08 — decoding, pseudo-expansion and folding tables (DESIGN.md §4 C08).
R1 is shared with C02 (operand roles), R3/R3b with C13 (spelling)."""
import json, os
from .core import rule, VERIF
from .facts import *
from .decode import decode_arm, Unextractable

P = "riscv_analysis::parser::"
INST = P + "inst::Inst"
TYPE = P + "inst::Type"
PSEUDO = P + "inst::PseudoType"
PNODE = P + "node::ParserNode"
IPROPS = "InstructionProperties"


def ref(name):
    return json.load(open(os.path.join(VERIF, "reference", name)))


def self_match(F, fnpath, enum):
    """The match in `fnpath` whose arm patterns are variants of `enum`."""
    f = F.fn(fnpath)
    best = None
    for m in find_matches(f["hir"]["value"]):
        vs = [v for a in m["arms"] for k, v in pat_variants(a["pat"]) if k == "path"]
        if vs and all(v and v.startswith(enum + "::") for v in vs):
            if best is None or len(m["arms"]) > len(best["arms"]):
                best = m
    if best is None:
        raise Anchor(f"no match over {enum} in {fnpath}")
    return best


def arm_table(m):
    """[(variant short name, arm)] with or-patterns split; wildcard -> ('_', arm)."""
    out = []
    for a in m["arms"]:
        for k, v in pat_variants(a["pat"]):
            if k == "path":
                out.append((short(v), a))
            elif k in ("wild", "bind"):
                out.append(("_", a))
            elif k == "lit":
                out.append((v, a))
            else:
                out.append((("?", k, v), a))
    return out


def payload_binding(arm, variant):
    """name bound to the tuple payload of `variant` in this arm's pattern (or None)."""
    def rec(p):
        k = p.get("k")
        if k == "POr":
            for q in p["pats"]:
                r = rec(q)
                if r is not None:
                    return r
        if k in ("PRef",):
            return rec(p["pat"])
        if k == "PTupleStruct" and short(p.get("res")) == variant and p["pats"]:
            q = p["pats"][0]
            if q.get("k") == "PBinding":
                return q["name"]
        return None
    return rec(arm["pat"])


def fields_read(body, binding):
    """set of field names read off local `binding` inside `body`."""
    out = set()
    for n in walk(body):
        if n.get("k") == "Field":
            b = n["e"]
            while b.get("k") in ("AddrOf", "Unary", "DropTemps"):
                b = b.get("e") or b.get("a")
            if b.get("k") == "Path" and b.get("res_kind") == "Local" and b.get("res") == binding:
                out.add(n["name"])
    return out


def str_lits(body):
    return [n["lit"]["v"] for n in walk(body) if n.get("k") == "Lit" and n["lit"]["t"] == "str"]


def ctor_names(body, enum):
    """short names of `enum` variants mentioned (as expressions) in body."""
    out = []
    for n in walk(body, pats=False):
        if n.get("k") == "Path" and (n.get("res") or "").startswith(enum + "::") and n.get("res_kind", "").startswith("Ctor"):
            out.append(short(n["res"]))
    return out


# ----------------------------------------------------------------------------- R1
@rule("C08", "R1.operand-roles", floor=30)
@rule("C02", "C02.a.operand-roles", floor=30)
def r1_operand_roles(F, R):
    """writes_to / reads_from of every ParserNode variant agree with the payload struct's rd / rs1,rs2 fields"""
    variants = {v["name"]: v for v in F.adt(PNODE)["variants"]}
    for meth, want in (("writes_to", {"rd"}), ("reads_from", {"rs1", "rs2"})):
        p = F.method(PNODE, meth, trait=IPROPS)
        m = self_match(F, p, PNODE)
        seen = set()
        for vname, arm in arm_table(m):
            if vname == "_":
                R.bad(f"{meth}|wildcard", f"`{meth}` has a wildcard arm: a new node kind would silently read/write nothing", loc(arm))
                continue
            seen.add(vname)
            v = variants.get(vname)
            if v is None:
                R.bad(f"{meth}|{vname}", "unknown variant", loc(arm))
                continue
            sty = v["fields"][0]["ty"]
            sfields = {n for n, _ in F.struct_fields(sty)}
            expect = want & sfields
            b = payload_binding(arm, vname)
            got = fields_read(arm["body"], b) if b else set()
            if got == expect:
                R.ok(f"{meth}|{vname}", detail=f"{meth}({vname}) = {sorted(got) or 'none'}", where=loc(arm))
            else:
                R.bad(f"{meth}|{vname}", f"`{meth}` for {vname} uses fields {sorted(got)}; the payload struct {short(sty)} has operand fields {sorted(expect)}", loc(arm))
        for vname in variants:
            if vname not in seen:
                R.bad(f"{meth}|{vname}|missing", f"`{meth}` has no arm for {vname}", loc(m))


@rule("C02", "C02.k.gen-kill-read-the-operand-table", floor=1)
@rule("C08", "R1.c.gen-kill-read-the-operand-table", floor=1)
def r1c_gen_kill(F, R):
    """the use and definition sets of the dataflow analyses (`gen_reg`, `kill_reg`) are derived from the operand-role table (`reads_from` / `writes_to`); if one of them enumerates node kinds itself, every kind must give exactly the payload's rs1,rs2 (rd) - a kind left to a wildcard (`jalr`) reads nothing for the analyses while the table says it reads rs1"""
    variants = {v["name"]: v for v in F.adt(PNODE)["variants"]}
    for meth, src, want in (("gen_reg", "reads_from", {"rs1", "rs2"}), ("kill_reg", "writes_to", {"rd"})):
        try:
            p = F.method(PNODE, meth, trait="HasGenKillInfo")
        except Exception:
            p = None
        if not p:
            raise Anchor(f"HasGenKillInfo::{meth} for ParserNode not found")
        f = F.fn(p)
        body = f["hir"]["value"]
        try:
            m = self_match(F, p, PNODE)
        except Anchor:
            m = None
        uses_table = any(n.get("k") == "MethodCall" and n["name"] == src for n in walk(body, pats=False))
        if m is None:
            if uses_table:
                R.ok(f"{meth}", detail=f"{meth} is computed from self.{src}()", where=f["sp"])
            else:
                R.bad(f"{meth}", f"{meth} neither calls `{src}()` nor enumerates the node kinds: where do its registers come from?", f["sp"])
            continue
        seen = {}
        wild = None
        for vname, arm in arm_table(m):
            if vname == "_":
                wild = arm
                continue
            b = payload_binding(arm, vname)
            seen[vname] = (fields_read(arm["body"], b) if b else set(), arm)
        bad = 0
        for vname, v in variants.items():
            sty = v["fields"][0]["ty"]
            sfields = {n for n, _ in F.struct_fields(sty)}
            expect = want & sfields
            if vname in seen:
                got, arm = seen[vname]
            elif wild is not None:
                got, arm = (set(), wild) if not any(n.get("k") == "MethodCall" and n["name"] == src for n in walk(wild["body"], pats=False)) else (expect, wild)
            else:
                got, arm = set(), m
            if got != expect:
                bad += 1
                R.bad(f"{meth}|{vname}", f"`{meth}` enumerates the node kinds itself and for {vname} uses the fields {sorted(got) or 'none'}, while the operand table `{src}` gives {sorted(expect)}: the analyses and the table disagree about what `{vname.lower()}` {'reads' if meth == 'gen_reg' else 'writes'} (an indirect `jalr t0` no longer keeps t0 live)", loc(arm))
        if not bad:
            R.ok(f"{meth}", detail=f"{meth} enumerates all {len(variants)} node kinds in agreement with {src}", where=loc(m))


# ----------------------------------------------------------------------------- R2
def from_str_table(F, R, ty, key):
    p = F.method(ty, "from_str", trait="core::str::traits::FromStr")
    f = F.fn(p)
    best = None
    for m in find_matches(f["hir"]["value"]):
        lits = [v for n, a in arm_table(m) for v in [n] if isinstance(n, str) and n != "_"]
        if lits and (best is None or len(m["arms"]) > len(best["arms"])):
            best = m
    if best is None:
        raise Anchor(f"no string match in {p}")
    lowered = any(n.get("k") == "MethodCall" and n.get("name") == "to_lowercase" for n in walk(best["scrut"]))
    if not lowered:
        # the scrutinee may be a local bound to a lowered string
        sc = peel(best["scrut"])
        names = {n["res"] for n in walk(best["scrut"]) if n.get("k") == "Path" and n.get("res_kind") == "Local"}
        for n in walk(f["hir"]["value"]):
            if n.get("k") == "Let" and n.get("init") and n["pat"].get("k") == "PBinding" and n["pat"]["name"] in names:
                if any(x.get("k") == "MethodCall" and x.get("name") == "to_lowercase" for x in walk(n["init"])):
                    lowered = True
    return best, lowered, p


@rule("C08", "R2.mnemonic-tables", floor=400)
def r2_mnemonics(F, R):
    """Inst::from_str / Display / all() / Type::from / From<&KType> tables are mutually consistent for every mnemonic"""
    variants = F.variants(INST)
    # (a) from_str
    m, lowered, p = from_str_table(F, R, INST, "Inst")
    if lowered:
        R.ok("from_str|lowercase", detail="scrutinee is lower-cased before the table")
    else:
        R.bad("from_str|lowercase", "Inst::from_str does not lower-case its input before the mnemonic table", loc(m))
    text2var = {}
    for lit, arm in arm_table(m):
        if lit == "_":
            continue
        vs = ctor_names(arm["body"], INST)
        if len(vs) != 1:
            R.bad(f"from_str|{lit}", f"arm {lit!r} does not construct exactly one Inst variant ({vs})", loc(arm))
            continue
        v = vs[0]
        if lit in text2var:
            R.bad(f"from_str|dup|{lit}", f"mnemonic {lit!r} appears twice", loc(arm))
        text2var[lit] = v
        if lit == v.lower():
            R.ok(f"from_str|{lit}", detail=f"{lit!r} -> Inst::{v}", where=loc(arm))
        else:
            R.bad(f"from_str|{lit}", f"mnemonic {lit!r} is decoded as Inst::{v} (expected Inst::{lit.capitalize()})", loc(arm))
    back = {}
    for t, v in text2var.items():
        back.setdefault(v, []).append(t)
    for v in variants:
        if v not in back:
            R.bad(f"from_str|missing|{v}", f"no mnemonic decodes to Inst::{v}", loc(m))
    # (b) Display
    dp = F.method(INST, "fmt", trait="core::fmt::Display")
    dm = self_match(F, dp, INST)
    seen = set()
    for v, arm in arm_table(dm):
        if v == "_":
            R.bad("display|wildcard", "Display for Inst has a wildcard arm", loc(arm))
            continue
        seen.add(v)
        ls = str_lits(arm["body"])
        if len(ls) != 1:
            R.bad(f"display|{v}", f"cannot extract one literal from the arm ({ls})", loc(arm))
        elif text2var.get(ls[0]) == v:
            R.ok(f"display|{v}")
        else:
            R.bad(f"display|{v}", f"Inst::{v} is printed as {ls[0]!r}, which from_str decodes as {text2var.get(ls[0])}", loc(arm))
    for v in variants:
        if v not in seen:
            R.bad(f"display|missing|{v}", f"Display has no arm for Inst::{v}", loc(dm))
    # (c) all()
    ap = F.method(INST, "all")
    listed = ctor_names(F.fn(ap)["hir"]["value"], INST)
    for v in variants:
        c = listed.count(v)
        if c == 1:
            R.ok(f"all|{v}")
        else:
            R.bad(f"all|{v}", f"Inst::all() lists Inst::{v} {c} times", F.fn(ap)["sp"])
    # (d) Type::from(&Inst)
    tp = F.method(TYPE, "from", trait_ref=r"From<&riscv_analysis::parser::inst::Inst>")
    tm = self_match(F, tp, INST)
    tvariants = {v["name"]: v["fields"][0]["ty"] for v in F.adt(TYPE)["variants"]}
    hit = {}
    seen = set()
    for v, arm in arm_table(tm):
        if v == "_":
            R.bad("type_from|wildcard", "Type::from(&Inst) has a wildcard arm", loc(arm))
            continue
        seen.add(v)
        body = peel(arm["body"])
        tk = ctor_names(body, TYPE)
        if len(tk) != 1 or body.get("k") != "Call" or len(body["args"]) != 1:
            R.bad(f"type_from|{v}", "arm is not `Type::K(KType::V)`", loc(arm))
            continue
        kty = tvariants[tk[0]]
        inner = peel(body["args"][0])
        if inner.get("k") != "Path" or not (inner.get("res") or "").startswith(kty + "::"):
            R.bad(f"type_from|{v}", f"payload is not a variant of {short(kty)}", loc(arm))
            continue
        iv = short(inner["res"])
        hit.setdefault(kty, set()).add(iv)
        if iv != v:
            R.bad(f"type_from|{v}", f"Inst::{v} is classified as {short(kty)}::{iv}", loc(arm))
        elif tk[0] == "UpperArith" and v not in UTYPE:
            R.bad(f"type_from|{v}", f"Inst::{v} classified as UpperArith, but it is not a U-type instruction ({sorted(UTYPE)} are): its immediate would be shifted by 12", loc(arm))
        elif v in UTYPE and tk[0] != "UpperArith":
            R.bad(f"type_from|{v}", f"{v.lower()} is a U-type instruction (`{v.lower()} rd, imm20`) but is classified as {tk[0]}: `{v.lower()} t0, 1` does not parse / its immediate is not placed in the upper 20 bits", loc(arm))
        else:
            R.ok(f"type_from|{v}", detail=f"Inst::{v} -> Type::{tk[0]}({short(kty)}::{iv})", where=loc(arm))
    for v in variants:
        if v not in seen:
            R.bad(f"type_from|missing|{v}", f"Type::from has no arm for Inst::{v}", loc(tm))
    # (e) From<&KType> for Inst
    for kty in sorted(set(tvariants.values())):
        if kty == PSEUDO or kty.endswith("IgnoreType"):
            continue
        try:
            kp = F.method(INST, "from", trait_ref=r"From<&" + kty.replace("::", "::") + ">")
        except Anchor as a:
            R.bad(f"ktype_to_inst|{short(kty)}", str(a))
            continue
        km = self_match(F, kp, kty)
        kv = set(F.variants(kty))
        seen = set()
        for v, arm in arm_table(km):
            if v == "_":
                R.bad(f"ktype_to_inst|{short(kty)}|wildcard", "wildcard arm", loc(arm))
                continue
            seen.add(v)
            got = ctor_names(arm["body"], INST)
            if got == [v]:
                R.ok(f"ktype_to_inst|{short(kty)}::{v}")
            else:
                R.bad(f"ktype_to_inst|{short(kty)}::{v}", f"{short(kty)}::{v} converts to Inst::{got}", loc(arm))
        for v in kv - seen:
            R.bad(f"ktype_to_inst|{short(kty)}::{v}|missing", "no arm", loc(km))


# ----------------------------------------------------------------------------- R3 / R3b
def node_ctor_table(F, R=None):
    """`ParserNode::new_*` -> (variant name, {param: field}) ; checks param/field name identity."""
    out = {}
    for i in F.impls:
        if i["self_ty"] == PNODE and i.get("trait") is None:
            for it in i["items"]:
                if it["name"].startswith("new_"):
                    f = F.fn(it["path"])
                    params = [p.get("name") for p in f["hir"]["params"]]
                    body = peel(f["hir"]["value"])
                    if body.get("k") != "Call" or not (body["f"].get("res") or "").startswith(PNODE + "::"):
                        if R:
                            R.bad(f"ctor|{it['name']}", "constructor body is not `ParserNode::V(Struct {..})`", f["sp"])
                        continue
                    variant = short(body["f"]["res"])
                    st = peel(body["args"][0])
                    fm = {}
                    okc = True
                    for fld in st.get("fields", []):
                        e = peel(fld["e"])
                        if e.get("k") == "Path" and e.get("res_kind") == "Local":
                            fm[e["res"]] = fld["name"]
                            if e["res"] != fld["name"]:
                                okc = False
                                if R:
                                    R.bad(f"ctor|{it['name']}|{fld['name']}", f"field `{fld['name']}` is initialised from parameter `{e['res']}`", loc(fld["e"]))
                    if R and okc:
                        R.ok(f"ctor|{it['name']}", detail=f"{it['name']} -> ParserNode::{variant}{sorted(fm.values())}")
                    out[it["name"]] = (variant, fm)
    return out


def try_from_matches(F):
    p = F.method(PNODE, "try_from", trait_ref=r"TryFrom<&mut core::iter::adapters::peekable::Peekable")
    tm = self_match(F, p, TYPE)
    pseudo_arm = [a for v, a in arm_table(tm) if v == "Pseudo"]
    if not pseudo_arm:
        raise Anchor("no Type::Pseudo arm in ParserNode::try_from")
    pm = None
    for m in find_matches(pseudo_arm[0]["body"]):
        vs = [v for a in m["arms"] for k, v in pat_variants(a["pat"]) if k == "path"]
        if vs and all(v and v.startswith(PSEUDO + "::") for v in vs):
            if pm is None or len(m["arms"]) > len(pm["arms"]):
                pm = m
    if pm is None:
        raise Anchor("no match over PseudoType in the Type::Pseudo arm")
    return p, tm, pm


def norm_node(sym, ctors):
    """{'node': 'new_x', ...} -> {'node': Variant, fields...} without the raw token."""
    variant, fm = ctors.get(sym["node"], (sym["node"], {}))
    out = {"node": variant}
    for k, v in sym.items():
        if k in ("node", "token"):
            continue
        out[fm.get(k, k)] = v
    return out


def outcome_nodes(sym, ctors):
    """('ok'|'two'|'err'|'other', [nodes])"""
    if isinstance(sym, dict) and "ok" in sym and isinstance(sym["ok"], dict) and "node" in sym["ok"]:
        return "ok", [norm_node(sym["ok"], ctors)]
    if isinstance(sym, dict) and "err" in sym and isinstance(sym["err"], dict) and sym["err"].get("ctor") == "NeedTwoNodes":
        ns = [norm_node(a, ctors) for a in sym["err"]["args"] if isinstance(a, dict) and "node" in a]
        if len(ns) == 2:
            return "two", ns
    if isinstance(sym, dict) and "err" in sym:
        return "err", []
    return "other", []


UTYPE = set(json.load(open(os.path.join(os.path.dirname(os.path.dirname(os.path.abspath(__file__))), 'reference', 'rv32im_formats.json')))['u_type']['instructions'])


def strip_q(tokens):
    t = list(tokens)
    while t and t[-1] in ("?", "$"):
        t.pop()
    return t

@rule("C09", "C09.m.a-node-ends-with-its-last-operand", floor=20)
def c09m(F, R):
    """the text of an instruction node runs from its mnemonic to its last operand: no operand form of a base instruction consumes the token that ends the line (a newline or a comment) into the node - the node's range is built from everything it consumed, so a form that reads the line end to find out that nothing follows (`jalr rs`) reports diagnostics on `jalr t1` plus the line break, or plus the whole comment"""
    p, tm, pm = try_from_matches(F)
    ctors = node_ctor_table(F, R)
    n = 0
    for k, arm in arm_table(tm):
        if k in ("_", "Pseudo", "Ignore"):
            continue
        b = payload_binding(arm, k)
        try:
            outs = decode_arm(F, arm["body"], {b or "inst": ("name", "inst")})
        except Unextractable:
            continue   # reported by R3b
        for toks, s_ in outs:
            kind, ns = outcome_nodes(s_, ctors)
            if kind not in ("ok", "two"):
                continue
            n += 1
            if "$" in toks:
                R.bad(f"{k}|{' '.join(t for t in toks if t != '$')}|line-end", f"the form `{' '.join(toks)}` of {k} consumes the token that ends the line (`$`) and builds the node from it: the range of the instruction runs over the line break or the trailing comment", loc(arm))
            else:
                R.ok(f"{k}|{' '.join(toks) or '-'}|{n}", trivial=True)
    if n == 0:
        raise Anchor("no decode path found")


@rule("C08", "R3.pseudo-expansion", floor=32)
@rule("C13", "C13.d.pseudo-expansion", floor=32)
def r3_pseudo(F, R):
    """every pseudo-instruction arm builds a node that is in the reference's accepted expansions, reading the reference's operand order"""
    refp = ref("rv32im_pseudo.json")
    ctors = node_ctor_table(F)
    p, tm, pm = try_from_matches(F)
    seen = set()
    for v, arm in arm_table(pm):
        if v == "_":
            R.bad("wildcard", "pseudo-instruction match has a wildcard arm", loc(arm))
            continue
        seen.add(v)
        r = refp.get(v)
        if r is None:
            R.bad(f"{v}|noref", f"pseudo-instruction {v} has no entry in the reference table", loc(arm))
            continue
        if "unspecified" in r:
            R.ok(f"{v}", detail="unspecified in the reference: not judged", trivial=True)
            R.note(f"unconstrained row: {v} ({r['unspecified']})")
            continue
        try:
            outs = decode_arm(F, arm["body"], {"inst": ("name", v)})
        except Unextractable as ex:
            R.bad(f"{v}|unextractable", f"UNEXTRACTABLE arm for {v}: {ex}", loc(arm))
            continue
        oks = [(strip_q(t), outcome_nodes(s, ctors)) for t, s in outs]
        good = [(t, ns[0]) for t, (kind, ns) in oks if kind == "ok"]
        bad_kind = [(t, kind) for t, (kind, ns) in oks if kind in ("other", "two")]
        if not good or bad_kind:
            R.bad(f"{v}", f"arm for {v} yields {len(good)} single-node outcomes and {bad_kind}", loc(arm))
            continue
        okall = True
        for toks, node in good:
            if toks not in r["reads"]:
                R.bad(f"{v}|operands", f"{v.lower()} reads operands {toks}; the reference form is {r['reads']}", loc(arm))
                okall = False
            elif node not in r["accept"]:
                R.bad(f"{v}", f"{v.lower()} {' '.join(toks)} is expanded to {node}; accepted expansions: {r['accept']}", loc(arm), detail={"got": node})
                okall = False
        if okall:
            R.ok(f"{v}", detail={"tokens": good[0][0], "node": good[0][1]}, where=loc(arm))
    for v in F.variants(PSEUDO):
        if v not in seen:
            R.bad(f"{v}|missing", f"no arm for PseudoType::{v}", loc(pm))


@rule("C08", "R3b.base-format-decode", floor=30)
@rule("C13", "C13.d.optional-operand-forms", floor=30)
def r3b_formats(F, R):
    """every base instruction type reads its operand tokens in manual order into the right fields, incl. omitted-offset and default-ra forms"""
    reff = ref("rv32im_formats.json")
    ctors = node_ctor_table(F, R)
    p, tm, pm = try_from_matches(F)
    tv = {v["name"] for v in F.adt(TYPE)["variants"]}
    seen = set()
    for k, arm in arm_table(tm):
        if k == "_":
            R.bad("wildcard", "instruction-type match has a wildcard arm", loc(arm))
            continue
        seen.add(k)
        if k in ("Pseudo", "Ignore"):
            continue
        forms = reff.get(k)
        if forms is None:
            R.bad(f"{k}|noref", f"no reference format for instruction type {k}", loc(arm))
            continue
        b = payload_binding(arm, k)
        try:
            outs = decode_arm(F, arm["body"], {b or "inst": ("name", "inst")})
        except Unextractable as ex:
            R.bad(f"{k}|unextractable", f"UNEXTRACTABLE arm for Type::{k}: {ex}", loc(arm))
            continue
        got = {}
        for toks, s in outs:
            kind, ns = outcome_nodes(s, ctors)
            if kind == "err":
                continue
            if kind == "other":
                R.bad(f"{k}|{' '.join(toks)}", f"path yields something that is neither a node nor an error: {s}", loc(arm))
                continue
            got.setdefault(tuple(strip_q(toks)), []).append((kind, ns))
        for form in forms:
            key = tuple(form["tokens"])
            name = f"{k}|{' '.join(key) or '-'}"
            g = got.pop(key, None)
            if "unspecified" in form:
                R.ok(name, detail="unspecified form: not judged", trivial=True)
                continue
            if g is None:
                R.bad(name + "|missing", f"operand form `{' '.join(key)}` of {k} is no longer accepted", loc(arm))
                continue
            for kind, ns in g:
                if "fields" in form:
                    want = dict(form["fields"])
                    node = dict(ns[0])
                    nv = node.pop("node")
                    inst = node.pop("inst", None)
                    exp_variant = {"UpperArith": "IArith"}.get(k, k)
                    if kind != "ok" or nv != exp_variant or inst != "inst" or node != want:
                        R.bad(name, f"form `{' '.join(key)}` of {k} builds {ns}; the manual assigns {want}", loc(arm))
                    else:
                        R.ok(name, detail={"tokens": list(key), "fields": node}, where=loc(arm))
                else:
                    want = form["two_nodes"]
                    gotn = [{kk: vv for kk, vv in n.items() if kk != "inst"} for n in ns]
                    insts = [n.get("inst") for n in ns]
                    if kind != "two" or gotn != want or insts[1] != "inst":
                        R.bad(name, f"form `{' '.join(key)}` of {k} builds {ns}; expected {want}", loc(arm))
                    else:
                        R.ok(name, detail={"tokens": list(key), "nodes": gotn}, where=loc(arm))
        for key, g in got.items():
            R.bad(f"{k}|{' '.join(key)}|extra", f"{k} accepts an operand form `{' '.join(key)}` that is not in the reference: {g}", loc(arm))
    for k in tv - seen:
        R.bad(f"{k}|missing", f"no arm for Type::{k}", loc(tm))


# ----------------------------------------------------------------------------- R4
@rule("C08", "R4.folding-table", floor=30)
def r4_folding(F, R):
    """Inst::math_op / scalar_op map every foldable mnemonic to the operator of the same name"""
    reff = ref("rv32im_formats.json")["folding"]
    want = {}
    for opn, insts in reff.items():
        if opn.startswith("_") or not isinstance(insts, list):
            continue
        for i in insts:
            want[i] = opn
    MATHOP = "riscv_analysis::cfg::ops::MathOp"
    mp = F.method(INST, "math_op")
    mm = self_match(F, mp, INST)
    got = {}
    for v, arm in arm_table(mm):
        if v == "_":
            if ctor_names(arm["body"], MATHOP):
                R.bad("math_op|wildcard", "wildcard arm folds to an operator", loc(arm))
            continue
        ops = ctor_names(arm["body"], MATHOP)
        got[v] = ops[0] if len(ops) == 1 else None
        if got[v] is None and ops:
            R.bad(f"math_op|{v}", f"arm builds {ops}", loc(arm))
    for i in sorted(set(want) | set(got)):
        g, w = got.get(i), want.get(i)
        if g == w:
            R.ok(f"math_op|{i}", detail=f"Inst::{i} folds with MathOp::{g}")
        else:
            R.bad(f"math_op|{i}", f"Inst::{i} folds with MathOp::{g}; RV32IM operator is {w}", loc(mm))
    sp = F.method(INST, "scalar_op")
    sm = self_match(F, sp, INST)
    for v, arm in arm_table(sm):
        if v == "_":
            continue
        ops = ctor_names(arm["body"], MATHOP)
        if len(ops) == 1 and want.get(v) == ops[0] and ops[0] in ("Add", "Sub"):
            R.ok(f"scalar_op|{v}")
        else:
            R.bad(f"scalar_op|{v}", f"scalar_op maps Inst::{v} to {ops}; expected {want.get(v)} (add/sub only)", loc(arm))
    # every MathOp variant has an arm in operate()
    op = F.method(MATHOP, "operate")
    om = self_match(F, op, MATHOP)
    names = [v for v, _ in arm_table(om)]
    for v in F.variants(MATHOP):
        if names.count(v) >= 1:
            R.ok(f"operate|arm|{v}")
        else:
            R.bad(f"operate|arm|{v}", f"MathOp::operate has {names.count(v)} arms for {v}", loc(om))
