"""C05 / C09.a / C18.c — diagnostic tables: registry, producibility, code/title/severity, location triples."""
from .core import rule, exempt
from .facts import *
from .g1 import reachable_bodies, entry_points
from .p_c08 import self_match, arm_table, str_lits, ctor_names
from .p_cfg import pass_impls, LINTPASS, inherent_methods, MANAGER
from .p_c16 import constructions

LINTERR = "riscv_analysis::passes::lint_error::LintError"
PARSEERR = "riscv_analysis::parser::error::ParseError"
CFGERR = "riscv_analysis::passes::cfg_error::CfgError"
SEV = "riscv_analysis::passes::lint_error::SeverityLevel"


@rule("C05", "C05.a.lint-registry", floor=11)
def c05a(F, R):
    """every `impl LintPass` is invoked by Manager::run_diagnostics, which both entry points reach"""
    lints = pass_impls(F, LINTPASS)
    rd = inherent_methods(F, MANAGER).get("run_diagnostics")
    if not rd:
        raise Anchor("Manager::run_diagnostics not found")
    called = {t.get("resolved") or t.get("callee") for bi, t, tg in F.call_sites(rd)}
    for ty, rp in sorted(lints.items()):
        if not ty.startswith("riscv_analysis::"):
            continue
        if rp in called:
            R.ok(f"registered|{short(ty)}", detail=f"{short(ty)}::run is called from run_diagnostics")
        else:
            R.bad(f"registered|{short(ty)}", f"lint pass {short(ty)} implements LintPass but is not run by Manager::run_diagnostics: its diagnostics are never produced", F.fn(rp)["sp"])
    for root in ("riscv_analysis::passes::manager::Manager::run", "rva::main"):
        seen, _ = F.reachable([root]) if root in F.fns else (set(), None)
        if rd in seen:
            R.ok(f"reached|{root}")
        else:
            R.bad(f"reached|{root}", f"`{root}` does not reach Manager::run_diagnostics", F.fns[root]["sp"] if root in F.fns else None)


def code_table(F):
    p = F.method(LINTERR, "get_error_code", trait="IsSomeDisplayableDiagnostic")
    m = self_match(F, p, LINTERR)
    out = {}
    for v, arm in arm_table(m):
        ls = str_lits(arm["body"])
        out[v] = (ls[0] if len(ls) == 1 else None, arm)
    return out, m


def builder_codes(F, seen):
    out = []
    for p, f in sorted(F.fns.items()):
        if "hir" not in f or p not in seen:
            continue
        for n in walk(f["hir"]["value"], pats=False):
            if n.get("k") == "Call" and (callee_of(n) or "").endswith("DiagnosticBuilder::new") and len(n["args"]) == 2:
                out.append((p, lit_value(n["args"][0]), lit_value(n["args"][1]), n))
    return out


@rule("C05", "C05.b.kind-producibility", floor=16)
def c05b(F, R):
    """every diagnostic kind in the code table can actually be produced by reachable code (variant constructed, or the same code emitted through DiagnosticBuilder)"""
    seen, _ = reachable_bodies(F)
    codes, m = code_table(F)
    built = {v for p, v, n in constructions(F, LINTERR) if p in seen}
    bcodes = {c for p, c, t, n in builder_codes(F, seen)}
    for v, (code, arm) in sorted(codes.items()):
        if v == "_":
            R.bad("wildcard", "get_error_code has a wildcard arm", loc(arm))
            continue
        if v in built:
            R.ok(f"kind|{code}", detail=f"LintError::{v} is constructed in reachable code")
        elif code in bcodes:
            R.ok(f"kind|{code}", detail=f"`{code}` is emitted through DiagnosticBuilder (the enum variant itself is unused)")
        else:
            R.bad(f"kind|{code}", f"no reachable code can produce a `{code}` diagnostic (LintError::{v} is never constructed and no builder emits that code)", loc(arm))
    for p, c, t, n in builder_codes(F, seen):
        if not c or not t:
            R.bad(f"builder|{p}", "DiagnosticBuilder::new with a non-literal / empty code or title", loc(n))


@rule("C05", "C05.c.code-title-severity", floor=48)
@rule("C18", "C18.c.titles-and-severities", floor=48)
def c05c(F, R):
    """error codes are injective and non-empty, titles non-empty, every kind has exactly one severity"""
    codes, m = code_table(F)
    variants = F.variants(LINTERR)
    inv = {}
    for v in variants:
        c = codes.get(v, (None, None))[0]
        if not c:
            R.bad(f"code|{v}", f"LintError::{v} has no literal error code", loc(m))
            continue
        if c in inv:
            R.bad(f"code|{v}", f"error code `{c}` is shared by {inv[c]} and {v}", loc(m))
        else:
            inv[c] = v
            R.ok(f"code|{v}", detail=f"{v} -> `{c}`")
    tp = F.method(LINTERR, "get_title", trait="IsSomeDisplayableDiagnostic")
    tm = self_match(F, tp, LINTERR)
    titles = {v: str_lits(arm["body"]) for v, arm in arm_table(tm)}
    for v in variants:
        t = titles.get(v)
        if t and len(t) == 1 and t[0].strip():
            R.ok(f"title|{v}")
        else:
            R.bad(f"title|{v}", f"LintError::{v} has no (single, non-empty) title: {t}", loc(tm))
    sp = F.method(SEV, "from", trait_ref=r"From<&riscv_analysis::passes::lint_error::LintError>")
    sm = self_match(F, sp, LINTERR)
    sev = {}
    for v, arm in arm_table(sm):
        if v == "_":
            R.bad("severity|wildcard", "severity table has a wildcard arm: a new kind silently gets a default severity", loc(arm))
            continue
        sev.setdefault(v, []).append(ctor_names(arm["body"], SEV))
    for v in variants:
        s = sev.get(v, [])
        if len(s) == 1 and len(s[0]) == 1:
            R.ok(f"severity|{v}", detail=f"{v}: {s[0][0]}")
        else:
            R.bad(f"severity|{v}", f"LintError::{v} has severities {s}", loc(sm))


def location_tables(F, enum):
    """{method: {variant: (bound field index, accessor names used)}}"""
    out = {}
    for meth in ("range", "file", "raw_text"):
        p = F.method(enum, meth, trait="DiagnosticLocation")
        m = self_match(F, p, enum)
        tab = {}
        for a in m["arms"]:
            # per alternative: which positional field is bound to the name used in the body
            used = {n["res"] for n in walk(a["body"], pats=False) if n.get("k") == "Path" and n.get("res_kind") == "Local"}
            calls = sorted({n["name"] for n in walk(a["body"], pats=False) if n.get("k") == "MethodCall"})
            for alt in flatten_or(a["pat"]):
                v = short(alt.get("res") or (alt.get("e") or {}).get("res") or "")
                idx = None
                for i, q in enumerate(alt.get("pats", [])):
                    if q.get("k") == "PBinding" and q["name"] in used:
                        idx = i
                tab[v] = (idx, tuple(calls))
        out[meth] = (tab, m)
    return out


def flatten_or(p):
    k = p.get("k")
    if k == "POr":
        out = []
        for q in p["pats"]:
            out += flatten_or(q)
        return out
    if k in ("PRef", "PBox", "PDeref"):
        return flatten_or(p["pat"])
    return [p]


def _triples(F, R, enum, subject_rule=None):
    tabs = location_tables(F, enum)
    variants = {v["name"]: v for v in F.adt(enum)["variants"]}
    for v in variants:
        got = {m: tabs[m][0].get(v) for m in tabs}
        idxs = {g[0] if g else "missing" for g in got.values()}
        if len(idxs) == 1 and "missing" not in idxs:
            idx = idxs.pop()
            if subject_rule and idx is not None:
                why = subject_rule(v, idx, variants[v])
                if why:
                    R.bad(f"{short(enum)}|{v}|subject", why, loc(tabs["range"][1]))
                    continue
            R.ok(f"{short(enum)}|{v}", detail=f"{v}: range/file/raw_text all read payload field {idx}")
        else:
            R.bad(f"{short(enum)}|{v}", f"{short(enum)}::{v}: range/file/raw_text read different payload fields {got}: the reported file, position and text disagree", loc(tabs["range"][1]))


@rule("C15", "C15.f.location-triples", floor=31)
@rule("C09", "C09.a.location-triples", floor=31)
def c09a(F, R):
    """for LintError, ParseError and CfgError the three DiagnosticLocation methods bind the same payload field per variant"""
    for enum in (LINTERR, PARSEERR, CFGERR):
        _triples(F, R, enum)


@rule("C05", "C05.d.location-on-subject", floor=16)
def c05d(F, R):
    """each lint kind is located on its subject: the first payload (register token for register kinds, the instruction for instruction kinds)"""
    def subj(v, idx, variant):
        if idx != 0:
            return f"LintError::{v} is located on payload field {idx}, not on its subject (field 0: {variant['fields'][0]['ty']})"
        return None
    _triples(F, R, LINTERR, subj)


@rule("C05", "C05.e.operand-search-cuts", floor=3)
def c05e(F, R):
    """the breadth-first searches that pick the reported operand (first store / first usage) cut a path only at an already visited node, at the node they were looking for, or - the forward search, after its use test - at a redefinition of the register"""
    from .g2 import real_breaks
    for suffix, found_call in (("::Cfg::error_ranges_for_first_usage", "gen_reg"), ("::Cfg::error_ranges_for_first_store", "writes_to")):
        c = [q for q in F.fns if q.endswith(suffix)]
        if len(c) != 1:
            raise Anchor(f"{suffix}: {len(c)} candidates")
        f = F.fn(c[0])
        name = short(c[0])
        loops = [l for l in walk(f["hir"]["value"], pats=False) if l.get("k") == "Loop" and l.get("src") == "While"
                 and any(m.get("k") == "MethodCall" and m["name"] in ("pop_front", "pop", "pop_back") for m in walk(l, pats=False))]
        if len(loops) != 1:
            R.bad(f"{name}|shape", f"UNEXTRACTABLE: expected one worklist loop, found {len(loops)}", f["sp"])
            continue
        # the loop body after while-let desugaring: the `Some(x) => { .. }` arm's block
        body = None
        for m in walk(loops[0]["body"], pats=False):
            if m.get("k") == "Match" or m.get("k") == "If":
                pass
        def direct_extend(st):
            e = st.get("e") or {}
            while e.get("k") in ("DropTemps", "Use"):
                e = e["e"]
            return e.get("k") == "MethodCall" and e["name"] == "extend"
        blocks = [b for b in walk(loops[0]["body"], pats=False) if b.get("k") == "Block" and any(direct_extend(st) for st in b.get("stmts", []))]
        if not blocks:
            R.bad(f"{name}|shape", "UNEXTRACTABLE: the worklist loop does not re-fill its queue with `extend`", f["sp"])
            continue
        blk = blocks[0]
        lets_ = local_inits(blk)
        stmts = blk.get("stmts", []) + ([{"k": "Expr", "e": blk["expr"]}] if blk.get("expr") else [])
        ext = next(i for i, s in enumerate(stmts) if direct_extend(s))
        seen_found = False
        n = 0
        for s in stmts[:ext]:
            cuts = real_breaks(s) + [x for x in walk(s, pats=False) if x.get("k") == "Continue" and not (x.get("exp") or "").startswith("desugar:")]
            if not cuts:
                continue
            n += 1
            e = s.get("e") or {}
            while e.get("k") in ("DropTemps", "Use"):
                e = e["e"]
            cond = e.get("cond") if e.get("k") == "If" else None
            if cond is None:
                R.bad(f"{name}|cut|unconditional", f"{name}: the search stops unconditionally before following the next nodes", loc(s))
                continue
            # a named sub-expression of the test (`let hit = prev.writes_to().filter(..); if let Some(reg) = hit`) is read through its name
            calls = {m["name"] for m in walk_expanded(cond, lets_) if m.get("k") == "MethodCall"}
            if "contains" in calls and any(x.get("k") == "Path" and x.get("res") == "visited" or "HashSet" in (x.get("ty") or "") for x in walk_expanded(cond, lets_)) and found_call not in calls and not (calls & {"kill_reg", "gen_reg", "writes_to", "reads_from"}):
                if seen_found:
                    R.bad(f"{name}|cut|visited-late", f"{name}: the visited test comes after the node was already examined", loc(s))
                else:
                    R.ok(f"{name}|cut|visited", detail="path cut at an already visited node")
            elif found_call in calls:
                seen_found = True
                R.ok(f"{name}|cut|found", detail=f"path cut where `{found_call}` identifies the searched node")
            elif seen_found and "kill_reg" in calls and "contains" in calls and found_call == "gen_reg" and not (calls - {"kill_reg", "contains"}):
                # forward search for a use: once the use test has been passed, a node that redefines the register ends the path
                # (what lies behind it reads the new value); a read-modify-write instruction was already caught by the use test
                R.ok(f"{name}|cut|redefined", detail="path cut at a redefinition, after the use test")
            else:
                R.bad(f"{name}|cut|{'+'.join(sorted(calls)) or 'other'}", f"{name}: the search is cut under `{ekey(cond)[:80]}`, which is neither 'already visited' nor 'found': a use/store behind such a node is never reported"
                      + (" (a read-modify-write instruction both uses and redefines the register; the use comes first)" if "kill_reg" in calls or "writes_to" in calls else ""), loc(s))
        if n < 2:
            R.bad(f"{name}|cuts", f"{name}: expected the visited cut and the found cut, saw {n}", f["sp"])
        # ... and the operand handed back is an operand that names the register asked for
        from .p_parse import parent_map
        fbody = f["hir"]["value"]
        pm_ = parent_map(fbody)
        params = [p_.get("name") for p_ in f["hir"].get("params", []) if p_.get("k") == "PBinding"]
        item = next((p_["name"] for p_ in f["hir"].get("params", []) if p_.get("k") == "PBinding" and (p_.get("ty") or "").endswith("register::Register")), None)
        if item is None:
            R.bad(f"{name}|pushed|shape", "UNEXTRACTABLE: no Register parameter", f["sp"])
            continue
        all_lets = local_inits(fbody)

        def rooted(e, names):
            e = peel(e)
            while e.get("k") in ("AddrOf", "DropTemps", "Use") or (e.get("k") == "Unary" and e.get("op") == "Deref") or (e.get("k") == "MethodCall" and e["name"] in ("get", "get_cloned", "clone", "borrow") and not e["args"]):
                e = peel(e.get("e") or e.get("a") or e.get("recv"))
            return e.get("k") == "Path" and e.get("res_kind") == "Local" and e.get("res") in names

        def eq_item(c, names):
            c = peel(c)
            while c.get("k") in ("DropTemps", "Use"):
                c = peel(c["e"])
            if c.get("k") == "Binary" and c["op"] == "And":
                return eq_item(c["a"], names) or eq_item(c["b"], names)
            if c.get("k") != "Binary" or c["op"] != "Eq":
                return False
            return (rooted(c["a"], names) and rooted(c["b"], {item})) or (rooted(c["b"], names) and rooted(c["a"], {item}))

        def under_eq(node, names):
            return any(want and eq_item(c, names) for c, want in path_constraints(pm_, node))

        def selected(e, depth=0):
            """the Option / iterator expression e yields only operands equal to `item`"""
            for m in walk_expanded(e, all_lets):
                if m.get("k") == "MethodCall" and m["name"] in ("filter", "find") and m["args"]:
                    cl = peel(m["args"][0])
                    if cl.get("k") == "Closure" and len(cl.get("params", [])) == 1 and eq_item(cl["body"], {b_["name"] for b_ in walk(cl["params"][0]) if b_.get("k") == "PBinding"}):
                        return True
            e0 = peel(e)
            if e0.get("k") == "Path" and e0.get("res_kind") == "Local" and depth < 2:
                # a mutable `found` that is only ever set to Some(x) where x == item
                asg = [a for a in walk(fbody, pats=False) if a.get("k") == "Assign" and ekey(a["l"]) == e0["res"]]
                if asg and all(any(under_eq(a, {y["res"]}) for y in walk(a["r"], pats=False) if y.get("k") == "Path" and y.get("res_kind") == "Local") for a in asg):
                    return True
            return False
        pushes = [m for m in walk(fbody, pats=False) if m.get("k") == "MethodCall" and m["name"] in ("push", "push_back", "insert", "extend") and ekey(m["recv"]).lstrip("&*") == "ranges"]
        if not pushes:
            R.bad(f"{name}|pushed|none", f"{name} never hands back an operand", f["sp"])
        for m in pushes:
            a = peel(m["args"][-1])
            while a.get("k") in ("AddrOf",) or (a.get("k") == "MethodCall" and a["name"] in ("clone",) and not a["args"]):
                a = peel(a.get("e") or a.get("recv"))
            okp = False
            if a.get("k") == "Path" and a.get("res_kind") == "Local":
                x = a["res"]
                if under_eq(m, {x}):
                    okp = True
                else:
                    # where x is bound: `if let Some(x) = E` / `let Some(x) = E else ..` / `for x in E`
                    up = m
                    while id(up) in pm_ and not okp:
                        up = pm_[id(up)]
                        cands = []
                        if up.get("k") == "If" and peel(up["cond"]).get("k") == "LetExpr":
                            cands.append((peel(up["cond"])["pat"], peel(up["cond"])["init"]))
                        if up.get("k") == "Block":
                            cands += [(st["pat"], st["init"]) for st in up.get("stmts", []) if st.get("k") == "Let" and st.get("init") is not None]
                        for pat_, init_ in cands:
                            if any(b_.get("k") == "PBinding" and b_["name"] == x for b_ in walk(pat_)) and selected(init_):
                                okp = True
                    for lp in for_loops(fbody):
                        if lp["pat"] is not None and any(b_.get("k") == "PBinding" and b_["name"] == x for b_ in walk(lp["pat"])) and any(y is m for y in walk(lp["body"], pats=False)) and selected(lp["iter"]):
                            okp = True
            elif selected(a):
                okp = True
            if okp:
                R.ok(f"{name}|pushed|{ekey(a)}", detail=f"`{ekey(a)}` is handed back only where it names `{item}`", where=loc(m))
            else:
                R.bad(f"{name}|pushed|{ekey(a)}", f"{name} hands back `{ekey(a)}` without having tested that it names the register `{item}` it was asked about: the diagnostic is then placed on an operand of another register (or on another instruction)", loc(m))


@rule("C05", "C05.i.no-arithmetic-write-escapes-the-zero-register-check", floor=2)
def c05i(F, R):
    """`can_skip_save_checks()` (which both the save-to-zero check and the dead-assignment check ask) exempts node kinds that write a register only as a side effect - entries, jumps that discard their link, CSR accesses - and never an instruction that computes a value: evaluated for every computing kind with rd = x0 and every combination of x0 / non-x0 sources and zero / non-zero immediate, it must answer false, or `li zero, 5` / `addi x0, x0, 1` is no longer reported"""
    from .nodeprops import eval_prop, Unx
    from .p_c08 import PNODE
    computing = {"Arith": ["rs1", "rs2"], "IArith": ["rs1"], "Load": ["rs1"], "LoadAddr": []}
    vs = F.variants(PNODE)
    p = F.method(PNODE, "can_skip_save_checks", trait="InstructionProperties")
    sp = F.fn(p)["sp"]
    for v, srcs in computing.items():
        if v not in vs:
            raise Anchor(f"ParserNode::{v} not found")
        envs = []
        for s0 in ("X0", "X5"):
            for imm in (0, 5):
                for inst in ({"Arith": ["Add", "Xor"], "IArith": ["Addi", "Xori", "Lui"], "Load": ["Lw"], "LoadAddr": ["La"]}[v]):
                    env = {"rd": "X0", "imm": imm, "inst": inst}
                    for s_ in srcs:
                        env[s_] = s0
                    envs.append(env)
        wrong = []
        for env in envs:
            try:
                r = eval_prop(F, "can_skip_save_checks", v, env)
            except Unx as ex:
                wrong.append(f"UNEXTRACTABLE ({ex})")
                break
            if r is not False:
                wrong.append(", ".join(f"{k}={x}" for k, x in sorted(env.items())))
        if wrong:
            R.bad(f"{v}", f"can_skip_save_checks answers true for the computing instruction kind {v} with {wrong[0]} ({len(wrong)} of {len(envs)} operand combinations): an arithmetic write to the zero register - `li zero, 5`, `addi x0, x0, 1`, `lui x0, 16` - is then reported neither as saving to zero nor as an unused value", sp)
        else:
            R.ok(f"{v}", detail=f"{v} is never exempt ({len(envs)} operand combinations with rd = x0)", where=sp)


def lint_fn_closure(F):
    """the lint passes and the helper functions of the lints module they call (transitively): [(label, path)]. A block of a lint moved into a private helper stays under the same rules"""
    from .p_cfg import pass_impls, LINTPASS
    out, seen = [], set()
    work = [(short(ty), rp) for ty, rp in sorted(pass_impls(F, LINTPASS).items())]
    while work:
        label, q = work.pop(0)
        if q in seen:
            continue
        seen.add(q)
        out.append((label, q))
        g = F.fns.get(q)
        if not g or "hir" not in g:
            continue
        for c in walk(g["hir"]["value"], pats=False):
            if c.get("k") in ("Call", "MethodCall"):
                t = callee_of(c) or declared_callee(c) or ""
                if "::lints::" in t and t in F.fns and "hir" in F.fns[t] and t not in seen:
                    work.append((short(t), t))
    return out



@rule("C05", "C05.j.what-a-search-finds-reaches-the-report", floor=6)
def c05j(F, R):
    """in the lints and in the searches they call, a local that starts empty (`None`, `Vec::new()`) and is later read to decide what is reported must be written in between: an `if let Some(x) = it` whose `it` is never set, or a `for r in ranges` whose `ranges` is never filled, is a report that can no longer happen - the lint stays registered, its kind stays constructible, and it never fires"""
    from .p_cfg import pass_impls, LINTPASS
    impls = set(pass_impls(F, LINTPASS).values())
    roots = {q for _, q in lint_fn_closure(F)} | {q for q in F.fns if "::cfg::graph::Cfg::error_ranges_for_" in q}
    n = 0
    for q in sorted(roots):
        g = F.fns.get(q)
        if not g or "hir" not in g:
            continue
        body = g["hir"]["value"]
        for st in walk(body, pats=False):
            if st.get("k") != "Let" or st["pat"].get("k") != "PBinding" or st.get("init") is None:
                continue
            init = peel(st["init"])
            empty = (init.get("k") == "Path" and short(init.get("res") or "") == "None") or \
                    (init.get("k") == "Call" and short(callee_of(init) or declared_callee(init) or "") in ("new", "default") and not init["args"] and any(t_ in (init.get("ty") or "") for t_ in ("Vec<", "VecDeque<", "HashSet<", "HashMap<", "Option<"))) or \
                    (init.get("k") == "MacCall" and "vec" in ekey(init))
            if not empty:
                continue
            name = st["pat"]["name"]
            lid = st["pat"].get("lid")
            uses = [u for u in walk(body, pats=False) if u.get("k") == "Path" and u.get("res_kind") == "Local" and u.get("res") == name and (lid is None or u.get("lid") in (None, lid))]
            if not uses:
                continue
            from .p_parse import parent_map
            pm = parent_map(body)
            written = False
            for u in uses:
                x = u
                par = pm.get(id(x))
                while par is not None and (par.get("k") in ("DropTemps", "Use") or (par.get("k") == "Unary" and par.get("op") == "Deref")):
                    x, par = par, pm.get(id(par))
                if par is None:
                    continue
                if par.get("k") == "AddrOf" and par.get("mut"):
                    written = True
                if par.get("k") in ("Assign", "AssignOp") and par["l"] is x:
                    written = True
                if par.get("k") == "MethodCall" and par["recv"] is x and par["name"] in ("push", "push_back", "push_front", "append", "extend", "insert", "replace", "get_or_insert", "get_or_insert_with", "extend_from_slice", "entry", "retain", "take"):
                    written = True
                if par.get("k") in ("Call", "MethodCall") and any(a_ is x for a_ in par.get("args", [])) and "&mut" in (x.get("ty") or x.get("aty") or ""):
                    written = True
            n += 1
            key = f"{short(q.split('::{closure')[0]) if ('error_ranges' in q or q not in impls) else short(q.rsplit('::', 1)[0].split(' as ')[0].lstrip('<'))}|{name}"
            # a worklist that is only refilled inside the loop that empties it never starts
            pops = [u for u in uses if pm.get(id(u), {}).get("k") == "MethodCall" and pm[id(u)]["name"] in ("pop", "pop_front", "pop_back") and pm[id(u)]["recv"] is u]
            if pops and written:
                lp = pops[0]
                while lp is not None and lp.get("k") != "Loop":
                    lp = pm.get(id(lp))
                if lp is not None:
                    inside = {id(y) for y in walk(lp, pats=False)}
                    seeded = False
                    for u in uses:
                        par = pm.get(id(u))
                        if id(u) in inside or par is None:
                            continue
                        if par.get("k") == "MethodCall" and par["recv"] is u and par["name"] in ("push", "push_back", "push_front", "append", "extend", "insert"):
                            seeded = True
                    if not seeded:
                        R.bad(key + "|seed", f"the worklist `{name}` is emptied by a loop and only refilled inside that loop: nothing puts the first element in, the search never starts, and what it would find is never reported", loc(st))
                        continue
            if written:
                R.ok(key, detail=f"`{name}` starts empty and is filled before it is read", where=loc(st))
            else:
                R.bad(key, f"`{name}` starts empty and is read ({len(uses)} use(s)) but nothing ever writes it: whatever is reported from it can no longer be reported", loc(st))
    if n == 0:
        raise Anchor("no empty-initialised locals found in the lints (the rule would pass vacuously)")


@rule("C05", "C05.k.original-value-test-is-exact", floor=1)
def c05k(F, R):
    """`is_original_value(reg)` - which decides whether reading a saved register is reading the caller's garbage - holds exactly when the map says `reg` still holds *its own* entry value with offset 0: the test is evaluated for (same register, offset zero) in all four combinations"""
    AVM = "riscv_analysis::cfg::available_value_map::AvailableValueMap"
    cands = [q for q in F.fns if q.endswith("::is_original_value") and "available_value_map" in q]
    if not cands:
        raise Anchor("AvailableValueMap::is_original_value not found")
    g = F.fn(cands[0])
    body = g["hir"]["value"]
    ifs = [n for n in walk(body, pats=False) if n.get("k") == "If" and peel_c(n["cond"]).get("k") == "LetExpr"]
    if len(ifs) != 1:
        R.bad("shape", f"UNEXTRACTABLE: expected one `if let Some(OriginalRegisterWithScalar(r, o)) = self.get(&reg)`, found {len(ifs)}", g["sp"])
        return
    c = peel_c(ifs[0]["cond"])
    vs = [short(x.get("res") or "") for x in walk(c["pat"]) if x.get("res")]
    if "OriginalRegisterWithScalar" not in vs:
        R.bad("variant", f"is_original_value matches {vs}, not OriginalRegisterWithScalar", loc(ifs[0]))
        return
    binds = [b["name"] for b in walk(c["pat"]) if b.get("k") == "PBinding"]
    param = [x.get("name") for x in g["hir"]["params"]][1]

    def classify(e):
        if e.get("k") == "Binary" and e["op"] in ("Eq", "Ne"):
            names = {x.get("res") for x in walk(e, pats=False) if x.get("k") == "Path" and x.get("res_kind") == "Local"}
            if param in names and len(binds) >= 1 and binds[0] in names:
                return "same" if e["op"] == "Eq" else "other"
            if len(binds) >= 2 and binds[1] in names and lit_value(e["b"]) == 0:
                return "zero" if e["op"] == "Eq" else "nonzero"
        return None
    wrong = []
    try:
        for same in (True, False):
            for zero in (True, False):
                r = bool_eval(ifs[0]["then"], classify, {"same": same, "other": not same, "zero": zero, "nonzero": not zero})
                if r != (same and zero):
                    wrong.append(f"same register = {same}, offset zero = {zero}: {r}")
        els = bool_eval(ifs[0]["else"], classify, {}) if ifs[0].get("else") is not None else None
        if els is not False:
            wrong.append(f"other kinds of value: {els}")
    except BoolUnx as ex:
        R.bad("condition|unextractable", f"UNEXTRACTABLE: is_original_value ({ex})", loc(ifs[0]))
        return
    if wrong:
        R.bad("condition", f"is_original_value answers wrongly for {wrong[0]}: the check that a saved register is read while it still holds the caller's value fires for the wrong registers, or never", loc(ifs[0]))
    else:
        R.ok("condition", detail="true exactly for OriginalRegisterWithScalar(reg, 0) under the key reg", where=loc(ifs[0]))


def peel_c(c):
    while c.get("k") in ("DropTemps", "Use"):
        c = c["e"]
    return c


def _text_atoms(spec):
    """classifier from [(atom name, predicate on ekey text, negated-name or None)]"""
    def classify(e):
        t = ekey(e)
        for name, pred in spec:
            if pred(e, t):
                return name
        return None
    return classify


def _mentions_path(e, suffix):
    return any(x.get("k") == "Path" and (x.get("res") or "").endswith(suffix) for x in walk(e, pats=False))


_PRED_MEMO = {}


def _pred_is_class(e, cls):
    """is `e` a call of a per-register predicate (`r.is_saved()`) that holds for exactly the registers of class `cls` (`saved_set`)? evaluated on all 32 registers, not trusted by name"""
    F = _PRED_MEMO.get("F")
    c = callee_of(e) or ""
    if e.get("k") == "Call" and len(e.get("args") or []) == 1:
        # a free predicate of the lint's own module: `is_saved(*read.get())`
        g = (F.fns.get(c) if F is not None else None) or {}
        if g.get("ret_ty") != "bool" or [t.lstrip("&") for t in (g.get("param_tys") or [])] != ["riscv_analysis::parser::register::Register"]:
            return False
    elif e.get("k") != "MethodCall" or e.get("args") or not e["name"].startswith("is_"):
        return False
    elif "register" not in c:
        return False
    if F is None or c not in F.fns:
        return False
    if (c, cls) not in _PRED_MEMO:
        try:
            from .p_c14 import _eval_reg_predicate
            from .regs import class_sets
            from .regs import to_num_table
            tn, _ = to_num_table(F)
            classes = class_sets(F)
            got = {n for n in range(32) if _eval_reg_predicate(F, c, n, tn, classes)}
            want = {tn[v] for v in classes[cls][0]} if cls in classes else None
            _PRED_MEMO[(c, cls)] = (want is not None and got == want)
        except Exception:
            _PRED_MEMO[(c, cls)] = False
    return _PRED_MEMO[(c, cls)]



TRIGGERS = [
    # (lint type suffix, LintError variant, atom classifiers, expected(env) -> bool, atoms, what)
    ("SaveToZeroCheck", "SaveToZero",
     [("x0", lambda e, t: e.get("k") == "Binary" and e["op"] == "Eq" and _mentions_path(e, "Register::X0")),
      ("skip", lambda e, t: e.get("k") == "MethodCall" and e["name"] == "can_skip_save_checks")],
     lambda v: v["x0"] and not v["skip"], ["x0", "skip"], "a write to x0 by an instruction that is not exempt"),
    ("DeadValueCheck", "DeadAssignment",
     [("live", lambda e, t: e.get("k") == "MethodCall" and e["name"] == "contains" and "live_out" in t),
      ("skip", lambda e, t: e.get("k") == "MethodCall" and e["name"] == "can_skip_save_checks")],
     lambda v: (not v["live"]) and not v["skip"], ["live", "skip"], "a written register that is not live afterwards"),
    ("EcallCheck", "UnknownEcall",
     [("ecall", lambda e, t: e.get("k") == "MethodCall" and e["name"] == "is_ecall"),
      ("unknown", lambda e, t: e.get("k") == "MethodCall" and e["name"] == "is_none" and "known_ecall" in t),
      ("known", lambda e, t: e.get("k") == "MethodCall" and e["name"] == "is_some" and "known_ecall" in t)],
     lambda v: v["ecall"] and v["unknown"], ["ecall", "unknown"], "an ecall whose number is not known"),
    ("CalleeSavedGarbageReadCheck", "InvalidUseBeforeAssignment",
     [("saved", lambda e, t: (e.get("k") == "MethodCall" and e["name"] == "contains" and "saved_set" in t) or _pred_is_class(e, "saved_set")),
      ("nomem", lambda e, t: e.get("k") == "MethodCall" and e["name"] == "is_none" and "uses_memory_location" in t),
      ("mem", lambda e, t: e.get("k") == "MethodCall" and e["name"] == "is_some" and "uses_memory_location" in t),
      ("orig", lambda e, t: e.get("k") == "MethodCall" and e["name"] == "is_original_value")],
     lambda v: v["saved"] and v["nomem"] and v["orig"], ["saved", "nomem", "orig"], "a non-memory read of a saved register that still holds the caller's value"),
    ("StackCheckPass", "InvalidStackOffsetUsage",
     [("base_sp", lambda e, t: e.get("k") == "Binary" and e["op"] == "Eq" and _mentions_path(e, "Register::X2")),
      ("base_other", lambda e, t: e.get("k") == "Binary" and e["op"] == "Ne" and _mentions_path(e, "Register::X2")),
      ("nonneg", lambda e, t: e.get("k") == "Binary" and e["op"] == "Ge" and lit_value(e["b"]) == 0),
      ("neg", lambda e, t: e.get("k") == "Binary" and e["op"] == "Lt" and lit_value(e["b"]) == 0)],
     lambda v: v["base_sp"] and v["nonneg"], ["base_sp", "nonneg"], "a memory access through sp at or above the entry stack pointer"),
]


@rule("C05", "C05.l.lint-trigger-conditions", floor=5)
def c05l(F, R):
    """the innermost condition under which each of these lints pushes its diagnostic is evaluated for every combination of its atomic tests and compared with the violation it stands for (a write to x0 that is not exempt; a written register that is not live; an ecall whose number is unknown; a non-memory read of a saved register holding the caller's value; an sp-relative access at or above the entry sp): an inverted or dropped test leaves the lint registered and silent"""
    from .p_cfg import pass_impls, LINTPASS
    from .p_parse import parent_map
    import itertools
    LE = "riscv_analysis::passes::lint_error::LintError"
    lints = pass_impls(F, LINTPASS)
    _PRED_MEMO.clear()
    _PRED_MEMO["F"] = F
    for suffix, variant, spec, expected, atoms, what in TRIGGERS:
        rp = [v for t, v in lints.items() if t.endswith(suffix)]
        if not rp:
            R.bad(f"{suffix}|missing", f"lint {suffix} not found", None)
            continue
        g = F.fn(rp[0])
        body = g["hir"]["value"]
        pm = parent_map(body)
        pushes = [p_ for p_ in walk(body, pats=False) if p_.get("k") == "MethodCall" and p_["name"] == "push" and p_["args"] and any((callee_of(c) or "") == f"{LE}::{variant}" for c in walk(p_["args"][0], pats=False) if c.get("k") == "Call")]
        if len(pushes) != 1:
            R.bad(f"{suffix}|{variant}|shape", f"UNEXTRACTABLE: expected one push of {variant} in {suffix}, found {len(pushes)}", g["sp"])
            continue
        # the innermost enclosing `if` with a boolean (non-`let`) condition
        x = pushes[0]
        conds = []
        while id(x) in pm:
            par = pm[id(x)]
            if par.get("k") == "If":
                c = par["cond"]
                while c.get("k") in ("DropTemps", "Use"):
                    c = c["e"]
                if c.get("k") != "LetExpr":
                    in_then = any(y is x for y in walk(par["then"], pats=False)) or par["then"] is x
                    conds.append((c, in_then))
                    break
            x = par
        if not conds:
            R.bad(f"{suffix}|{variant}|shape", f"UNEXTRACTABLE: the push of {variant} is not under a boolean condition", loc(pushes[0]))
            continue
        c, in_then = conds[0]
        classify = _text_atoms(spec)
        names = [n_ for n_, _ in spec]
        wrong = []
        try:
            for vals in itertools.product((True, False), repeat=len(atoms)):
                env = dict(zip(atoms, vals))
                # complementary atoms
                for a_, b_ in (("nomem", "mem"), ("unknown", "known"), ("base_sp", "base_other"), ("nonneg", "neg")):
                    if a_ in env:
                        env[b_] = not env[a_]
                r = bool_eval(c, classify, env)
                if not in_then:
                    r = not r
                if r != expected(env):
                    wrong.append(", ".join(f"{k}={v}" for k, v in env.items() if k in atoms) + f" -> {r}")
        except BoolUnx as ex:
            R.bad(f"{suffix}|{variant}|unextractable", f"UNEXTRACTABLE: trigger condition of {variant} in {suffix} ({ex})", loc(c))
            continue
        if wrong:
            R.bad(f"{suffix}|{variant}", f"{suffix} reports {variant} under the wrong condition ({wrong[0]}; {len(wrong)} of {2 ** len(atoms)} combinations differ): it stands for {what}", loc(c))
        else:
            R.ok(f"{suffix}|{variant}", detail=f"fires exactly for {what}", where=loc(c))


def _always_leaves(blk):
    """does this block end in return / continue / break on its straight-line path?"""
    b = peel(blk)
    while b.get("k") in ("DropTemps", "Use"):
        b = peel(b["e"])
    if b.get("k") in ("Ret", "Continue", "Break"):
        return True
    if b.get("k") == "Block":
        last = b.get("expr")
        if last is None and b.get("stmts"):
            last = b["stmts"][-1]
            if last.get("k") in ("Semi", "Expr"):
                last = last["e"]
        return last is not None and _always_leaves(last)
    return False


@rule("C05", "C05.m.no-loop-over-a-collection-known-to-be-empty", floor=1)
def c05m(F, R):
    """a lint that guards its work with an emptiness test runs it when the collection is *not* empty: a `for x in C` (or `C.iter()`) nested under a condition that holds only when `C.is_empty()` can never do anything - `if !garbage.is_empty()` with the `!` lost silences the lint for reads of registers that were never assigned"""
    from .p_cfg import pass_impls, LINTPASS
    from .p_parse import parent_map
    n = 0
    for ty, rp in lint_fn_closure(F):
        g = F.fns.get(rp)
        if not g or "hir" not in g:
            continue
        body = g["hir"]["value"]
        pm = parent_map(body)
        for iff in walk(body, pats=False):
            if iff.get("k") != "If":
                continue
            empt = [m for m in walk(iff["cond"], pats=False) if m.get("k") == "MethodCall" and m["name"] == "is_empty" and peel(m["recv"]).get("k") == "Path" and peel(m["recv"]).get("res_kind") == "Local"]
            if not empt:
                continue
            for m in empt:
                C = peel(m["recv"])["res"]

                def classify(e, m=m):
                    return "empty" if e is m or peel(e) is m else None
                try:
                    t_when_empty = bool_eval(iff["cond"], classify, {"empty": True})
                    t_when_full = bool_eval(iff["cond"], classify, {"empty": False})
                except BoolUnx:
                    continue
                uses_in = lambda blk: [fl for fl in for_loops(blk) if any(x.get("k") == "Path" and x.get("res") == C for x in walk(fl["iter"], pats=False))] if blk else []
                n += 1
                key = f"{short(ty)}|{C}"
                dead_then = t_when_empty and not t_when_full and uses_in(iff["then"])
                dead_else = (not t_when_empty) and t_when_full and iff.get("else") is not None and uses_in(iff["else"])
                # the early-exit spelling: `if <guard> { return / continue }` - what follows in the block runs only when the guard is false
                dead_after = False
                blk = pm.get(id(iff))
                while blk is not None and blk.get("k") in ("DropTemps", "Use"):
                    blk = pm.get(id(blk))
                if blk is not None and blk.get("k") in ("Semi", "Expr"):
                    blk = pm.get(id(blk))
                diverges = iff.get("else") is None and _always_leaves(iff["then"])
                if diverges and blk is not None and blk.get("k") == "Block":
                    after, seen_if = [], False
                    for st in blk.get("stmts", []) + ([blk["expr"]] if blk.get("expr") is not None else []):
                        if seen_if:
                            after.append(st)
                        elif st is iff or any(y is iff for y in walk(st, pats=False)):
                            seen_if = True
                    # reached only if the guard is false: dead when "guard false" forces the collection to be empty
                    if t_when_full and not t_when_empty and any(uses_in(st) for st in after):
                        dead_after = True
                if dead_then or dead_else or dead_after:
                    R.bad(key, f"{short(ty)} loops over `{C}` in a branch that is only taken when `{C}` is empty: nothing in that loop can run, so what it reports is never reported", loc(iff))
                else:
                    R.ok(key, detail=f"`{C}` is walked where it can be non-empty", where=loc(iff))
    if n == 0:
        # a contradiction rule: where no lint guards a walk with an emptiness test there is nothing that could contradict itself
        # (a guard with its `!` lost still is an emptiness test, so the mutant this rule is for cannot hide here)
        R.ok("no-emptiness-guard", detail="no lint guards a walk over a collection with an emptiness test")


@rule("C05", "C05.n.lost-value-search", floor=3)
def c05n(F, R):
    """LostCalleeSavedRegisterCheck decides by a search: a write to a saved register that still holds the caller's value is reported exactly when no copy of that value (the same register, offset 0) is left in a stack slot or in a register. The search flag starts false, is only ever set to true, is set in the walk over the stack facts and in the walk over the register facts under `same register && offset == 0`, and the report sits under `!flag`: a dropped or inverted piece either silences the lint or makes it fire on every correctly saved register"""
    from .p_cfg import pass_impls, LINTPASS
    from .p_parse import parent_map
    from .facts import path_forces, local_inits
    LE = "riscv_analysis::passes::lint_error::LintError"
    AVO = "OriginalRegisterWithScalar"
    lints = pass_impls(F, LINTPASS)
    rp = [v for t, v in lints.items() if t.endswith("LostCalleeSavedRegisterCheck")]
    if not rp:
        raise Anchor("LostCalleeSavedRegisterCheck not found")
    g = F.fn(rp[0])
    body = g["hir"]["value"]
    pm = parent_map(body)
    pushes = [p_ for p_ in walk(body, pats=False) if p_.get("k") == "MethodCall" and p_["name"] == "push" and p_["args"] and any((callee_of(c) or "") == f"{LE}::LostRegisterValue" for c in walk(p_["args"][0], pats=False) if c.get("k") == "Call")]
    if len(pushes) != 1:
        R.bad("shape", f"UNEXTRACTABLE: expected one push of LostRegisterValue, found {len(pushes)}", g["sp"])
        return
    flags = [st for st in walk(body, pats=False) if st.get("k") == "Let" and st["pat"].get("k") == "PBinding" and lit_value(st.get("init") or {}) is False and ", Mut)" in (st["pat"].get("mode") or "")]
    # the flag the report depends on
    flag = None
    for st in flags:
        nm = st["pat"]["name"]

        def classify(e, nm=nm):
            return "flag" if (e.get("k") == "Path" and e.get("res_kind") == "Local" and e.get("res") == nm) else None
        if path_forces(pm, pushes[0], classify, "flag", False):
            flag = (st, nm, False)
        elif path_forces(pm, pushes[0], classify, "flag", True):
            flag = (st, nm, True)
    if flag is None:
        # no mutable flag: the decision is written as an expression over `any(..)` of the two fact sources - evaluate it
        from .facts import path_constraints, bool3
        lets = local_inits(body)

        def src_of(m):
            seen = list(walk_expanded(m["recv"], lets))
            for s_ in ("memory_values_out", "reg_values_out"):
                if any(y.get("k") == "MethodCall" and y["name"] == s_ for y in seen):
                    return s_
            return None

        def cls(e):
            if e.get("k") == "MethodCall" and e["name"] == "any":
                return src_of(e)
            if e.get("k") == "Call" and (callee_of(e) or "") in F.fns and "hir" in F.fns[callee_of(e)]:
                # a helper of the lint that is handed one of the two fact sources and answers with `any(..)` over it
                h = F.fns[callee_of(e)]
                hb = h["hir"]["value"]
                pn = [p_.get("name") for p_ in h["hir"]["params"]]
                anys = [m for m in walk(hb, pats=False) if m.get("k") == "MethodCall" and m["name"] == "any" and any(y.get("k") == "Path" and y.get("res") in pn for y in walk(m["recv"], pats=False))]
                tail = peel(hb)
                while tail.get("k") == "Block" and not tail.get("stmts") and tail.get("expr") is not None:
                    tail = peel(tail["expr"])
                srcs = {s_ for s_ in ("memory_values_out", "reg_values_out") for a_ in e["args"] if any(y.get("k") == "MethodCall" and y["name"] == s_ for y in walk_expanded(a_, lets))}
                if len(anys) == 1 and tail is anys[0] and len(srcs) == 1:
                    return srcs.pop()
            return None
        from .facts import walk_expanded
        cons = path_constraints(pm, pushes[0])
        table = {}
        for sv in (True, False):
            for rv in (True, False):
                vals = [bool3(c, cls, {"memory_values_out": sv, "reg_values_out": rv}, lets) for c, want in cons]
                reach = all((v is None) or (v == want) for v, (c, want) in zip(vals, cons))
                decided = any(v is not None for v in vals)
                table[(sv, rv)] = reach if decided else None
        if any(v is None for v in table.values()):
            R.bad("flag", "UNEXTRACTABLE: the report of LostRegisterValue depends neither on a search flag nor on `any(..)` over the stack and the register facts", loc(pushes[0]))
            return
        if table == {(True, True): False, (True, False): False, (False, True): False, (False, False): True}:
            R.ok("report-polarity", detail="LostRegisterValue is reported exactly when neither the stack facts nor the register facts hold a copy", where=loc(pushes[0]))
            for s_ in ("memory_values_out", "reg_values_out"):
                R.ok(f"search|{s_}", detail=f"`any` over `{s_}` takes part in the decision (its closure is not evaluated by this rule)")
        else:
            R.bad("report-polarity", f"LostRegisterValue is reported under (copy on the stack, copy in a register) -> {table}; it must be reported only when there is neither", loc(pushes[0]))
        return
    st, nm, forced = flag
    if forced is False:
        R.ok("report-polarity", detail=f"LostRegisterValue is reported when `{nm}` is still false: no copy of the caller's value was found", where=loc(pushes[0]))
    else:
        R.bad("report-polarity", f"LostRegisterValue is reported when the search flag `{nm}` is TRUE - when a copy of the caller's value exists: the lint fires on every correctly saved register and keeps silent on a lost one", loc(pushes[0]))
    # every assignment sets it to true
    assigns = [a for a in walk(body, pats=False) if a.get("k") == "Assign" and peel(a["l"]).get("k") == "Path" and peel(a["l"]).get("res") == nm]
    for i_, a in enumerate(assigns):
        if lit_value(a["r"]) is True:
            continue
        R.bad(f"assign#{i_ + 1}", f"the search flag `{nm}` is assigned something other than `true` inside the search: a found copy is forgotten and the lint fires although the register was saved", loc(a))
    # both fact sources are searched, and each search sets the flag under `same register && offset == 0`
    for src in ("memory_values_out", "reg_values_out"):
        loops = [fl for fl in for_loops(body) if any(y.get("k") == "MethodCall" and y["name"] == src for y in walk(fl["iter"], pats=False))
                 or any(y.get("k") == "Path" and y.get("res_kind") == "Local" and any(z.get("k") == "MethodCall" and z["name"] == src for z in walk(local_inits(body).get(y["res"], {}), pats=False)) for y in walk(fl["iter"], pats=False))]
        key = f"search|{src}"
        if not loops:
            R.bad(key, f"the search does not look at `{src}`: a caller's value kept {'on the stack' if 'memory' in src else 'in another register'} is not recognised and the lint fires on correct code", st["sp"] if "sp" in st else g["sp"])
            continue
        sets = [a for fl in loops for a in walk(fl["body"], pats=False) if a in assigns or any(a is b for b in assigns)]
        if not sets:
            R.bad(key, f"the walk over `{src}` never sets `{nm}`: a copy of the caller's value {'in a stack slot' if 'memory' in src else 'in a register'} is not recognised - `sw s0, 0(sp)` before the write no longer counts as saving it", loc(loops[0]["node"]))
            continue
        a = sets[0]
        # the guards between the loop and the assignment
        variant_ok = False
        conds = []
        x = a
        while id(x) in pm and x is not loops[0]["body"]:
            par = pm[id(x)]
            if par.get("k") == "If":
                c = par["cond"]
                while c.get("k") in ("DropTemps", "Use"):
                    c = c["e"]
                if c.get("k") == "LetExpr":
                    if any(short(v or "") == AVO for k_, v in pat_variants(c["pat"]) if k_ == "path") or any((y.get("res") or "").endswith("::" + AVO) for y in walk(c["pat"])):
                        variant_ok = True
                else:
                    conds.append(c)
            if par.get("k") == "Match" and par.get("src") in (None, "Normal"):
                for arm in par["arms"]:
                    if arm is x or any(y is x for y in walk(arm["body"], pats=False)) or arm["body"] is x:
                        if any((y.get("res") or "").endswith("::" + AVO) for y in walk(arm["pat"])):
                            variant_ok = True
                        if arm.get("guard") is not None:
                            conds.append(arm["guard"])
            x = par

        def cls(e):
            if e.get("k") == "Binary" and e["op"] in ("Eq", "Ne") and (lit_value(e["a"]) == 0 or lit_value(e["b"]) == 0):
                return "zero" if e["op"] == "Eq" else "nonzero"
            if e.get("k") == "Binary" and e["op"] in ("Eq", "Ne") and any(y.get("k") == "MethodCall" and y["name"] in ("get", "get_cloned") for y in walk(e, pats=False)):
                return "same" if e["op"] == "Eq" else "other"
            return None
        wrong = None
        try:
            import itertools
            for same, zero in itertools.product((True, False), repeat=2):
                env = {"same": same, "other": not same, "zero": zero, "nonzero": not zero}
                got = all(bool_eval(c, cls, env) for c in conds)
                if got != (same and zero):
                    wrong = f"same register={same}, offset is 0={zero} -> flag set: {got}"
                    break
        except BoolUnx as ex:
            R.bad(key + "|unextractable", f"UNEXTRACTABLE: condition of the `{src}` search ({ex})", loc(a))
            continue
        if not variant_ok:
            R.bad(key, f"the `{src}` search does not test for an `OriginalRegisterWithScalar` fact", loc(a))
        elif wrong:
            R.bad(key, f"the `{src}` search sets the flag under the wrong condition ({wrong}); it must be exactly `same register && offset == 0`: otherwise a moved copy (`addi`) counts as the saved value, or the saved value itself does not", loc(a))
        else:
            R.ok(key, detail=f"`{nm}` is set when `{src}` holds OriginalRegisterWithScalar(the written register, 0)", where=loc(a))


@rule("C05", "C05.o.the-walk-is-not-abandoned-silently", floor=2)
def c05o(F, R):
    """a lint that gives up its walk over the graph (`break` out of the loop over the cfg nodes) says why before it leaves: the block that ends in the `break` pushes a diagnostic first. A bare `break` - the report deleted, the exit kept - stops the lint at the first offending node without a word, and with it every later report of that lint"""
    from .p_parse import parent_map
    n = 0
    for label, q in lint_fn_closure(F):
        g = F.fns.get(q)
        if not g or "hir" not in g:
            continue
        body = g["hir"]["value"]
        pm = parent_map(body)
        params = {p_.get("name") for p_ in g["hir"]["params"]}
        for fl in for_loops(body):
            it = peel(fl["iter"])
            while it.get("k") == "MethodCall" and it["name"] in ("iter", "into_iter", "rev", "clone") or it.get("k") in ("AddrOf",):
                it = peel(it.get("recv") or it.get("e"))
            if not (it.get("k") == "Path" and it.get("res_kind") == "Local" and it.get("res") in params and "Cfg" in (it.get("ty") or fl["iter"].get("ty") or "Cfg")):
                continue
            loop_node = None
            for y in walk(fl["node"], pats=False):
                if y.get("k") == "Loop":
                    loop_node = y
                    break
            if loop_node is None:
                continue
            for br in walk(fl["body"], pats=False):
                if br.get("k") != "Break" or (br.get("exp") or "").startswith("desugar"):
                    continue
                # does it leave the walk? labelled with the walk's label, or unlabelled with the walk as its innermost loop
                x, inner = br, None
                while id(x) in pm:
                    x = pm[id(x)]
                    if x.get("k") == "Loop":
                        inner = x
                        break
                leaves = (br.get("label") is not None and br.get("label") == loop_node.get("label")) or (br.get("label") is None and inner is loop_node)
                if not leaves:
                    continue
                n += 1
                blk = pm.get(id(br))
                while blk is not None and blk.get("k") != "Block":
                    blk = pm.get(id(blk))
                said = False
                if blk is not None:
                    for st in blk.get("stmts", []):
                        if st is br or any(y is br for y in walk(st, pats=False)):
                            break
                        if any(m.get("k") == "MethodCall" and m["name"] in ("push", "push_real") for m in walk(st, pats=False)):
                            said = True
                        # or hands the diagnostic list to a helper that reports
                        if any(m.get("k") in ("Call", "MethodCall") and any("DiagnosticManager" in (y.get("ty") or "") for a_ in m.get("args", []) for y in walk(a_, pats=False) if y.get("k") == "Path") for m in walk(st, pats=False)):
                            said = True
                key = f"{label}|exit#{n}"
                if said:
                    R.ok(key, detail="the walk is left after a diagnostic was pushed in the same block", where=loc(br))
                else:
                    R.bad(f"{label}|silent-exit", f"{label} leaves its walk over the graph without having reported anything in that block: the lint stops at the first node that takes this path, silently, and reports nothing for the rest of the program either", loc(br))


@rule("C05", "C05.p.every-load-and-store-names-its-address", floor=4)
def c05p(F, R):
    """the stack lints ask each node for the address it accesses (`uses_memory_location`): every load and every store answers with its base register and offset - whatever the stored register. A version that goes through a helper which leaves out stores of x0 makes `sw zero, 4(sp)` above the entry stack pointer invisible to the stack-offset lint"""
    from .nodeprops import eval_prop_full, Unx
    from .p_cfg import PNODE
    gp = F.fn(F.method(PNODE, "uses_memory_location", trait="InstructionProperties"))
    for kind, env, what in (("Store", {"inst": "Sw", "rs1": "X2", "rs2": "X5", "imm": 8}, "sw t0, 8(sp)"),
                            ("Store", {"inst": "Sw", "rs1": "X2", "rs2": "X0", "imm": 8}, "sw zero, 8(sp)"),
                            ("Store", {"inst": "Sb", "rs1": "X6", "rs2": "X2", "imm": 8}, "sb sp, 8(t1)"),
                            ("Load", {"inst": "Lw", "rs1": "X2", "rd": "X5", "imm": 8}, "lw t0, 8(sp)"),
                            ("Load", {"inst": "Lw", "rs1": "X2", "rd": "X0", "imm": 8}, "lw zero, 8(sp)")):
        key = f"{kind}|{what}"
        try:
            r = eval_prop_full(F, "uses_memory_location", kind, env, trait="InstructionProperties")
        except Unx as ex:
            R.bad(key + "|unextractable", f"UNEXTRACTABLE: uses_memory_location for `{what}` ({ex})", gp["sp"])
            continue
        want = ("some", (env["rs1"], env["imm"]))
        if r == want:
            R.ok(key, detail=f"`{what}` accesses {env['imm']}({env['rs1']})")
        else:
            R.bad(key, f"`{what}`: uses_memory_location answers {r}, not the base register and offset of the access: the stack lints (offset at or above the entry sp, garbage read exemption) do not see this access", gp["sp"])
