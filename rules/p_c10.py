"""C10 — deterministic, duplicate-free output: hash-order flow (G2), UUID ordering, per-label duplication."""
import re
from .core import rule, exempt
from .facts import *
from .g1 import reachable_bodies
from .g2 import *
from .mirutil import Body


def all_sources(F):
    """sources incl. wrapper propagation: functions that return a hash-ordered iterator / sequence, and
    iterator types whose `next` yields in hash order, become sources at their use sites"""
    reach, _ = reachable_bodies(F)
    G = G2(F)
    wrappers = {}
    iter_types = {}
    verdicts = {}
    for _round in range(8):
        src = sources(F, reach, set(wrappers), set(iter_types))
        new = False
        verdicts = {}
        for s in src:
            p, kind, n, pm = s
            v = G.classify(s)
            verdicts[id(n)] = v
            root = p.split("::{closure")[0]
            is_next = re.search(r"<(.+) as core::iter::traits::iterator::Iterator>::next$", root)
            if is_next and v[0] not in ("SAFE", "CANON"):
                ty = re.sub(r"<.*", "", is_next.group(1))
                if ty.startswith("riscv_analysis") and ty not in iter_types:
                    iter_types[ty] = v[1]
                    new = True
            elif v[0] == "RETURNS" and root not in wrappers:
                wrappers[root] = v[1]
                new = True
        if not new:
            break
    return src, wrappers, iter_types, reach, verdicts


def src_descr(s):
    p, kind, n, pm = s
    if kind == "for":
        return "for " + ekey(n["iter"])[:50]
    return (ekey(n.get("recv")) if n.get("k") == "MethodCall" else short(callee_of(n) or "")) + "." + (n.get("name") or "")


@rule("C10", "G2.hash-order-flow", floor=45)
def c10_g2(F, R):
    """every iteration over a hash-ordered container (incl. workspace wrappers that re-export hash order) is consumed order-insensitively, or only pushes one kind of diagnostic before the stable sort"""
    src, wrappers, iter_types, reach, verdicts = all_sources(F)
    cnt = {}
    for s in src:
        p, kind, n, pm = s
        root = p.split("::{closure")[0]
        v, detail, where = verdicts[id(n)]
        if re.search(r"<(.+) as core::iter::traits::iterator::Iterator>::next$", root) and re.sub(r"<.*", "", re.search(r"<(.+) as core", root).group(1)) in iter_types:
            v, detail = "RETURNS", "iterator impl whose visiting order is a hash order: every loop over this iterator type is classified as a source"
        base = f"{root}|{src_descr(s)[:60]}"
        cnt[base] = cnt.get(base, 0) + 1
        key = base if cnt[base] == 1 else f"{base}#{cnt[base]}"
        sp = (where or (n["node"] if kind == "for" else n)).get("sp") if isinstance(where or n, dict) else None
        if sp is None:
            sp = (n["node"] if kind == "for" else n).get("sp")
        if v in ("SAFE", "CANON"):
            R.ok(key, detail=f"{v}: {detail}", where=sp)
        elif v == "RETURNS":
            R.ok(key, detail=f"re-exported ({detail}); every caller is classified as a source", where=sp, trivial=True)
        else:
            why = exempt("G2.hash-order-flow", f"{key}|{v}")
            if why:
                R.ok(key, detail=f"E ({v}): {why}", where=sp)
            else:
                R.bad(f"{key}|{v}", f"{v}: {detail}", sp)
    for p, name, n in derived_hash_fields(F, reach):
        key = f"{p.split('::{closure')[0]}|derive(Serialize) field {name}|UNSAFE"
        why = exempt("G2.hash-order-flow", key)
        if why:
            R.ok(key, detail="E: " + why)
        else:
            R.bad(key, f"derive(Serialize) writes the hash container field `{name}` directly (no serialize_with that sorts): the dump order is the hash order", n.get("sp"))
    R.note(f"{len(src)} sources; functions that re-export hash order: {sorted(short(w) for w in wrappers)}; iterator types: {sorted(short(t) for t in iter_types)}")


def _file_ids_deterministic(F, f):
    """the Uuid comparisons in body f are all on a field called `file`, and no FileReader implementation in the analysed crates
    makes its file ids with Uuid::new_v4: returns a description, else None"""
    if "hir" not in f:
        return None
    cmps = [m for m in walk(f["hir"]["value"], pats=False) if m.get("k") == "MethodCall" and m["name"] in ("cmp", "partial_cmp") and "uuid::Uuid" in (peel(m["recv"]).get("ty") or "")]
    if not cmps or not all(peel(m["recv"]).get("k") == "Field" and peel(m["recv"])["name"] == "file" for m in cmps):
        return None
    readers = [i for i in F.impls if (i.get("trait") or "").split("::")[-1] == "FileReader"]
    if not readers:
        return None
    names = []
    for i in readers:
        ty = i["self_ty"]
        names.append(short(ty))
        for q, g in F.fns.items():
            if "hir" not in g or not (q.startswith(ty + "::") or q.startswith("<" + ty + " as ")):
                continue
            if any(c.get("k") == "Call" and (callee_of(c) or "").endswith("new_v4") for c in walk(g["hir"]["value"], pats=False)):
                return None
    return f"none of the file readers ({', '.join(sorted(names))}) makes file ids with Uuid::new_v4 (they are numbered in import order)"


@rule("C10", "G2.uuid-ordering", floor=1)
def c10_uuid(F, R):
    """no ordering decision on the output path compares random UUIDs (file / node identifiers)"""
    reach, parent = reachable_bodies(F)
    rx = re.compile(r"^<uuid::Uuid as core::cmp::(Ord|PartialOrd)>::|uuid::.*::(cmp|partial_cmp|lt|le|gt|ge)$")
    n = 0
    for p in sorted(reach):
        f = F.fns[p]
        if "mir" not in f or (f.get("exp") or "").startswith("Derive"):
            continue
        n += 1
        for b in f["mir"]["blocks"]:
            t = b["term"]
            if t["k"] == "Call" and rx.search(t.get("resolved") or t.get("callee") or ""):
                root = p.split("::{closure")[0]
                key = f"{root}|Uuid::cmp"
                why = exempt("G2.uuid-ordering", key)
                det = _file_ids_deterministic(F, f)
                if det:
                    R.ok(key, detail=f"`{root}` orders by the `file` id only, and {det}", where=t["sp"])
                    continue
                if why:
                    R.ok(key, detail="E: " + why)
                else:
                    R.bad(key, f"`{root}` orders by a Uuid: identifiers are random (Uuid::new_v4), so the resulting order differs from run to run", t["sp"])
    R.ok("bodies", detail=f"{n} reachable bodies scanned for Uuid comparisons")


@rule("C10", "G2.per-label-duplication", floor=1)
def c10_dup(F, R):
    """the label -> function map is many-to-one: iterating it and emitting per entry must de-duplicate by function identity"""
    reach, _ = reachable_bodies(F)
    fm = [q for q in F.fns if q.endswith("::Cfg::functions")]
    if not fm:
        raise Anchor("Cfg::functions not found")
    from .p_parse import parent_map
    n_sites = 0
    for p, f in sorted(F.fns.items()):
        if "hir" not in f or p not in reach:
            continue
        for lp in for_loops(f["hir"]["value"]):
            it = lp["iter"]
            calls = [c for c in walk(it, pats=False) if c.get("k") == "MethodCall" and callee_of(c) == fm[0]]
            if not calls:
                continue
            n_sites += 1
            root = p.split("::{closure")[0]
            emits = diag_kinds(lp["body"])
            dedup = any(c.get("k") == "MethodCall" and c["name"] in ("unique", "unique_by", "dedup", "dedup_by_key", "sorted") for c in walk(it, pats=False)) or \
                any(c.get("k") == "MethodCall" and c["name"] == "insert" and "id" in ekey(c) for c in walk(lp["body"], pats=False)) or \
                any(c.get("k") == "MethodCall" and c["name"] == "filter" and "insert" in ekey(c) for c in walk(it, pats=False))
            key = f"{root}|functions()"
            if emits and not dedup:
                R.bad(key, f"`{root}` iterates the label->function map and pushes {sorted(set(map(str, emits)))} per entry: a function with two called labels is diagnosed twice", lp["node"]["sp"])
            else:
                R.ok(key, detail="no per-entry emission" if not emits else "de-duplicated")
    # other consumers of functions(): lookups by label are fine
    R.ok("sites", detail=f"{n_sites} loop(s) over Cfg::functions()")


PUSHES = {"extend", "push", "push_back", "push_front", "append", "insert"}
POPS = {"pop", "pop_front", "pop_back"}


def worklists(F):
    """worklist loops: `while let Some(X) = Q.pop*() { .. Q.push*(..) .. }` in workspace code (not tests)"""
    out = []
    for q, g in sorted(F.fns.items()):
        if "hir" not in g or g.get("crate") not in (None, "riscv_analysis", "rva", "riscv_analysis_cli", "riscv_analysis_lsp"):
            continue
        for lp in walk(g["hir"]["value"], pats=False):
            if lp.get("k") != "Loop" or lp.get("src") != "While":
                continue
            b = lp["body"]
            iff = peel(b.get("expr") or {})
            if iff.get("k") != "If":
                continue
            c = iff["cond"]
            while c.get("k") in ("DropTemps", "Use"):
                c = c["e"]
            if c.get("k") != "LetExpr":
                continue
            init = peel(c["init"])
            if not (init.get("k") == "MethodCall" and init["name"] in POPS):
                continue
            Q = ekey(init["recv"]).lstrip("&*")
            binds = [x["name"] for x in walk(c["pat"]) if x.get("k") == "PBinding"]
            if len(binds) != 1:
                continue
            body = iff["then"]
            pushes = [m for m in walk(body, pats=False) if m.get("k") == "MethodCall" and m["name"] in PUSHES - {"insert"} and ekey(m["recv"]).lstrip("&*") == Q]
            if not pushes:
                continue
            out.append({"fn": q, "Q": Q, "X": binds[0], "body": body, "pushes": pushes, "loop": lp})
    return out


@rule("C10", "G2.worklist-visits-once", floor=2)
@rule("C06", "C06.w.worklist-visits-once", floor=2)
def g2_worklist(F, R):
    """every worklist loop processes a node at most once: the visited test sits where the node is marked (test-and-mark at pop time, or mark at push time); a search that marks at pop time but filters at push time queues a node twice when two nodes of one level share a predecessor - duplicate, hash-order dependent diagnostics - and one without any mark does not terminate on a cycle"""
    from .p_parse import parent_map
    for w in worklists(F):
        X, Q, body = w["X"], w["Q"], w["body"]
        name = short(w["fn"].split("::{closure")[0])
        mm = re.match(r"<(.+?) as ", w["fn"])
        owner = short(mm.group(1)) if mm else (w["fn"].split("::")[-2] if "::" in w["fn"] else "")
        key = f"{owner}::{name}" if name in ("next", "run") else name
        marks = [m for m in walk(body, pats=False) if m.get("k") == "MethodCall" and m["name"] == "insert" and ekey(m["recv"]).lstrip("&*") != Q
                 and any(x.get("k") == "Path" and x.get("res") == X for a in m["args"] for x in walk(a, pats=False))]
        if not marks:
            # marking at push time?
            push_marks = [m for m in walk(body, pats=False) if m.get("k") == "MethodCall" and m["name"] == "insert" and ekey(m["recv"]).lstrip("&*") != Q and "HashSet" in (m["recv"].get("ty", "") + m["recv"].get("aty", ""))]
            if push_marks:
                R.ok(key, detail=f"{key}: nodes are marked in `{ekey(push_marks[0]['recv'])}` when they are queued", where=loc(push_marks[0]))
            else:
                R.bad(key, f"{key}: the worklist `{Q}` has no visited set: a cycle in the graph is walked for ever", loc(w["loop"]))
            continue
        V = ekey(marks[0]["recv"]).lstrip("&*")
        stmts = (peel(body).get("stmts") or [])
        # position of the mark among the top-level statements
        def top_index(node):
            for i, st in enumerate(stmts):
                if any(y is node for y in walk(st, pats=False)):
                    return i
            return len(stmts)
        mi = top_index(marks[0])
        tested = False
        for st in stmts[:mi + 1]:
            e = st.get("e") or {}
            while e.get("k") in ("DropTemps", "Use"):
                e = e["e"]
            if e.get("k") != "If":
                continue
            cn = list(walk(e["cond"], pats=False))
            has_contains = any(m.get("k") == "MethodCall" and m["name"] == "contains" and ekey(m["recv"]).lstrip("&*") == V and any(x.get("k") == "Path" and x.get("res") == X for a in m["args"] for x in walk(a, pats=False)) for m in cn)
            neg_insert = any(u.get("k") == "Unary" and u["op"] == "Not" and any(m is marks[0] for m in walk(u, pats=False)) for u in cn)
            negated = any(u.get("k") == "Unary" and u["op"] == "Not" for u in cn)
            skips = any(y.get("k") in ("Continue",) for y in walk(e["then"], pats=False))
            if skips and ((has_contains and not negated) or neg_insert):
                tested = True
        first_push = min([top_index(p) for p in w["pushes"]] or [len(stmts)])
        # between the test and the mark no path may end the iteration: a node that leaves there stays unmarked and is
        # processed again every time another path reaches it
        ti = next((i for i, st in enumerate(stmts[:mi + 1]) if any(m.get("k") == "MethodCall" and m["name"] == "contains" and ekey(m["recv"]).lstrip("&*") == V for m in walk(st, pats=False))), None)
        early = []
        if tested and ti is not None:
            for st in stmts[ti + 1:mi]:
                inner_loops = {id(y) for lp_ in walk(st, pats=False) if lp_.get("k") == "Loop" for y in walk(lp_["body"], pats=False)}
                for y in walk(st, pats=False):
                    if y.get("k") in ("Continue", "Ret") and not (y.get("exp") or "").startswith("desugar") and (id(y) not in inner_loops or y.get("label")):
                        early.append(y)
                    if y.get("k") == "Break" and id(y) not in inner_loops and not (y.get("exp") or "").startswith("desugar"):
                        early.append(y)
        if tested and early:
            R.bad(key, f"{key}: an iteration can end (`{early[0]['k'].lower()}`) after the visited test and before `{V}.insert({X})`: a node that ends there - the one the search was looking for - is never marked and is processed again whenever another path reaches it, so what it reports is reported once per path", loc(early[0]))
        elif tested and mi <= first_push:
            R.ok(key, detail=f"{key}: `if {V}.contains(&{X}) {{ continue }}` then `{V}.insert({X})` before anything is queued", where=loc(marks[0]))
        elif not tested:
            R.bad(key, f"{key}: `{X}` is marked in `{V}` when it is popped, but nothing tests `{V}` at that point (a filter where nodes are queued does not help: a node is queued once per already-popped successor until its own first visit): the same node is processed twice, its predecessors are queued twice, and whether that happens depends on the iteration order of a HashSet", loc(marks[0]))
        else:
            R.bad(key, f"{key}: successors are queued before `{X}` is marked in `{V}`", loc(marks[0]))


NEUTRAL = {"cmp", "partial_cmp", "then_with", "then", "as_ref", "borrow", "deref", "clone", "as_str", "as_slice", "reverse", "unwrap_or", "eq", "ne"}


@rule("C18", "C18.p.the-sort-order-is-an-order", floor=2)
@rule("C10", "G2.ord-consistent-with-eq", floor=2)
def g2_ord(F, R):
    """sorting, `min`/`max` and ordered maps make hash-ordered data canonical only if the order is total on distinct values: every hand-written `Ord` compares (at least) the fields its `Eq` compares, without passing them through a non-injective transformation (`to_lowercase`, `len`, ...); two distinct values that compare `Equal` keep their hash order"""
    n = 0
    for i in F.impls:
        if (i.get("trait") or "") not in ("core::cmp::Ord",) and not (i.get("trait") or "").endswith("cmp::Ord"):
            continue
        cp = [it["path"] for it in i["items"] if it["name"] == "cmp"]
        if not cp or cp[0] not in F.fns:
            continue
        f = F.fns[cp[0]]
        if "hir" not in f or (f.get("exp") or "").startswith("Derive"):
            continue
        ty = i["self_ty"]
        name = short(ty.split("<")[0])
        n += 1
        body = f["hir"]["value"]
        ord_fields, lossy = set(), []
        from .p_parse import parent_map
        pm = parent_map(body)
        for fl in walk(body, pats=False):
            if fl.get("k") == "Field" and ekey(fl["e"]).lstrip("&*") in ("self", "other"):
                ord_fields.add(fl["name"])
                x = fl
                while id(x) in pm:
                    par = pm[id(x)]
                    if par.get("k") == "MethodCall" and par.get("recv") is x:
                        if par["name"] not in NEUTRAL:
                            lossy.append((fl["name"], par["name"], par))
                            break
                        if par["name"] in ("cmp", "partial_cmp"):
                            break
                        x = par
                        continue
                    if par.get("k") in ("AddrOf", "Unary", "DropTemps", "Use"):
                        x = par
                        continue
                    break
        # Eq: hand-written or derived
        eq_fields = None
        for j in F.impls:
            if j["self_ty"] == ty and (j.get("trait") or "").startswith("core::cmp::PartialEq") and (j.get("trait") in ("core::cmp::PartialEq", f"core::cmp::PartialEq<{ty}>") or (j.get("trait") or "").endswith("PartialEq")):
                ep = [it["path"] for it in j["items"] if it["name"] == "eq"]
                if ep and ep[0] in F.fns and "hir" in F.fns[ep[0]]:
                    g = F.fns[ep[0]]
                    if (g.get("exp") or "").startswith("Derive"):
                        continue
                    eq_fields = {fl["name"] for fl in walk(g["hir"]["value"], pats=False) if fl.get("k") == "Field" and ekey(fl["e"]).lstrip("&*") in ("self", "other")}
                    # a hand-written `==` that goes with an order is a conjunction of field equalities: an `||` or a `!=` in it
                    # makes values equal that the order tells apart (sort + dedup, BTree keys then behave by chance)
                    odd = [b_ for b_ in walk(g["hir"]["value"], pats=False) if (b_.get("k") == "Binary" and b_["op"] in ("Or", "Ne", "Lt", "Gt", "Le", "Ge")) or (b_.get("k") == "Unary" and b_["op"] == "Not")
                           or (b_.get("k") == "MethodCall" and b_["name"] == "ne")]
                    if odd:
                        R.bad(f"{name}|eq-not-a-conjunction", f"`==` for {name} is not a conjunction of field equalities (it contains `{odd[0].get('op') or odd[0].get('name')}`): two values can be equal although the order separates them, or unequal although it does not", loc(odd[0]))
        if eq_fields is None:
            try:
                adt = F.adt(ty.split("<")[0])
                eq_fields = {fl["name"] for v in adt["variants"] for fl in v["fields"]}
            except Exception:
                eq_fields = set()
        key = name
        why = exempt("G2.ord-consistent-with-eq", key)
        # every comparison in the body relates the same field of the two operands: `self.column.cmp(&self.column)` is always Equal
        # (the order then ignores the column: diagnostics on one line come out in title order), `self.line.cmp(&other.column)` is no order
        params = [p_.get("name") for p_ in f["hir"]["params"]]

        def side(e):
            e = peel(e)
            while e.get("k") in ("AddrOf", "DropTemps", "Use") or (e.get("k") == "Unary" and e.get("op") == "Deref") or (e.get("k") == "MethodCall" and e["name"] in NEUTRAL and not e["args"]):
                e = peel(e.get("e") or e.get("a") or e.get("recv"))
            path = []
            while e.get("k") == "Field":
                path.append(e["name"])
                e = peel(e["e"])
                while e.get("k") in ("AddrOf",) or (e.get("k") == "Unary" and e.get("op") == "Deref"):
                    e = peel(e.get("e") or e.get("a"))
            if e.get("k") == "Path" and e.get("res") in params:
                return e["res"], tuple(reversed(path))
            return None
        crossed = None
        for c_ in walk(body, pats=False):
            pair = None
            if c_.get("k") == "MethodCall" and c_["name"] in ("cmp", "partial_cmp", "eq", "ne", "lt", "le", "gt", "ge") and len(c_["args"]) == 1:
                pair = (side(c_["recv"]), side(c_["args"][0]))
            elif c_.get("k") == "Binary" and c_["op"] in ("Eq", "Ne", "Lt", "Le", "Gt", "Ge"):
                pair = (side(c_["a"]), side(c_["b"]))
            if pair and pair[0] and pair[1]:
                (r1, f1), (r2, f2) = pair
                if r1 == r2 or f1 != f2:
                    crossed = (c_, f"`{r1}.{'.'.join(f1)}` with `{r2}.{'.'.join(f2)}`")
        if crossed:
            R.bad(f"{name}|compares-unlike-operands", f"`Ord for {name}` compares {crossed[1]}: that step of the order says nothing about the two values (a value compared with itself is always `Equal`), so values that differ only there are left in the order they arrived in - diagnostics on one line come out in discovery / title order instead of by column", loc(crossed[0]))
            continue
        if lossy:
            fld, meth, node = lossy[0]
            R.bad(f"{name}|lossy", f"`Ord for {name}` compares `{fld}` through `{meth}()`: distinct values can compare `Equal` (e.g. labels that differ only in case), and wherever a hash-ordered collection of them is made canonical by sorting or `min()`, the tie keeps the hash order", loc(node))
        elif not eq_fields <= ord_fields and not why:
            R.bad(f"{name}|fields", f"`Ord for {name}` compares {sorted(ord_fields)} but equality looks at {sorted(eq_fields)}: values that differ only in {sorted(eq_fields - ord_fields)} compare `Equal` without being equal", f["sp"])
        else:
            R.ok(key, detail=(f"E: {why}" if why and not eq_fields <= ord_fields else f"Ord for {name} compares {sorted(ord_fields)} ⊇ Eq fields {sorted(eq_fields)}"))
    if n == 0:
        raise Anchor("no hand-written Ord impl found")


@rule("C18", "C18.g.partial-ord-agrees-with-ord", floor=2)
@rule("C10", "G2.partial-ord-agrees-with-ord", floor=2)
def g2_partial_ord(F, R):
    """`sort()` compares with `lt`, i.e. through `PartialOrd`: for every type that has a hand-written `Ord`, `partial_cmp` must be `Some(self.cmp(other))` (or delegate to the same field's `partial_cmp`); a `partial_cmp` that answers `None` for some pairs leaves those pairs unsorted"""
    ords = {}
    for i in F.impls:
        tr = i.get("trait") or ""
        if tr.endswith("cmp::Ord") or tr == "core::cmp::Ord":
            ords[i["self_ty"]] = i
    n = 0
    for i in F.impls:
        tr = i.get("trait") or ""
        if not (tr.startswith("core::cmp::PartialOrd") or tr.endswith("PartialOrd")):
            continue
        if i["self_ty"] not in ords:
            continue
        pp = [it["path"] for it in i["items"] if it["name"] == "partial_cmp"]
        if not pp or pp[0] not in F.fns or "hir" not in F.fns[pp[0]]:
            continue
        f = F.fns[pp[0]]
        if (f.get("exp") or "").startswith("Derive"):
            continue
        name = short(i["self_ty"].split("<")[0])
        n += 1
        b = peel(f["hir"]["value"])
        while b.get("k") == "Block" and not b.get("stmts") and b.get("expr") is not None:
            b = peel(b["expr"])
        params = [x.get("name") for x in f["hir"]["params"]]
        canon = b.get("k") == "Call" and short(callee_of(b) or "") == "Some" and peel(b["args"][0]).get("k") == "MethodCall" and peel(b["args"][0])["name"] == "cmp" \
            and ekey(peel(b["args"][0])["recv"]).lstrip("&*") == "self"
        deleg = b.get("k") == "MethodCall" and b["name"] == "partial_cmp" and ekey(b["recv"]).lstrip("&*").startswith("self.")
        if canon:
            R.ok(name, detail=f"PartialOrd for {name}: Some(self.cmp(other))")
        elif deleg:
            R.ok(name, detail=f"PartialOrd for {name} delegates to `{ekey(b['recv'])}`")
        else:
            R.bad(name, f"`PartialOrd for {name}` is not `Some(self.cmp(other))`: `sort()` orders through `lt`, so pairs for which partial_cmp answers None (e.g. diagnostics of different files) are left in discovery order although `Ord` orders them", f["sp"])
    if n == 0:
        raise Anchor("no hand-written PartialOrd next to an Ord")


def _coarse_eq_types(F):
    """workspace struct types whose hand-written `==` leaves out a field: {type base: [ignored fields]}"""
    out = {}
    for i in F.impls:
        if (i.get("trait") or "").split("::")[-1] != "PartialEq":
            continue
        ty = re.sub(r"<.*", "", i["self_ty"])
        a = F.adts.get(ty)
        if not a or len(a.get("variants", [])) != 1:
            continue
        tr = i.get("trait_ref") or ""
        # only `T == T`, not `T == U`
        if "PartialEq<" in tr and not tr.endswith("PartialEq<" + i["self_ty"] + ">>") and not tr.endswith("PartialEq>"):
            continue
        for it in i["items"]:
            if it["name"] != "eq":
                continue
            g = F.fns.get(it["path"])
            if not g or "hir" not in g or (g.get("exp") or "").startswith("Derive"):
                continue
            used = {n["name"] for n in walk(g["hir"]["value"], pats=False) if n.get("k") == "Field" and ekey(n["e"]).lstrip("&*") in ("self", "other")}
            used |= {m["name"] for m in walk(g["hir"]["value"], pats=False) if m.get("k") == "MethodCall" and ekey(m["recv"]).lstrip("&*") in ("self", "other")}
            fields = [f_["name"] for f_ in a["variants"][0]["fields"]]
            ignored = [f_ for f_ in fields if f_ not in used]
            if ignored and used:
                out[ty] = ignored
    return out


@rule("C10", "G2.report-once-filters-use-exact-keys", floor=1)
def c10_filters(F, R):
    """a lint may suppress repeats with a "seen" set, but which of two items survives such a filter depends on the order in which they arrive - for lints that order is a hash order - so the filter is only harmless when its key distinguishes everything the diagnostic shows: a key type whose `==` ignores a field (`With<T>` compares the register and forgets the token, i.e. the location) merges different diagnostics, and the survivor changes from run to run"""
    from .p_cfg import pass_impls, LINTPASS
    coarse = _coarse_eq_types(F)
    if not coarse:
        R.note("no struct with a hand-written `==` that ignores a field")
    R.ok("coarse-types", detail=f"types whose == ignores a field: { {short(k): v for k, v in coarse.items()} }")
    lints = pass_impls(F, LINTPASS)
    n = 0
    for ty, rp in sorted(lints.items()):
        g = F.fns.get(rp)
        if not g or "hir" not in g:
            continue
        bodies = [g] + [F.fns[q] for q in F.fns if q.startswith(rp + "::{closure") and "hir" in F.fns[q]]
        for b in bodies:
            for m in walk(b["hir"]["value"], pats=False):
                if m.get("k") == "MethodCall" and m["name"] in ("insert", "contains", "dedup", "dedup_by_key", "unique", "unique_by") and m.get("recv") is not None:
                    rty = strip_ty(recv_ty(m) or m["recv"].get("ty") or "")
                    if not (rty.startswith("std::collections::hash::set::HashSet") or rty.startswith("std::collections::hash::map::HashMap") or rty.startswith("alloc::vec::Vec") or rty.startswith("alloc::collections::btree")):
                        continue
                    hit = [t for t in coarse if t + "<" in rty or rty.endswith("<" + t + ">") or ("<" + t + ",") in rty]
                    if not hit:
                        continue
                    n += 1
                    t = hit[0]
                    R.bad(f"{short(ty)}|{m['name']}|{short(t)}", f"{short(ty)} filters what it reports through `{ekey(m)[:50]}` on a collection of `{short(t)}`, whose `==` ignores {coarse[t]}: two diagnostics at different places count as one, and which of them is reported depends on the (hash) order they are met in", loc(m))
    if n == 0:
        R.ok("lints", detail=f"{len(lints)} lints: no report-once filter keyed by a type with a coarse ==")


@rule("C10", "G2.per-function-duplication", floor=1)
def c10_perfunc(F, R):
    """a lint that walks the *functions* and reports something located on an instruction (not on the function) meets that instruction once per function that contains it: functions that overlap - a shared tail, one function falling into another - would get the same diagnostic twice, identical in kind, place, message and related information. Such a report is filtered through a "reported already" test whose key is exact (see G2.report-once-filters-use-exact-keys)"""
    from .p_cfg import pass_impls, LINTPASS
    from .p_parse import parent_map
    LE = "riscv_analysis::passes::lint_error::LintError"
    lints = pass_impls(F, LINTPASS)
    n = 0
    for ty, rp in sorted(lints.items()):
        g = F.fns.get(rp)
        if not g or "hir" not in g:
            continue
        body = g["hir"]["value"]
        pm = parent_map(body)
        for fl in for_loops(body):
            it = fl["iter"]
            if not any(m.get("k") == "MethodCall" and m["name"] == "functions" and ekey(m["recv"]).lstrip("&*") in ("cfg",) for m in walk(it, pats=False)):
                continue
            fvars = pat_names(fl["pat"]) if fl.get("pat") else set()
            for push in walk(fl["body"], pats=False):
                if not (push.get("k") == "MethodCall" and push["name"] in ("push", "push_real") and push["args"]):
                    continue
                ctor = [c for c in walk(push["args"][0], pats=False) if c.get("k") == "Call" and (callee_of(c) or "").startswith(LE + "::")]
                if not ctor:
                    continue
                n += 1
                v = short(callee_of(ctor[0]))
                carries_func = any(x.get("k") == "Path" and x.get("res") in fvars for a_ in ctor[0]["args"] for x in walk(a_, pats=False))
                key = f"{short(ty)}|{v}"
                if carries_func:
                    R.ok(key, detail="the diagnostic names the function it was found for (distinct per function)", where=loc(push))
                    continue
                # needs a report-once guard: an enclosing `if` inside the loop whose condition asks a collection declared outside the loop
                guarded = False
                x = push
                while id(x) in pm and x is not fl["body"]:
                    x = pm[id(x)]
                    if x.get("k") == "If":
                        for m in walk(x["cond"], pats=False):
                            if m.get("k") == "MethodCall" and m["name"] in ("contains", "insert", "any", "contains_key") and peel(m["recv"]).get("k") in ("Path", "MethodCall", "AddrOf", "Field"):
                                root = ekey(m["recv"]).lstrip("&*").split(".")[0]
                                declared_outside = any(st.get("k") == "Let" and st["pat"].get("k") == "PBinding" and st["pat"]["name"] == root and not any(y is st for y in walk(fl["body"], pats=False)) for st in walk(body, pats=False))
                                if declared_outside:
                                    guarded = True
                if guarded:
                    R.ok(key, detail="reported through a 'reported already' test kept across the functions", where=loc(push))
                else:
                    R.bad(key, f"{short(ty)} walks the functions and pushes `{v}`, whose payload does not say which function it was found for, without remembering what it has reported: an instruction shared by two functions (`fa:` falling into `fb:`) gets the identical diagnostic twice", loc(push))
    if n == 0:
        R.ok("none", detail="no lint pushes from inside a loop over the functions", trivial=True)
