"""C19 — the CFG dump is a faithful, reloadable serialization (structural clauses)."""
import re
from .core import rule, exempt
from .facts import *
from .p_c08 import arm_table, ctor_names, self_match

A = "riscv_analysis::analysis::"
MEMLOC = A + "memory_location::MemoryLocation"


def derived(F, trait_tag, name):
    for p, f in sorted(F.fns.items()):
        if (f.get("exp") or "").startswith(trait_tag) and short(p) == name and "hir" in f:
            yield p, f


def ser_type_of(path):
    m = re.search(r"impl serde(?:_core)?::ser::Serialize for ([^>]+)>::serialize$", path)
    return m.group(1) if m else None


def de_type_of(path):
    m = re.search(r"impl serde(?:_core)?::de::Deserialize<'de> for ([^>]+)>::deserialize::__FieldVisitor", path)
    return m.group(1) if m else None


def writer_tables(F):
    """type -> {'variants': [(idx, tag, where)], 'fields': [names]} from derive-generated Serialize impls."""
    out = {}
    for p, f in derived(F, "Derive:Serialize", "serialize"):
        ty = ser_type_of(p)
        if not ty:
            continue
        t = {"variants": [], "fields": [], "sp": f["sp"]}
        for n in walk(f["hir"]["value"]):
            if n.get("k") != "Call":
                continue
            c = short(callee_of(n) or declared_callee(n) or "")
            if c in ("serialize_unit_variant", "serialize_newtype_variant", "serialize_tuple_variant", "serialize_struct_variant"):
                idx, tag = lit_value(n["args"][2]), lit_value(n["args"][3])
                t["variants"].append((idx, tag, c))
            elif c == "serialize_field" and len(n["args"]) == 3 and isinstance(lit_value(n["args"][1]), str):
                t["fields"].append(lit_value(n["args"][1]))
        out[ty] = t
    return out


def reader_tables(F):
    """type -> [(tag, field index)] in match order, from the generated __FieldVisitor::visit_str."""
    out = {}
    for p, f in derived(F, "Derive:Deserialize", "visit_str"):
        ty = de_type_of(p)
        if not ty:
            continue
        rows = []
        for m in find_matches(f["hir"]["value"]):
            for k, arm in arm_table(m):
                if isinstance(k, str) and k != "_":
                    fs = [short(n.get("res")) for n in walk(arm["body"]) if n.get("k") == "Path" and "__Field::__field" in (n.get("res") or "")]
                    rows.append((k, int(fs[0].replace("__field", "")) if fs else None))
            break
        out[ty] = rows
    return out


@rule("C19", "C19.a.tag-injectivity", floor=60)
def c19a(F, R):
    """effective serde variant tags / field names (read from the derive-generated impls) are pairwise distinct and the generated reader maps each tag back to the same variant"""
    W = writer_tables(F)
    Rd = reader_tables(F)
    if len(W) < 20:
        raise Anchor(f"only {len(W)} derived Serialize impls found")
    for ty, t in sorted(W.items()):
        adt = F.adts.get(ty)
        vs = t["variants"]
        if vs:
            tags = {}
            for idx, tag, kind in vs:
                tags.setdefault(tag, []).append(idx)
            names = [v["name"] for v in adt["variants"]] if adt else []
            for tag, idxs in sorted(tags.items(), key=lambda x: str(x)):
                vn = [names[i] if i < len(names) else str(i) for i in idxs]
                if len(idxs) == 1:
                    R.ok(f"{ty}|tag|{tag}", detail=f"{short(ty)}::{vn[0]} <-> {tag!r}")
                else:
                    R.bad(f"{ty}|tag|{tag}", f"variants {vn} of {short(ty)} are all serialized with tag {tag!r}: they dump identically and the later ones reload as {vn[0]}", t["sp"])
            rd = Rd.get(ty)
            if rd is not None:
                first = {}
                for tag, fi in rd:
                    first.setdefault(tag, fi)
                for idx, tag, kind in vs:
                    if first.get(tag) == idx:
                        R.ok(f"{ty}|reader|{idx}")
                    elif len(tags[tag]) > 1:
                        pass  # already reported as a duplicate tag
                    else:
                        R.bad(f"{ty}|reader|{idx}", f"writer tags variant #{idx} {tag!r}; the generated reader maps {tag!r} to #{first.get(tag)}", t["sp"])
        if t["fields"]:
            dup = {x for x in t["fields"] if t["fields"].count(x) > 1}
            if dup:
                R.bad(f"{ty}|fields", f"duplicate serialized field names {sorted(dup)}", t["sp"])
            else:
                R.ok(f"{ty}|fields", detail=f"{short(ty)} fields {t['fields']}")


@rule("C19", "C19.b.memory-location-prefixes", floor=6)
def c19b_memloc(F, R):
    """hand-written MemoryLocation writer prefixes and reader strip_prefix table agree, and no reader test shadows a later one"""
    sp = F.method(MEMLOC, "serialize", trait_ref=r"ser::Serialize")
    sm = self_match(F, sp, MEMLOC)
    writer = {}
    for v, arm in arm_table(sm):
        pcs = format_calls_resolved(arm["body"], local_inits(arm["body"]))
        if len(pcs) != 1 or not pcs[0] or pcs[0][0][0] != "lit":
            R.bad(f"writer|{v}", f"UNEXTRACTABLE: cannot read the literal prefix written for {v}", loc(arm))
            continue
        writer[v] = pcs[0][0][1]
    # reader: the visitor's visit_str
    vp = None
    for i in F.impls:
        if (i.get("trait") or "").endswith("de::Visitor") and "MemoryLocationVisitor" in i["self_ty"]:
            for it in i["items"]:
                if it["name"] == "visit_str":
                    vp = it["path"]
    if vp is None:
        raise Anchor("MemoryLocationVisitor::visit_str not found")
    f = F.fn(vp)
    reader = []  # (prefix, [variants built in then-branch])
    for n in walk(f["hir"]["value"]):
        if n.get("k") != "If":
            continue
        c = n["cond"]
        while c.get("k") in ("DropTemps", "Use"):
            c = c["e"]
        if c.get("k") == "LetExpr":
            init = peel(c["init"])
            if init.get("k") == "MethodCall" and init["name"] == "strip_prefix":
                reader.append((lit_value(init["args"][0]), ctor_names(n["then"], MEMLOC)))
    if len(reader) < 3:
        raise Anchor("reader strip_prefix chain not found")
    for v, w in sorted(writer.items()):
        hit = None
        for pref, built in reader:
            if pref.startswith(w) or w.startswith(pref):
                hit = (pref, built)
                break
        if hit is None:
            R.bad(f"prefix|{v}", f"writer emits {w!r} for {v}; no reader branch accepts it", loc(sm))
        elif hit[0] != w or hit[1] != [v]:
            R.bad(f"prefix|{v}", f"writer emits {w!r} for {v}; the first reader test that can match is strip_prefix({hit[0]!r}) which builds {hit[1]}", f["sp"])
        else:
            R.ok(f"prefix|{v}", detail=f"{v}: writer {w!r} / reader strip_prefix({hit[0]!r})")
    for v in F.variants(MEMLOC):
        if v not in writer:
            R.bad(f"writer|{v}|missing", f"no writer arm for {v}", loc(sm))
    for pref, built in reader:
        if pref not in writer.values():
            R.bad(f"reader|{pref}", f"reader accepts prefix {pref!r} that the writer never emits", f["sp"])
        else:
            R.ok(f"reader|{pref}")


def _shape(ty):
    t = ty.replace("&", "").replace(" ", "")
    if re.match(r"(alloc::vec::Vec|std::collections::(hash::set::)?HashSet|alloc::collections::(btree::set::)?BTreeSet)<", t):
        return "seq"
    if re.match(r"(std::collections::(hash::map::)?HashMap|alloc::collections::(btree::map::)?BTreeMap)<", t):
        return "map"
    return None


@rule("C19", "C19.b.intermediate-types", floor=2)
def c19b_intermediate(F, R):
    """RegisterSet and AvailableValueMap serialize and deserialize through the same intermediate shape (sequence / map)"""
    for ty, label in (("riscv_analysis::cfg::register_set::RegisterSet", "RegisterSet"),
                      ("riscv_analysis::cfg::available_value_map::AvailableValueMap<T>", "AvailableValueMap")):
        sp = F.method(ty, "serialize", trait_ref=r"ser::Serialize")
        dp = F.method(ty, "deserialize", trait_ref=r"de::Deserialize")
        w = None
        for n in walk(F.fn(sp)["hir"]["value"]):
            if n.get("k") == "MethodCall" and n["name"] == "serialize":
                w = _shape(n["recv"].get("ty", ""))
            elif n.get("k") == "MethodCall" and n["name"] in ("collect_seq", "serialize_seq"):
                w = "seq"
            elif n.get("k") == "MethodCall" and n["name"] in ("collect_map", "serialize_map"):
                w = "map"
        r = None
        for n in walk(F.fn(dp)["hir"]["value"]):
            if n.get("k") == "Call" and short(declared_callee(n) or "") == "deserialize":
                ga = n["f"].get("gargs") or []
                r = _shape(ga[0]) if ga else None
        if w and r and w == r:
            R.ok(label, detail=f"{label}: writes a {w}, reads a {r}")
        else:
            R.bad(label, f"{label} is written as {w} but read as {r}", F.fn(sp)["sp"])


NODEW = "riscv_analysis::cfg::test_wrapper::NodeWrapper"
CFGNODE = "riscv_analysis::cfg::node::CfgNode"
SPLIT = {"function": ["func_entry", "func_exit"]}
NEEDS = {"func_entry": {"functions", "entry"}, "func_exit": {"functions", "exit"}}


@rule("C19", "C19.c.field-coverage", floor=12)
def c19c(F, R):
    """every edge set, fact and function annotation of CfgNode has a NodeWrapper field initialised from it; skipped serde fields are identity/location only"""
    cf = [n for n, t in F.struct_fields(CFGNODE)]
    wf = [n for n, t in F.struct_fields(NODEW)]
    fp = F.method(NODEW, "from")
    f = F.fn(fp)
    st = None
    for n in walk(f["hir"]["value"]):
        if n.get("k") == "Struct" and n.get("res") == NODEW:
            st = n
    if st is None:
        raise Anchor("NodeWrapper::from does not build a NodeWrapper literal")
    inits = {x["name"]: x["e"] for x in st["fields"]}
    node_param = f["hir"]["params"][0].get("name")
    for c in cf:
        targets = SPLIT.get(c, [c])
        if c == "segment":
            why = exempt("C19.c.field-coverage", "CfgNode.segment")
            if why:
                R.ok("CfgNode.segment", detail="exempt: " + why, trivial=True)
            else:
                R.bad("CfgNode.segment", "CfgNode.segment is not dumped")
            continue
        for t in targets:
            if t not in wf:
                R.bad(f"CfgNode.{c}", f"CfgNode.{c} has no counterpart `{t}` in NodeWrapper: two results differing only there dump identically", F.adt(NODEW)["sp"])
                continue
            e = inits.get(t)
            used = set()
            for n in walk(e):
                if n.get("k") == "MethodCall":
                    used.add(n["name"])
                if n.get("k") == "Field":
                    used.add(n["name"])
            need = NEEDS.get(t, {c})
            mentions_node = any(n.get("k") == "Path" and n.get("res") == node_param for n in walk(e))
            if need <= used and mentions_node:
                R.ok(f"CfgNode.{c}->{t}", detail=f"{t} <- node.{'/'.join(sorted(need))}")
            else:
                R.bad(f"CfgNode.{c}->{t}", f"NodeWrapper.{t} is not initialised from node.{'/'.join(sorted(need))} (uses {sorted(used)[:6]})", loc(e))
    for t in wf:
        if t not in inits:
            R.bad(f"NodeWrapper.{t}", "field not initialised in NodeWrapper::from", loc(st))
    # effective serde(skip): struct fields that the derived writer does not emit
    W = writer_tables(F)
    allow = {"key", "token", "file"}
    for ty, t in sorted(W.items()):
        adt = F.adts.get(ty)
        if not adt or adt["kind"] != "struct" or not ty.startswith("riscv_analysis::"):
            continue
        sf = [n for n, _ in F.struct_fields(ty)]
        if not t["fields"]:
            continue
        skipped = [x for x in sf if x not in t["fields"]]
        for s in skipped:
            key = f"skip|{ty}.{s}"
            if s in allow:
                R.ok(key, trivial=True)
            else:
                why = exempt("C19.c.field-coverage", key)
                if why:
                    R.ok(key, detail="exempt: " + why, trivial=True)
                else:
                    R.bad(key, f"{short(ty)}.{s} is skipped by the serializer but is not an identity/location field", adt["sp"])
        if ty == NODEW:
            for x in sf:
                if x in t["fields"]:
                    R.ok(f"written|NodeWrapper.{x}")
                else:
                    R.bad(f"written|NodeWrapper.{x}", f"NodeWrapper.{x} is not written by the derived serializer", adt["sp"])


# ---------------------------------------------------------------------------- C19.d
from .g1 import ty_range

DIG = set("0123456789")


class Unx(Exception):
    pass


def _writer_tokens(arm, binds):
    """tokens written for one MemoryLocation variant: ('lit', s) | ('num', k, ty, plus, via) | ('mag', k, ty) | ('sign', k, neg, pos)"""
    calls = format_calls_resolved(arm["body"], local_inits(arm["body"]))
    if len(calls) != 1:
        raise Unx(f"{len(calls)} format! calls in the writer arm")
    toks = []
    for pc in calls[0]:
        if pc[0] == "lit":
            toks.append(("lit", pc[1]))
            continue
        a = pc[1]
        e = peel(a["e"])
        if a["how"] != "display":
            raise Unx(f"placeholder rendered with {a['how']}")
        plus = bool(a["flags"] & SIGN_PLUS)
        if e.get("k") == "Path" and e.get("res") in binds:
            toks.append(("num", binds.index(e["res"]), a["ty"], plus, None))
        elif e.get("k") == "MethodCall" and not e["args"] and peel(e["recv"]).get("k") == "Path" and peel(e["recv"]).get("res") in binds:
            k = binds.index(peel(e["recv"])["res"])
            if e["name"] == "unsigned_abs":
                toks.append(("mag", k, e.get("ty")))
            else:
                toks.append(("num", k, e.get("ty"), plus, callee_of(e)))
        elif e.get("k") == "If" and e.get("else") is not None:
            c = peel(e["cond"])
            while c.get("k") in ("DropTemps", "Use"):
                c = peel(c["e"])
            neg, pos = lit_value(_tail(e["then"])), lit_value(_tail(e["else"]))
            lhs = peel(c.get("a") or {})
            while lhs.get("k") in ("AddrOf",) or (lhs.get("k") == "Unary" and lhs.get("op") == "Deref"):
                lhs = peel(lhs.get("e") or lhs.get("a"))
            if c.get("k") == "Binary" and c["op"] == "Lt" and lhs.get("k") == "Path" and lhs.get("res") in binds and _zero(c["b"]) and isinstance(neg, str) and isinstance(pos, str):
                toks.append(("sign", binds.index(lhs["res"]), neg, pos))
            else:
                raise Unx(f"conditional placeholder `{ekey(e)[:60]}`")
        else:
            raise Unx(f"placeholder `{ekey(e)[:60]}`")
    return toks


def _tail(b):
    b = peel(b)
    while b.get("k") == "Block" and not b.get("stmts") and b.get("expr") is not None:
        b = peel(b["expr"])
    return b


def _zero(e):
    e = peel(e)
    while e.get("k") in ("AddrOf", "Unary"):
        e = peel(e.get("e") or e.get("a"))
    return lit_value(e) == 0


def _alphabet(t):
    if t[0] == "lit":
        return set(t[1])
    if t[0] == "num":
        a = set(DIG)
        r = ty_range(t[2])
        if r and r[0] < 0:
            a.add("-")
        if t[3]:
            a.add("+")
        return a
    if t[0] == "mag":
        return set(DIG)
    if t[0] == "sign":
        return set(t[2]) | set(t[3])
    return set()


def _unq(e):
    """strip `expr?` / `.map_err(..)` / `.unwrap()` wrappers"""
    e = peel(e)
    while True:
        if e.get("k") == "Match" and e.get("src") == "TryDesugar":
            e = peel(peel(e["scrut"])["args"][0])
        elif e.get("k") == "MethodCall" and e["name"] in ("map_err", "unwrap", "expect", "ok_or", "ok_or_else"):
            e = peel(e["recv"])
        else:
            return e


def _reader_check(then, toks, variant, nfields, field_tys):
    """interpret the reader branch over the writer's token sequence; returns list of problems"""
    probs = []
    env = {}

    def parse_piece(piece, T, where):
        tr = ty_range(T)
        if tr is None:
            raise Unx(f"parse::<{T}>")
        kinds = [t[0] for t in piece]
        if kinds == ["num"]:
            _, k, ty, plus, via = piece[0]
            r = ty_range(ty)
            if r[0] < 0 and tr[0] >= 0:
                probs.append((f"field{k}|signedness", f"field {k} is written as {ty} (can be negative) but read with parse::<{T}>", where))
            elif r[0] < tr[0] or r[1] > tr[1]:
                probs.append((f"field{k}|range", f"field {k} is written as {ty} but read with parse::<{T}>: values outside {tr} cannot be reloaded", where))
            return ("val", k, via)
        if kinds == ["mag"]:
            _, k, ty = piece[0]
            fr = ty_range(field_tys[k])
            top = max(abs(fr[0]), abs(fr[1]))
            if top > tr[1]:
                probs.append((f"field{k}|magnitude-range", f"the magnitude of field {k} ({field_tys[k]}: up to {top}) is read with parse::<{T}> (max {tr[1]}): {variant}({fr[0]}) is written as a dump that cannot be loaded", where))
            return ("abs", k)
        if kinds == ["sign", "mag"] and piece[0][1] == piece[1][1] and tr[0] < 0 and piece[0][2] == "-" and piece[0][3] in ("", "+"):
            return ("val", piece[0][1], None)
        raise Unx(f"a piece made of {kinds} is parsed as {T}")

    def str_tokens(e):
        e = _unq(e)
        if e.get("k") == "Path" and e.get("res") in env and env[e["res"]][0] == "str":
            return env[e["res"]][1]
        if e.get("k") == "MethodCall" and e["name"] == "next" and peel(e["recv"]).get("k") == "Path" and env.get(peel(e["recv"])["res"], ("",))[0] == "split":
            st = env[peel(e["recv"])["res"]]
            pieces, cur = st[1], st[2]
            if cur[0] >= len(pieces):
                probs.append(("split|too-many-next", f"the reader takes piece #{cur[0] + 1} of a text that the writer builds from {len(pieces)} piece(s)", loc(e)))
                raise Unx("piece index")
            cur[0] += 1
            return pieces[cur[0] - 1]
        raise Unx(f"string source `{ekey(e)[:60]}`")

    def ev_let(st):
        init = _unq(st["init"])
        pat = st["pat"]
        if init.get("k") == "MethodCall" and init["name"] == "split_at" and lit_value(init["args"][0]) == 1 and pat.get("k") == "PTuple":
            src = str_tokens(init["recv"])
            names = [b["name"] for b in walk(pat) if b.get("k") == "PBinding"]
            head = src[0] if src else None
            if head and head[0] == "sign" and len(head[2]) == 1 and len(head[3]) == 1:
                env[names[0]] = ("signval", head[1], head[2], head[3])
                env[names[1]] = ("str", src[1:])
            elif head and head[0] == "lit" and len(head[1]) >= 1:
                env[names[0]] = ("litval", head[1][0])
                env[names[1]] = ("str", ([("lit", head[1][1:])] if head[1][1:] else []) + src[1:])
            else:
                probs.append(("split_at|first-char", f"the reader takes the first character as a sign, but the writer starts the text with {head}: a digit can be taken for the sign", loc(init)))
                raise Unx("split_at")
            return
        if init.get("k") == "MethodCall" and init["name"] == "split" and pat.get("k") == "PBinding":
            src = str_tokens(init["recv"])
            a = peel(init["args"][0])
            sep = lit_value(a)
            if isinstance(sep, str) and len(sep) >= 1:
                seps = {sep} if len(sep) > 1 else set(sep)
            elif a.get("k") == "Array":
                seps = {lit_value(x) for x in a["elems"]}
            else:
                raise Unx(f"split pattern `{ekey(a)}`")
            sepchars = set("".join(seps))
            pieces = [[]]
            for t in src:
                if t[0] == "lit":
                    txt = t[1]
                    if all(ch in sepchars for ch in txt) and len(seps) and all(len(x) == 1 for x in seps):
                        for _ in txt:
                            pieces.append([])
                    elif txt in seps:
                        pieces.append([])
                    elif not (set(txt) & sepchars):
                        pieces[-1].append(t)
                    else:
                        raise Unx(f"literal {txt!r} partly made of separators {sorted(seps)}")
                else:
                    hit = _alphabet(t) & sepchars
                    if hit:
                        probs.append((f"split|separator-in-field{t[1]}", f"the reader splits at {sorted(seps)} but field {t[1]} is written with characters {sorted(hit)} (its sign): the sign is consumed as a separator, so e.g. -4 reloads as 4 / as another piece", loc(init)))
                    pieces[-1].append(t)
            env[pat["name"]] = ("split", pieces, [0])
            return
        if init.get("k") == "MethodCall" and init["name"] in ("split_once", "rsplit_once") and pat.get("k") == "PTuple" and init["name"] == "split_once":
            src = str_tokens(init["recv"])
            a = peel(init["args"][0])
            sep = lit_value(a)
            if isinstance(sep, str) and len(sep) == 1:
                sepchars = {sep}
            elif a.get("k") == "Array" and all(isinstance(lit_value(x), str) and len(lit_value(x)) == 1 for x in a["elems"]):
                sepchars = {lit_value(x) for x in a["elems"]}
            else:
                raise Unx(f"split_once pattern `{ekey(a)}`")
            names = [b_["name"] for b_ in walk(pat) if b_.get("k") == "PBinding"]
            before, after, cut = [], None, False
            for i_, t in enumerate(src):
                if cut:
                    after.append(t)
                    continue
                if t[0] == "lit":
                    idx = next((j for j, ch in enumerate(t[1]) if ch in sepchars), None)
                    if idx is None:
                        before.append(t)
                        continue
                    if t[1][:idx]:
                        before.append(("lit", t[1][:idx]))
                    after = [("lit", t[1][idx + 1:])] if t[1][idx + 1:] else []
                    cut = True
                    continue
                hit = _alphabet(t) & sepchars
                if not hit:
                    before.append(t)
                    continue
                if t[0] == "sign" and _alphabet(t) <= sepchars:
                    # the whole sign token is the separator: its information is thrown away
                    probs.append((f"split_once|separator-is-the-sign-of-field{t[1]}", f"the reader cuts the text at the first of {sorted(sepchars)}, which is the sign the writer puts in front of field {t[1]}: the sign is dropped as a separator, so {variant}(.., -4) is written `..-4` and loads back as +4", loc(init)))
                    after = []
                    cut = True
                    continue
                probs.append((f"split_once|separator-in-field{t[1]}", f"the reader cuts at {sorted(sepchars)} but field {t[1]} can itself contain {sorted(hit)}", loc(init)))
                raise Unx("split_once inside a field")
            if not cut or len(names) != 2:
                probs.append(("split_once|no-separator", f"the reader cuts at {sorted(sepchars)} but the writer never emits one", loc(init)))
                raise Unx("split_once")
            env[names[0]] = ("str", before)
            env[names[1]] = ("str", after)
            return
        if pat.get("k") == "PBinding":
            env[pat["name"]] = ev_expr(st["init"])
            return
        raise Unx(f"reader statement `{ekey(init)[:70]}`")

    def ev_expr(e):
        e = _unq(e)
        k = e.get("k")
        if k == "Path" and e.get("res") in env:
            return env[e["res"]]
        if k == "MethodCall" and e["name"] == "parse":
            T = (e.get("gargs") or ["?"])[-1]
            return parse_piece(str_tokens(e["recv"]), T, loc(e))
        if k == "Call" and len(e["args"]) == 1 and short(callee_of(e) or declared_callee(e) or "") in ("new", "try_from", "from"):
            return ev_expr(e["args"][0])
        if k == "MethodCall" and not e["args"] and e["name"] in ("into", "try_into"):
            return ev_expr(e["recv"])
        if k == "Cast":
            v = ev_expr(e["e"])
            tr = ty_range(e.get("ty"))
            if v[0] == "val" and tr:
                fr = ty_range(field_tys[v[1]])
                if fr[0] < tr[0] or fr[1] > tr[1]:
                    probs.append((f"field{v[1]}|cast", f"field {v[1]} ({field_tys[v[1]]}) is narrowed with `as {e.get('ty')}` while loading", loc(e)))
            return v
        if k == "Block" and not e.get("stmts") and e.get("expr") is not None:
            return ev_expr(e["expr"])
        if k == "If" and e.get("else") is not None:
            c = peel(e["cond"])
            while c.get("k") in ("DropTemps", "Use"):
                c = peel(c["e"])
            th, el = _tail(e["then"]), _tail(e["else"])
            if c.get("k") == "Binary" and c["op"] == "Eq":
                sv = env.get(peel(c["a"]).get("res"))
                lit = lit_value(c["b"])
                neg = th.get("k") == "Unary" and th.get("op") == "Neg" and ev_expr(th["a"])
                pos = ev_expr(el)
                if sv and sv[0] == "signval" and lit == sv[2] and neg and neg[0] == "abs" and pos == neg and neg[1] == sv[1]:
                    return ("val", sv[1], None)
        raise Unx(f"reader expression `{ekey(e)[:70]}`")

    blk = peel(then)
    env["__rest__"] = ("str", toks)
    return probs, env, blk, ev_let, ev_expr


@rule("C19", "C19.d.memory-location-grammar", floor=2)
def c19d(F, R):
    """the hand-written MemoryLocation text format round-trips: interpreting the reader's split/parse steps over the writer's format pieces returns every field, with its sign and full range"""
    sp = F.method(MEMLOC, "serialize", trait_ref=r"ser::Serialize")
    sm = self_match(F, sp, MEMLOC)
    vp = None
    for i in F.impls:
        if (i.get("trait") or "").endswith("de::Visitor") and "MemoryLocationVisitor" in i["self_ty"]:
            for it in i["items"]:
                if it["name"] == "visit_str":
                    vp = it["path"]
    if vp is None:
        raise Anchor("MemoryLocationVisitor::visit_str not found")
    rf = F.fn(vp)
    branches = {}
    for n in walk(rf["hir"]["value"]):
        if n.get("k") == "If":
            c = n["cond"]
            while c.get("k") in ("DropTemps", "Use"):
                c = c["e"]
            if c.get("k") == "LetExpr":
                init = peel(c["init"])
                if init.get("k") == "MethodCall" and init["name"] == "strip_prefix":
                    b = [x["name"] for x in walk(c["pat"]) if x.get("k") == "PBinding"]
                    branches[lit_value(init["args"][0])] = (b[0], n["then"])
    adt = F.adt(MEMLOC)
    # every string the writer emits comes from an arm of the template table that is interpreted below: a second path (a fast
    # path with precomputed keys, an early return) writes text that nothing relates to the reader
    wf = F.fn(sp)
    in_table = {id(x) for x in walk(sm, pats=False)}
    emits = [m for m in walk(wf["hir"]["value"], pats=False) if m.get("k") == "MethodCall" and m["name"].startswith("serialize_")]
    wl = local_inits(wf["hir"]["value"])
    # `let key = match self { .. => format!(..) }; serializer.serialize_str(&key)`: one emission of what the table yields
    via_table = lambda m: any(y is sm for a_ in m["args"] for y in walk_expanded(a_, wl))
    outside = [m for m in emits if id(m) not in in_table and not via_table(m)]
    if outside:
        R.bad("writer|outside-the-template-table", f"Serialize for MemoryLocation emits text through `{ekey(outside[0])[:60]}` outside its per-variant `format!` table: keys written on that path are not derived from the field by the template the reader inverts (two locations can share one key, or a key can load back as another location)", loc(outside[0]))
    else:
        R.ok("writer|single-table", detail=f"all {len(emits)} emissions are arms of the per-variant template table", where=loc(sm))
    for v, arm in arm_table(sm):
        if v == "_":
            continue
        vd = [x for x in adt["variants"] if x["name"] == v][0]
        field_tys = [fl["ty"] for fl in vd["fields"]]
        binds = [b["name"] for b in walk(arm["pat"]) if b.get("k") == "PBinding"]
        probs = []
        try:
            toks = _writer_tokens(arm, binds)
            if not toks or toks[0][0] != "lit":
                raise Unx("writer text does not start with a literal prefix")
            pref = [p_ for p_ in branches if toks[0][1].startswith(p_)]
            pref = [p_ for p_ in pref if p_ == max(pref, key=len)]
            if not pref:
                raise Unx(f"no reader branch for {toks[0][1]!r}")
            bname, then = branches[pref[0]]
            rest = toks[0][1][len(pref[0]):]
            rtoks = ([("lit", rest)] if rest else []) + toks[1:]
            # CsrImm-typed fields are written through .value() (u32)
            ftys = []
            for k, t in enumerate(field_tys):
                ftys.append("u32" if t.endswith("CsrImm") else t)
            probs, env, blk, ev_let, ev_expr = _reader_check(then, rtoks, v, len(field_tys), ftys)
            env[bname] = ("str", rtoks)
            for st in blk.get("stmts") or []:
                if st.get("k") == "Let":
                    ev_let(st)
                else:
                    raise Unx(f"reader statement kind {st.get('k')}")
            res = _unq(blk["expr"])
            if not (res.get("k") == "Call" and short(callee_of(res) or "") == "Ok"):
                raise Unx("reader branch does not end in Ok(..)")
            ctor = peel(res["args"][0])
            if not (ctor.get("k") == "Call" and (callee_of(ctor) or "") == MEMLOC + "::" + v):
                probs.append(("ctor", f"text written for {v} is read back as `{ekey(ctor)[:60]}`", loc(ctor)))
            else:
                for j, a in enumerate(ctor["args"]):
                    got = ev_expr(a)
                    if not got or got[0] != "val":
                        raise Unx(f"constructor argument {j}: `{ekey(a)[:60]}` evaluates to {got}")
                    if got[1] != j:
                        probs.append((f"field{j}|swapped", f"{v}: constructor field {j} is rebuilt from written field {got[1]}", loc(a)))
                if len(ctor["args"]) != len(field_tys):
                    raise Unx("constructor arity")
            # fields written through an accessor (`csr.value()`) and rebuilt through a constructor (`CsrImm::new(n)`): the two must be
            # inverse to each other, i.e. a plain projection of the stored value and a plain wrap of it
            for t in toks:
                if t[0] == "num" and t[4]:
                    acc = F.fns.get(t[4])
                    if acc and "hir" in acc:
                        ab = peel(acc["hir"]["value"])
                        while ab.get("k") == "Block" and not ab.get("stmts") and ab.get("expr") is not None:
                            ab = peel(ab["expr"])
                        plain = ab.get("k") == "Field" and ekey(ab["e"]).lstrip("&*") == "self"
                        if not plain:
                            probs.append((f"field{t[1]}|accessor", f"field {t[1]} is written through `{short(t[4])}()`, which is not a plain read of the stored value (`{ekey(ab)[:40]}`): two different values can be written as the same text, and the text does not load back to the value", acc["sp"]))
                        own = t[4].rsplit("::", 1)[0]
                        ctor = F.fns.get(own + "::new")
                        if ctor and "hir" in ctor:
                            cb = peel(ctor["hir"]["value"])
                            while cb.get("k") == "Block" and not cb.get("stmts") and cb.get("expr") is not None:
                                cb = peel(cb["expr"])
                            pn = [x.get("name") for x in ctor["hir"]["params"]]
                            wraps = cb.get("k") == "Call" and len(cb["args"]) == 1 and peel(cb["args"][0]).get("k") == "Path" and peel(cb["args"][0]).get("res") in pn
                            if not wraps:
                                probs.append((f"field{t[1]}|constructor", f"`{short(own)}::new` does not simply wrap its argument (`{ekey(cb)[:40]}`): the reader rebuilds field {t[1]} through it", ctor["sp"]))
            if probs:
                for k, msg, where in probs:
                    R.bad(f"{v}|{k}", f"{v}: {msg}", where)
            else:
                R.ok(v, detail=f"{v}: writer {[t[0] if t[0] != 'lit' else t[1] for t in toks]} is inverted by the reader branch strip_prefix({pref[0]!r})")
        except Unx as ex:
            if probs:
                for k, msg, where in probs:
                    R.bad(f"{v}|{k}", f"{v}: {msg}", where)
            else:
                R.bad(f"{v}|unextractable", f"UNEXTRACTABLE: {v}: {ex}", loc(arm))


@rule("C19", "C19.g.indices-refer-to-the-listed-order", floor=2)
def c19g(F, R):
    """the dump names nodes by their position in the dumped list: the edges (`nexts`, `prevs`) and the function annotations (`func_entry`, `func_exit`) of a node are positions found by searching one enumeration of the graph, and the list itself is written in that same enumeration. Listing the nodes in another order (file by file, say) while the positions still come from the program order makes every index after the first difference point at the wrong entry - the dump reloads, as a different graph"""
    wf = [q for q in F.fns if q.endswith("::from") and "test_wrapper::CfgWrapper as core::convert::From<&riscv_analysis::cfg::graph::Cfg>" in q]
    nf = [q for q in F.fns if q.endswith("::from") and "test_wrapper::NodeWrapper" in q and "{closure" not in q]
    if not wf or not nf:
        raise Anchor("CfgWrapper::from / NodeWrapper::from not found")

    def cfg_enums(g):
        """calls of enumerating methods on a `Cfg` value in g (closures included): [(callee, node)]"""
        out = []
        for m in walk(g["hir"]["value"], pats=False):
            if m.get("k") == "MethodCall" and not m["args"] and "cfg::graph::Cfg" in (recv_ty_(m) or "") and m["name"].startswith(("iter", "nodes", "into_iter")):
                out.append((callee_of(m) or m["name"], m))
        return out

    def recv_ty_(m):
        r = peel(m["recv"])
        return r.get("ty") or r.get("aty") or ""
    lst = cfg_enums(F.fn(wf[0]))
    if len(lst) != 1:
        R.bad("list|shape", f"UNEXTRACTABLE: CfgWrapper::from enumerates the graph {len(lst)} times", F.fn(wf[0])["sp"])
        return
    L = lst[0][0]
    R.ok("list", detail=f"the node list is written in the order of `{short(L)}`", where=loc(lst[0][1]))
    n = 0
    for q in nf:
        g = F.fn(q)
        for c, m in cfg_enums(g):
            # only enumerations that are searched for a position
            from .p_parse import parent_map
            pm = parent_map(g["hir"]["value"])
            par = pm.get(id(m))
            while par is not None and par.get("k") in ("DropTemps", "Use", "AddrOf"):
                par = pm.get(id(par))
            if not (par is not None and par.get("k") == "MethodCall" and par["name"] in ("position", "enumerate", "rposition")):
                continue
            n += 1
            if c == L:
                R.ok(f"index|{n}", detail=f"position in `{short(c)}`", where=loc(m))
            else:
                R.bad(f"index|{short(c)}", f"NodeWrapper::from finds positions in `{short(c)}`, the list is written in the order of `{short(L)}`: when the two orders differ (a program with an `.include` in the middle) the indices of edges and function annotations name other nodes than the ones they came from", loc(m))
    if n == 0:
        R.bad("index|shape", "UNEXTRACTABLE: no position search over the graph found in NodeWrapper::from", F.fn(nf[0])["sp"])
