"""C19 — the CFG dump is a faithful, reloadable serialization (structural clauses)."""
import re
from .core import rule, exempt
from .facts import *
from .p_c08 import arm_table, ctor_names, self_match

A = "riscv_analysis::analysis::"
MEMLOC = A + "memory_location::MemoryLocation"


def derived(F, trait_tag, name):
    for p, f in sorted(F.fns.items()):
        if (f.get("exp") or "").startswith(trait_tag) and short(p) == name and "hir" in f:
            yield p, f


def ser_type_of(path):
    m = re.search(r"impl serde(?:_core)?::ser::Serialize for ([^>]+)>::serialize$", path)
    return m.group(1) if m else None


def de_type_of(path):
    m = re.search(r"impl serde(?:_core)?::de::Deserialize<'de> for ([^>]+)>::deserialize::__FieldVisitor", path)
    return m.group(1) if m else None


def writer_tables(F):
    """type -> {'variants': [(idx, tag, where)], 'fields': [names]} from derive-generated Serialize impls."""
    out = {}
    for p, f in derived(F, "Derive:Serialize", "serialize"):
        ty = ser_type_of(p)
        if not ty:
            continue
        t = {"variants": [], "fields": [], "sp": f["sp"]}
        for n in walk(f["hir"]["value"]):
            if n.get("k") != "Call":
                continue
            c = short(callee_of(n) or declared_callee(n) or "")
            if c in ("serialize_unit_variant", "serialize_newtype_variant", "serialize_tuple_variant", "serialize_struct_variant"):
                idx, tag = lit_value(n["args"][2]), lit_value(n["args"][3])
                t["variants"].append((idx, tag, c))
            elif c == "serialize_field" and len(n["args"]) == 3 and isinstance(lit_value(n["args"][1]), str):
                t["fields"].append(lit_value(n["args"][1]))
        out[ty] = t
    return out


def reader_tables(F):
    """type -> [(tag, field index)] in match order, from the generated __FieldVisitor::visit_str."""
    out = {}
    for p, f in derived(F, "Derive:Deserialize", "visit_str"):
        ty = de_type_of(p)
        if not ty:
            continue
        rows = []
        for m in find_matches(f["hir"]["value"]):
            for k, arm in arm_table(m):
                if isinstance(k, str) and k != "_":
                    fs = [short(n.get("res")) for n in walk(arm["body"]) if n.get("k") == "Path" and "__Field::__field" in (n.get("res") or "")]
                    rows.append((k, int(fs[0].replace("__field", "")) if fs else None))
            break
        out[ty] = rows
    return out


@rule("C19", "C19.a.tag-injectivity", floor=60)
def c19a(F, R):
    """effective serde variant tags / field names (read from the derive-generated impls) are pairwise distinct and the generated reader maps each tag back to the same variant"""
    W = writer_tables(F)
    Rd = reader_tables(F)
    if len(W) < 20:
        raise Anchor(f"only {len(W)} derived Serialize impls found")
    for ty, t in sorted(W.items()):
        adt = F.adts.get(ty)
        vs = t["variants"]
        if vs:
            tags = {}
            for idx, tag, kind in vs:
                tags.setdefault(tag, []).append(idx)
            names = [v["name"] for v in adt["variants"]] if adt else []
            for tag, idxs in sorted(tags.items(), key=lambda x: str(x)):
                vn = [names[i] if i < len(names) else str(i) for i in idxs]
                if len(idxs) == 1:
                    R.ok(f"{ty}|tag|{tag}", detail=f"{short(ty)}::{vn[0]} <-> {tag!r}")
                else:
                    R.bad(f"{ty}|tag|{tag}", f"variants {vn} of {short(ty)} are all serialized with tag {tag!r}: they dump identically and the later ones reload as {vn[0]}", t["sp"])
            rd = Rd.get(ty)
            if rd is not None:
                first = {}
                for tag, fi in rd:
                    first.setdefault(tag, fi)
                for idx, tag, kind in vs:
                    if first.get(tag) == idx:
                        R.ok(f"{ty}|reader|{idx}")
                    elif len(tags[tag]) > 1:
                        pass  # already reported as a duplicate tag
                    else:
                        R.bad(f"{ty}|reader|{idx}", f"writer tags variant #{idx} {tag!r}; the generated reader maps {tag!r} to #{first.get(tag)}", t["sp"])
        if t["fields"]:
            dup = {x for x in t["fields"] if t["fields"].count(x) > 1}
            if dup:
                R.bad(f"{ty}|fields", f"duplicate serialized field names {sorted(dup)}", t["sp"])
            else:
                R.ok(f"{ty}|fields", detail=f"{short(ty)} fields {t['fields']}")


@rule("C19", "C19.b.memory-location-prefixes", floor=6)
def c19b_memloc(F, R):
    """hand-written MemoryLocation writer prefixes and reader strip_prefix table agree, and no reader test shadows a later one"""
    sp = F.method(MEMLOC, "serialize", trait_ref=r"ser::Serialize")
    sm = self_match(F, sp, MEMLOC)
    writer = {}
    for v, arm in arm_table(sm):
        pcs = format_pieces(arm["body"])
        if len(pcs) != 1 or not pcs[0] or pcs[0][0][0] != "lit":
            R.bad(f"writer|{v}", f"UNEXTRACTABLE: cannot read the literal prefix written for {v}", loc(arm))
            continue
        writer[v] = pcs[0][0][1]
    # reader: the visitor's visit_str
    vp = None
    for i in F.impls:
        if (i.get("trait") or "").endswith("de::Visitor") and "MemoryLocationVisitor" in i["self_ty"]:
            for it in i["items"]:
                if it["name"] == "visit_str":
                    vp = it["path"]
    if vp is None:
        raise Anchor("MemoryLocationVisitor::visit_str not found")
    f = F.fn(vp)
    reader = []  # (prefix, [variants built in then-branch])
    for n in walk(f["hir"]["value"]):
        if n.get("k") != "If":
            continue
        c = n["cond"]
        while c.get("k") in ("DropTemps", "Use"):
            c = c["e"]
        if c.get("k") == "LetExpr":
            init = peel(c["init"])
            if init.get("k") == "MethodCall" and init["name"] == "strip_prefix":
                reader.append((lit_value(init["args"][0]), ctor_names(n["then"], MEMLOC)))
    if len(reader) < 3:
        raise Anchor("reader strip_prefix chain not found")
    for v, w in sorted(writer.items()):
        hit = None
        for pref, built in reader:
            if pref.startswith(w) or w.startswith(pref):
                hit = (pref, built)
                break
        if hit is None:
            R.bad(f"prefix|{v}", f"writer emits {w!r} for {v}; no reader branch accepts it", loc(sm))
        elif hit[0] != w or hit[1] != [v]:
            R.bad(f"prefix|{v}", f"writer emits {w!r} for {v}; the first reader test that can match is strip_prefix({hit[0]!r}) which builds {hit[1]}", f["sp"])
        else:
            R.ok(f"prefix|{v}", detail=f"{v}: writer {w!r} / reader strip_prefix({hit[0]!r})")
    for v in F.variants(MEMLOC):
        if v not in writer:
            R.bad(f"writer|{v}|missing", f"no writer arm for {v}", loc(sm))
    for pref, built in reader:
        if pref not in writer.values():
            R.bad(f"reader|{pref}", f"reader accepts prefix {pref!r} that the writer never emits", f["sp"])
        else:
            R.ok(f"reader|{pref}")


def _shape(ty):
    t = ty.replace("&", "").replace(" ", "")
    if re.match(r"(alloc::vec::Vec|std::collections::(hash::set::)?HashSet|alloc::collections::(btree::set::)?BTreeSet)<", t):
        return "seq"
    if re.match(r"(std::collections::(hash::map::)?HashMap|alloc::collections::(btree::map::)?BTreeMap)<", t):
        return "map"
    return None


@rule("C19", "C19.b.intermediate-types", floor=2)
def c19b_intermediate(F, R):
    """RegisterSet and AvailableValueMap serialize and deserialize through the same intermediate shape (sequence / map)"""
    for ty, label in (("riscv_analysis::cfg::register_set::RegisterSet", "RegisterSet"),
                      ("riscv_analysis::cfg::available_value_map::AvailableValueMap<T>", "AvailableValueMap")):
        sp = F.method(ty, "serialize", trait_ref=r"ser::Serialize")
        dp = F.method(ty, "deserialize", trait_ref=r"de::Deserialize")
        w = None
        for n in walk(F.fn(sp)["hir"]["value"]):
            if n.get("k") == "MethodCall" and n["name"] == "serialize":
                w = _shape(n["recv"].get("ty", ""))
        r = None
        for n in walk(F.fn(dp)["hir"]["value"]):
            if n.get("k") == "Call" and short(declared_callee(n) or "") == "deserialize":
                ga = n["f"].get("gargs") or []
                r = _shape(ga[0]) if ga else None
        if w and r and w == r:
            R.ok(label, detail=f"{label}: writes a {w}, reads a {r}")
        else:
            R.bad(label, f"{label} is written as {w} but read as {r}", F.fn(sp)["sp"])


NODEW = "riscv_analysis::cfg::test_wrapper::NodeWrapper"
CFGNODE = "riscv_analysis::cfg::node::CfgNode"
SPLIT = {"function": ["func_entry", "func_exit"]}
NEEDS = {"func_entry": {"functions", "entry"}, "func_exit": {"functions", "exit"}}


@rule("C19", "C19.c.field-coverage", floor=12)
def c19c(F, R):
    """every edge set, fact and function annotation of CfgNode has a NodeWrapper field initialised from it; skipped serde fields are identity/location only"""
    cf = [n for n, t in F.struct_fields(CFGNODE)]
    wf = [n for n, t in F.struct_fields(NODEW)]
    fp = F.method(NODEW, "from")
    f = F.fn(fp)
    st = None
    for n in walk(f["hir"]["value"]):
        if n.get("k") == "Struct" and n.get("res") == NODEW:
            st = n
    if st is None:
        raise Anchor("NodeWrapper::from does not build a NodeWrapper literal")
    inits = {x["name"]: x["e"] for x in st["fields"]}
    node_param = f["hir"]["params"][0].get("name")
    for c in cf:
        targets = SPLIT.get(c, [c])
        if c == "segment":
            why = exempt("C19.c.field-coverage", "CfgNode.segment")
            if why:
                R.ok("CfgNode.segment", detail="exempt: " + why, trivial=True)
            else:
                R.bad("CfgNode.segment", "CfgNode.segment is not dumped")
            continue
        for t in targets:
            if t not in wf:
                R.bad(f"CfgNode.{c}", f"CfgNode.{c} has no counterpart `{t}` in NodeWrapper: two results differing only there dump identically", F.adt(NODEW)["sp"])
                continue
            e = inits.get(t)
            used = set()
            for n in walk(e):
                if n.get("k") == "MethodCall":
                    used.add(n["name"])
                if n.get("k") == "Field":
                    used.add(n["name"])
            need = NEEDS.get(t, {c})
            mentions_node = any(n.get("k") == "Path" and n.get("res") == node_param for n in walk(e))
            if need <= used and mentions_node:
                R.ok(f"CfgNode.{c}->{t}", detail=f"{t} <- node.{'/'.join(sorted(need))}")
            else:
                R.bad(f"CfgNode.{c}->{t}", f"NodeWrapper.{t} is not initialised from node.{'/'.join(sorted(need))} (uses {sorted(used)[:6]})", loc(e))
    for t in wf:
        if t not in inits:
            R.bad(f"NodeWrapper.{t}", "field not initialised in NodeWrapper::from", loc(st))
    # effective serde(skip): struct fields that the derived writer does not emit
    W = writer_tables(F)
    allow = {"key", "token", "file"}
    for ty, t in sorted(W.items()):
        adt = F.adts.get(ty)
        if not adt or adt["kind"] != "struct" or not ty.startswith("riscv_analysis::"):
            continue
        sf = [n for n, _ in F.struct_fields(ty)]
        if not t["fields"]:
            continue
        skipped = [x for x in sf if x not in t["fields"]]
        for s in skipped:
            key = f"skip|{ty}.{s}"
            if s in allow:
                R.ok(key, trivial=True)
            else:
                why = exempt("C19.c.field-coverage", key)
                if why:
                    R.ok(key, detail="exempt: " + why, trivial=True)
                else:
                    R.bad(key, f"{short(ty)}.{s} is skipped by the serializer but is not an identity/location field", adt["sp"])
        if ty == NODEW:
            for x in sf:
                if x in t["fields"]:
                    R.ok(f"written|NodeWrapper.{x}")
                else:
                    R.bad(f"written|NodeWrapper.{x}", f"NodeWrapper.{x} is not written by the derived serializer", adt["sp"])
