"""G4 rules: ownership (who-may-call), pairing and ordering over the CFG /
analysis passes.  Serves C01, C02, C03, C11, C12."""
import json, os, re
from .core import rule, exempt, VERIF
from .facts import *
from .p_c08 import self_match, arm_table, ctor_names, PNODE, IPROPS
from .regs import REG, HRS

CFGNODE = "riscv_analysis::cfg::node::CfgNode"
CFG = "riscv_analysis::cfg::graph::Cfg"
FUNC = "riscv_analysis::cfg::function::Function"
GENPASS = "GenerationPass"
LINTPASS = "LintPass"
AVMAP = "riscv_analysis::cfg::available_value_map::AvailableValueMap<T>"
AVMAP_R = "riscv_analysis::cfg::available_value_map::AvailableValueMap<riscv_analysis::parser::register::Register>"
RSET = "riscv_analysis::cfg::register_set::RegisterSet"
MANAGER = "riscv_analysis::passes::manager::Manager"
VALUE_FIELDS = {"reg_values_in", "reg_values_out", "memory_values_in", "memory_values_out"}
LIVE_FIELDS = {"live_in", "live_out", "u_def"}


def inherent_methods(F, ty):
    out = {}
    for i in F.impls:
        if i["self_ty"] == ty and i.get("trait") is None:
            for it in i["items"]:
                out[it["name"]] = it["path"]
    return out


def edge_mutators(F):
    """{path: (field, op)}: CfgNode methods that borrow_mut `nexts`/`prevs`."""
    out = {}
    for name, p in inherent_methods(F, CFGNODE).items():
        f = F.fns.get(p)
        if not f or "hir" not in f:
            continue
        for n in walk(f["hir"]["value"]):
            if n.get("k") == "MethodCall" and n["name"] == "borrow_mut":
                r = peel(n["recv"])
                if r.get("k") == "Field" and r["name"] in ("nexts", "prevs"):
                    # the operation applied to the borrowed set
                    op = None
                    for m in walk(f["hir"]["value"]):
                        if m.get("k") == "MethodCall" and m["name"] in ("insert", "remove", "clear", "extend", "retain", "drain"):
                            op = m["name"]
                    out[p] = (r["name"], op or "other")
    return out


def fact_setters(F):
    """{path: field}: CfgNode methods whose body is `self.<field>.replace_if_changed(..)`."""
    out = {}
    for name, p in inherent_methods(F, CFGNODE).items():
        f = F.fns.get(p)
        if not f or "hir" not in f:
            continue
        for n in walk(f["hir"]["value"]):
            if n.get("k") == "MethodCall" and n["name"] == "replace_if_changed":
                r = peel(n["recv"])
                if r.get("k") == "Field" and r["name"] in VALUE_FIELDS | LIVE_FIELDS:
                    out[p] = r["name"]
    return out


def pass_impls(F, trait):
    """{self type: run path}"""
    out = {}
    for i in F.impls_of(trait):
        for it in i["items"]:
            if it["name"] == "run":
                out[i["self_ty"]] = it["path"]
    return out


def root_fn(path):
    return path.split("::{closure")[0]


def owner_type(F, fnpath):
    """self type of the impl a function (or closure root) belongs to, or None."""
    r = root_fn(fnpath)
    for i in F.impls:
        for it in i["items"]:
            if it["path"] == r:
                return i["self_ty"]
    return None


def hir_sites(F, targets, crate_prefix="riscv_analysis"):
    """[(root fn path, call node)] for every HIR call whose resolved callee is in targets."""
    out = []
    for p, f in sorted(F.fns.items()):
        if "hir" not in f:
            continue
        for n in walk(f["hir"]["value"]):
            if n.get("k") in ("MethodCall", "Call") and callee_of(n) in targets:
                out.append((p, n))
    return out


def known_return(F, p, at, who, depth=0):
    """is the node named `who` at the HIR node `at` of fn `p` known to be a return? - it is reached only under `who.is_return()`
    (`who` may be a clone of the tested name), or `who` is a parameter of a private function whose every caller passes such a node"""
    from .p_parse import parent_map
    f = F.fn(p)
    body = f["hir"]["value"]
    pm = parent_map(body)
    lets = local_inits(body)
    seen = 0
    while who in lets and seen < 4:       # `let found_ret = Rc::clone(&node);`
        nxt = ekey(lets[who]).lstrip("&*")
        if nxt == who or not nxt.isidentifier():
            break
        who, seen = nxt, seen + 1

    def says(c):
        c = peel(c)
        while c.get("k") in ("DropTemps", "Use"):
            c = peel(c["e"])
        if c.get("k") == "Binary" and c["op"] == "And":
            return says(c["a"]) or says(c["b"])
        return c.get("k") == "MethodCall" and c["name"] == "is_return" and not c["args"] and ekey(c["recv"]).lstrip("&*") == who
    if any(want and says(c) for c, want in path_constraints(pm, at)):
        return True
    params = [q.get("name") if q.get("k") == "PBinding" else None for q in f["hir"].get("params", [])]
    if who in params and depth < 2 and (f.get("vis") or "").startswith("Restricted"):
        idx = params.index(who)
        sites = hir_sites(F, {p})
        if not sites:
            return False
        for q, c in sites:
            allargs = ([c["recv"]] if c.get("k") == "MethodCall" else []) + list(c["args"])
            if idx >= len(allargs):
                return False
            a = ekey(allargs[idx]).lstrip("&*")
            if not a.isidentifier() or not known_return(F, q, c, a, depth + 1):
                return False
        return True
    return False


# ============================================================================ C03
@rule("C03", "C03.a.edge-pairing", floor=6)
def c03a(F, R):
    """every mutation of `nexts` is paired with the mirror mutation of `prevs` on the other endpoint in the same function (or the bulk idiom)"""
    muts = edge_mutators(F)
    if len(muts) < 6:
        raise Anchor(f"only {len(muts)} edge mutators discovered")
    byname = {short(p): p for p in muts}
    sites = hir_sites(F, set(muts))
    per_fn = {}
    for p, n in sites:
        per_fn.setdefault(p, []).append(n)
    mirror = {"insert_next": "insert_prev", "insert_prev": "insert_next", "remove_next": "remove_prev", "remove_prev": "remove_next"}
    for p, ns in sorted(per_fn.items()):
        f = F.fn(p)
        calls = []
        for n in ns:
            recv, args = call_recv_args(n)
            calls.append((short(callee_of(n)), ekey(recv), ekey(args[0]) if args else None, n))
        loops = list(for_loops(f["hir"]["value"]))
        loopvar = {}
        for lp in loops:
            if lp["pat"] is not None and lp["pat"].get("k") == "PBinding":
                loopvar[lp["pat"]["name"]] = ekey(lp["iter"])
        cnt = {}
        for name, x, y, n in calls:
            inst = f"{p}|{name}({x},{y})" if y else f"{p}|{name}({x})"
            cnt[inst] = cnt.get(inst, 0) + 1
            key = inst if cnt[inst] == 1 else f"{inst}#{cnt[inst]}"
            if name in mirror:
                partner = any(n2 == mirror[name] and x2 == y and y2 == x for n2, x2, y2, _ in calls)
                bulk = False
                if not partner and name.startswith("remove_"):
                    # for V in Y.<other>() { V.remove_X(Y) } ; Y.clear_<other>()
                    other = "prevs" if name == "remove_next" else "nexts"
                    it = loopvar.get(x)
                    if it is not None and it.startswith(f"{y}.{other}(") and any(n2 == f"clear_{other}" and x2 == y for n2, x2, y2, _ in calls):
                        bulk = True
                if partner or bulk:
                    R.ok(key, detail=f"{name}({x},{y}) paired by {'mirror call' if partner else 'bulk idiom'}", where=loc(n))
                else:
                    R.bad(key, f"`{x}.{name}({y})` has no mirror `{y}.{mirror[name]}({x})` in the same function: successor and predecessor sets stop being inverses", loc(n))
            elif name in ("clear_nexts", "clear_prevs"):
                side = name.split("_")[1]           # nexts | prevs
                rm = "remove_prev" if side == "nexts" else "remove_next"
                okk = any(n2 == rm and y2 == x and loopvar.get(x2, "").startswith(f"{x}.{side}(") for n2, x2, y2, _ in calls)
                if okk:
                    R.ok(key, detail=f"{name}({x}) preceded by a loop removing {x} from every {side[:-1]}'s other side", where=loc(n))
                else:
                    why = exempt("C03.a.edge-pairing", key)
                    if side == "nexts" and x.isidentifier() and known_return(F, p, n, x):
                        # a return has no successors to unlink: NodeDirectionPass resets the fall-through after a return and a return has no
                        # jump target (C11.a / C03.e decide that); a return rewired earlier is a jump by then (set_node) and is not a return
                        R.ok(key, detail=f"{name}({x}) on a node that is known to be a return here (`is_return()` dominates): a return has no successors whose prevs would have to be fixed", where=loc(n))
                    elif why:
                        R.ok(key, detail="exempt: " + why)
                    else:
                        R.bad(key, f"`{x}.{name}()` without removing `{x}` from the {'prevs' if side == 'nexts' else 'nexts'} of each node it pointed to", loc(n))
            else:
                R.bad(key, f"unknown edge mutator `{name}`", loc(n))


@rule("C03", "C03.b.edge-ownership", floor=6)
def c03b(F, R):
    """edge sets are mutated only by CFG-generation passes (never by a lint or an analysis pass)"""
    muts = edge_mutators(F)
    setters = fact_setters(F)
    gens = pass_impls(F, GENPASS)
    # generation passes that own facts are analyses, not edge owners
    fact_owner_types = set()
    for s in setters:
        for (caller, bi, t) in F.callers_of(s):
            fact_owner_types.add(owner_type(F, caller))
    edge_owner_types = {t for t in gens if t not in fact_owner_types}
    n = 0
    for m in sorted(muts):
        for (caller, bi, t) in F.callers_of(m):
            n += 1
            ot = owner_type(F, caller)
            key = f"{root_fn(caller)}|{short(m)}"
            if ot in edge_owner_types:
                R.ok(key + f"|{n}", trivial=False)
            else:
                R.bad(key, f"`{short(m)}` is called from `{root_fn(caller)}` (owner {ot}), which is not a CFG-generation pass; allowed owners: {sorted(short(x) for x in edge_owner_types)}", t["sp"])


@rule("C03", "C03.c.exit-ecalls", floor=2)
def c03c(F, R):
    """program-exit ecalls are exactly {10, 93} and edges are cut only under that predicate"""
    ref = json.load(open(os.path.join(VERIF, "reference", "rars_ecalls.json")))
    want = set(ref["exit_services"])
    p = inherent_methods(F, CFGNODE).get("is_program_exit")
    if not p:
        raise Anchor("CfgNode::is_program_exit not found")
    f = F.fn(p)
    nums = {n["lit"]["v"] for n in walk(f["hir"]["value"]) if n.get("k") == "Lit" and n["lit"]["t"] == "int"}
    nums |= {lit_value(n) for n in walk(f["hir"]["value"]) if n.get("k") == "Path" and n.get("res_kind") in ("Const", "AssocConst") and isinstance(lit_value(n), int)}
    uses_known = any(n.get("k") == "MethodCall" and n["name"] == "known_ecall" for n in walk(f["hir"]["value"]))
    if nums == want and uses_known:
        R.ok("exit-set", detail=f"is_program_exit compares known_ecall() with {sorted(nums)}", where=f["sp"])
    else:
        R.bad("exit-set", f"is_program_exit recognises ecall numbers {sorted(nums)}; the exit services are {sorted(want)}", f["sp"])
    # EcallTerminationPass: all mutations under `if node.is_program_exit()`
    gens = pass_impls(F, GENPASS)
    et = [rp for t, rp in gens.items() if t.endswith("EcallTerminationPass")]
    if not et:
        raise Anchor("EcallTerminationPass not found")
    g = F.fn(et[0])
    muts = edge_mutators(F)
    cgr = F.callgraph()

    def reaches_mut(c, depth=0):
        if c in muts:
            return True
        if depth >= 3 or c not in F.fns:
            return False
        return any(reaches_mut(q, depth + 1) for q in cgr.get(c, ()) if q in F.fns)
    guarded = set()
    from .p_parse import parent_map as _pm3
    pm3 = _pm3(g["hir"]["value"])

    def _cls_exit(e):
        return "exit" if e.get("k") == "MethodCall" and callee_of(e) == p else None
    for m in walk(g["hir"]["value"]):
        if m.get("k") in ("MethodCall", "Call") and reaches_mut(callee_of(m)) and implied_by_path(pm3, m, _cls_exit, "exit"):
            guarded.add(id(m))
    tot = 0
    for m in walk(g["hir"]["value"]):
        if m.get("k") in ("MethodCall", "Call") and reaches_mut(callee_of(m)):
            tot += 1
            if id(m) in guarded:
                R.ok(f"cut|{short(callee_of(m))}|{tot}")
            else:
                R.bad(f"cut|{short(callee_of(m))}", "EcallTerminationPass mutates an edge outside `if node.is_program_exit()`", loc(m))
    if tot < 1:
        R.bad("cut|none", "EcallTerminationPass no longer cuts edges at exit ecalls", g["sp"])
    # helper functions of the pass that mutate edges are called only from the guarded sites above
    oty = owner_type(F, et[0])
    for i in F.impls:
        if i["self_ty"] == oty:
            for it in i["items"]:
                hp = it["path"]
                if hp != et[0] and hp in F.fns and reaches_mut(hp):
                    cs = {root_fn(c) for c, bi, t in F.callers_of(hp)}
                    if cs <= {et[0]}:
                        R.ok(f"helper|{short(hp)}", detail=f"{short(hp)} is only called from run")
                    else:
                        R.bad(f"helper|{short(hp)}", f"edge-cutting helper {short(hp)} is also called from {sorted(cs - {et[0]})}", F.fn(hp)["sp"])


@rule("C03", "C03.d.no-edge-after-jump", floor=3)
def c03d(F, R):
    """fall-through is suppressed exactly after `ret` and unconditional jumps; the unconditional-jump table only contains always-taken forms"""
    gens = pass_impls(F, GENPASS)
    nd = [rp for t, rp in gens.items() if t.endswith("NodeDirectionPass")]
    if not nd:
        raise Anchor("NodeDirectionPass not found")
    f = F.fn(nd[0])
    found = False
    lets_ = {s_["pat"]["name"]: s_ for s_ in walk(f["hir"]["value"], pats=False) if s_.get("k") == "Let" and s_["pat"].get("k") == "PBinding" and s_.get("init") is not None}

    def _cls_fall(e):
        if e.get("k") == "MethodCall" and e["name"] == "is_return":
            return "ret"
        if e.get("k") == "MethodCall" and e["name"] == "is_unconditional_jump":
            return "uj"
        if e.get("k") == "Path" and e.get("res_kind") == "Local" and e.get("res") in lets_ and (peel(lets_[e["res"]]["init"]).get("ty") == "bool" or lets_[e["res"]]["pat"].get("ty") == "bool"):
            return None
        return None

    def _ev_fall(e, env):
        e = peel(e)
        while e.get("k") in ("DropTemps", "Use"):
            e = peel(e["e"])
        if e.get("k") == "Path" and e.get("res_kind") == "Local" and e.get("res") in lets_:
            return _ev_fall(lets_[e["res"]]["init"], env)
        return bool_eval(e, lambda x: ("ret" if x.get("k") == "MethodCall" and x["name"] == "is_return" else "uj" if x.get("k") == "MethodCall" and x["name"] == "is_unconditional_jump" else ("$" + x["res"]) if x.get("k") == "Path" and x.get("res_kind") == "Local" and x.get("res") in lets_ else None),
                         dict(env, **{"$" + k_: None for k_ in ()}))
    # second accepted form: `prev = <falls through>.then(|| node)` (Some exactly when control can fall through)
    for n in walk(f["hir"]["value"]):
        if found:
            break
        if n.get("k") == "Assign" and peel(n["l"]).get("res_kind") == "Local":
            r = peel(n["r"])
            if r.get("k") == "MethodCall" and r["name"] in ("then", "then_some") and r["args"]:
                cond = r["recv"]

                def _full(e, env):
                    e = peel(e)
                    while e.get("k") in ("DropTemps", "Use"):
                        e = peel(e["e"])
                    if e.get("k") == "Path" and e.get("res_kind") == "Local" and e.get("res") in lets_:
                        return _full(lets_[e["res"]]["init"], env)
                    return bool_eval(e, lambda x: "ret" if x.get("k") == "MethodCall" and x["name"] == "is_return" else ("uj" if x.get("k") == "MethodCall" and x["name"] == "is_unconditional_jump" else None), env)
                try:
                    table = [_full(cond, {"ret": a_, "uj": b_}) for a_ in (False, True) for b_ in (False, True)]
                except BoolUnx:
                    table = None
                if table == [True, False, False, False]:
                    found = True
                    R.ok("prev-reset", detail="prev = (!(is_return() || is_unconditional_jump())).then(|| node)", where=loc(n))
                elif table is not None:
                    found = True
                    R.bad("prev-reset", f"the fall-through predecessor is kept under a condition with truth table {table} over (is_return, is_unconditional_jump); it must be kept exactly when neither holds", loc(n))
    for n in walk(f["hir"]["value"]):
        if found:
            break
        if n.get("k") == "Assign" and peel(n["l"]).get("res_kind") == "Local":
            r = peel(n["r"])
            if r.get("k") == "If" and any(short(x.get("res") or "") == "None" for x in walk(r, pats=False) if x.get("k") == "Path"):
                found = True
                names = sorted(m["name"] for m in walk(r["cond"]) if m.get("k") == "MethodCall")
                ors = [m for m in walk(r["cond"]) if m.get("k") == "Binary"]
                then_none = short((peel(r["then"]).get("res") or "")) == "None"
                else_some = any(short(x.get("res") or "") == "Some" for x in walk(r.get("else") or {}))
                if names == ["is_return", "is_unconditional_jump"] and all(b["op"] == "Or" for b in ors) and then_none and else_some:
                    R.ok("prev-reset", detail="prev = if is_return() || is_unconditional_jump() { None } else { Some(node) }", where=loc(n))
                else:
                    R.bad("prev-reset", f"fall-through reset condition is {names} (then None: {then_none}); expected is_return() || is_unconditional_jump()", loc(n))
    if not found:
        R.bad("prev-reset|missing", "UNEXTRACTABLE: NodeDirectionPass no longer resets `prev` with an if-expression", f["sp"])
    # is_unconditional_jump table
    up = F.method(PNODE, "is_unconditional_jump", trait=IPROPS)
    m = self_match(F, up, PNODE)
    x0 = REG + "::X0"
    for v, arm in arm_table(m):
        body_true = lit_value(arm["body"])
        if v == "_":
            if body_true is False:
                R.ok("uj|_")
            else:
                R.bad("uj|_", "wildcard arm of is_unconditional_jump is not `false`", loc(arm))
            continue
        g = arm.get("guard")
        if v in ("JumpLink", "JumpLinkR"):
            okk = g is not None and body_true is True and any(n.get("k") == "Field" and n["name"] == "rd" for n in walk(g)) \
                and any(n.get("k") == "Path" and n.get("res") == x0 for n in walk(g)) \
                and all(b["op"] == "Eq" for b in walk(g) if b.get("k") == "Binary")
            if okk:
                R.ok(f"uj|{v}", detail=f"{v} is unconditional iff rd == x0")
            else:
                R.bad(f"uj|{v}", f"{v} is treated as an unconditional jump under a condition other than `rd == x0`", loc(arm))
        elif v == "Branch":
            BT = "riscv_analysis::parser::inst::BranchType"
            b = payload_binding_name(arm)

            class Unx(Exception):
                pass

            def atom(e):
                e = peel(e)
                if e.get("k") == "Field" and peel(e["e"]).get("res") == b:
                    return ("fld", e["name"])
                if e.get("k") == "Path" and (e.get("res") or "").startswith(BT + "::"):
                    return ("bt", short(e["res"]))
                if e.get("k") == "Path" and (e.get("res") or "").startswith(REG + "::"):
                    return ("reg", short(e["res"]))
                if e.get("k") == "MethodCall" and e["name"] in ("get", "get_cloned", "clone"):
                    return atom(e["recv"])
                raise Unx(ekey(e))

            def ev(e, env):
                e0 = e
                e = peel(e)
                k = e.get("k")
                if k == "Binary" and e["op"] in ("And", "Or"):
                    a, c = ev(e["a"], env), ev(e["b"], env)
                    return (a and c) if e["op"] == "And" else (a or c)
                if k == "Unary" and e["op"] == "Not":
                    return not ev(e["a"], env)
                if k == "Lit" and e["lit"]["t"] == "bool":
                    return e["lit"]["v"]
                if k == "Binary" and e["op"] in ("Eq", "Ne"):
                    x, y = atom(e["a"]), atom(e["b"])

                    def val(t):
                        if t[0] == "fld":
                            if t[1] not in env:
                                raise Unx("field " + t[1])
                            return env[t[1]]
                        if t[0] == "bt":
                            return t[1]
                        if t[0] == "reg":
                            return "x0" if t[1] == "X0" else t[1]
                    r = val(x) == val(y)
                    return r if e["op"] == "Eq" else not r
                if k == "Block" and not e.get("stmts") and e.get("expr"):
                    return ev(e["expr"], env)
                if k == "Block" and e.get("expr"):
                    env2 = dict(env)
                    for st in e["stmts"]:
                        if st.get("k") == "Let" and st["pat"].get("k") == "PBinding" and st.get("init") is not None:
                            env2["$" + st["pat"]["name"]] = ev(st["init"], env2)
                        else:
                            raise Unx("statement in the branch predicate")
                    return ev(e["expr"], env2)
                if k == "Path" and e.get("res_kind") == "Local" and ("$" + e["res"]) in env:
                    return env["$" + e["res"]]
                if k == "Match":
                    sc = atom(e["scrut"])
                    if sc[0] != "fld" or sc[1] not in env:
                        raise Unx("match scrutinee")
                    v_ = env[sc[1]]
                    for a_ in e["arms"]:
                        vs = {short(x_) for k_, x_ in pat_variants(a_["pat"]) if k_ == "path" and x_}
                        wild = a_["pat"].get("k") in ("PWild", "PBinding")
                        if v_ in vs or wild:
                            if a_.get("guard") is not None and not ev(a_["guard"], env):
                                continue
                            return ev(a_["body"], env)
                    raise Unx("no arm")
                raise Unx(ekey(e0)[:60])
            always = lambda i, r1, r2: (r1 == r2 and i in ("Beq", "Bge", "Bgeu")) or (i == "Bgeu" and r2 == "x0")
            bad = []
            sound_hits = 0
            try:
                for i in F.variants(BT):
                    for r1, r2 in (("x0", "x0"), ("x0", "ra"), ("ra", "x0"), ("ra", "ra"), ("ra", "rb")):
                        env = {"inst": i, "rs1": r1, "rs2": r2}
                        if ev(arm["body"], env):
                            if always(i, r1, r2):
                                sound_hits += 1
                            else:
                                bad.append(f"{i.lower()} {r1}, {r2}")
                if bad:
                    R.bad("uj|Branch", f"is_unconditional_jump answers true for {bad[:4]}, which is not always taken: the fall-through edge after it is dropped although execution can continue there", loc(arm))
                elif sound_hits == 0:
                    R.bad("uj|Branch|never", "no branch form is recognised as always taken any more (beq/bge/bgeu x0,x0 must be)", loc(arm))
                else:
                    R.ok("uj|Branch", detail=f"the branch predicate holds only for always-taken forms ({sound_hits} of the 30 abstract operand/kind combinations)")
            except Unx as ex:
                R.bad("uj|Branch|unextractable", f"UNEXTRACTABLE branch predicate (unknown atom `{ex}`)", loc(arm))
        else:
            if body_true is False:
                R.ok(f"uj|{v}")
            else:
                R.bad(f"uj|{v}", f"{v} is treated as an unconditional jump", loc(arm))


# ============================================================================ ownership of facts (C01.a, C02.b, C12.d)


def _ownership(F, R, fields, owner_suffix, floor_name):
    setters = {p: fld for p, fld in fact_setters(F).items() if fld in fields}
    if len(setters) != len(fields):
        raise Anchor(f"expected setters for {sorted(fields)}, found {sorted(setters.values())}")
    gens = pass_impls(F, GENPASS)
    owners = [t for t in gens if t.endswith(owner_suffix)]
    if not owners:
        raise Anchor(f"{owner_suffix} not found")
    n = 0
    for s, fld in sorted(setters.items()):
        cs = F.callers_of(s)
        if not cs:
            R.bad(f"{fld}|uncalled", f"setter of `{fld}` is never called: the fact is never computed")
        for (caller, bi, t) in cs:
            n += 1
            ot = owner_type(F, caller)
            if ot == owners[0]:
                R.ok(f"{fld}|{root_fn(caller)}|{n}")
            else:
                R.bad(f"{fld}|{root_fn(caller)}", f"`{short(s)}` is called from `{root_fn(caller)}`; facts in `{fld}` may only be written by {short(owners[0])}", t["sp"])


@rule("C01", "C01.a.value-fact-ownership", floor=4)
def c01a(F, R):
    """value facts (reg/memory values in/out) are written only by AvailableValuePass"""
    _ownership(F, R, VALUE_FIELDS, "AvailableValuePass", "C01.a")


@rule("C02", "C02.b.liveness-ownership", floor=3)
def c02b(F, R):
    """liveness facts (live_in, live_out, u_def) are written only by LivenessPass"""
    _ownership(F, R, LIVE_FIELDS, "LivenessPass", "C02.b")


@rule("C12", "C12.d.fact-ownership", floor=7)
def c12d(F, R):
    """no pass other than the two analyses rewrites facts after the fixed point"""
    _ownership(F, R, VALUE_FIELDS, "AvailableValuePass", "C12.d")
    _ownership(F, R, LIVE_FIELDS, "LivenessPass", "C12.d")


# ============================================================================ C01.b / C01.c / C02.c / C02.d
def _avpass_run(F):
    gens = pass_impls(F, GENPASS)
    p = [rp for t, rp in gens.items() if t.endswith("AvailableValuePass")]
    if not p:
        raise Anchor("AvailableValuePass::run not found")
    return F.fn(p[0])


def _livepass_run(F):
    gens = pass_impls(F, GENPASS)
    p = [rp for t, rp in gens.items() if t.endswith("LivenessPass")]
    if not p:
        raise Anchor("LivenessPass::run not found")
    return F.fn(p[0])


def mentions_call(e, name):
    return any(n.get("k") in ("MethodCall",) and n["name"] == name for n in walk(e)) or \
        any(n.get("k") == "Call" and short(callee_of(n) or "") == name for n in walk(e))


def blocks_with_let(root, varname):
    for b in walk(root):
        if b.get("k") == "Block":
            for i, s in enumerate(b["stmts"]):
                if s.get("k") == "Let" and s["pat"].get("k") == "PBinding" and s["pat"]["name"] == varname:
                    yield b, i


@rule("C01", "C01.b.kill-before-publish", floor=2)
def c01b(F, R):
    """between seeding out[n] from in[n] and publishing it, the written register (kill set) is always removed and ra is removed at calls; kill_reg uses the caller-saved class at calls and function entries"""
    f = _avpass_run(F)
    setters = fact_setters(F)
    set_out = [p for p, fld in setters.items() if fld == "reg_values_out"][0]
    done = False
    pubs = [n for n in walk(f["hir"]["value"], pats=False) if n.get("k") in ("MethodCall", "Call") and callee_of(n) == set_out]
    # the publication of computed facts takes a local; `set_..(AvailableValueMap::new())` is a reset, not a publication
    pubs = [n for n in pubs if peel(call_recv_args(n)[1][0]).get("k") == "Path" and peel(call_recv_args(n)[1][0]).get("res_kind") == "Local"]
    if not pubs:
        raise Anchor("set_reg_values_out is not called with computed facts in AvailableValuePass::run")
    OUT = ekey(call_recv_args(pubs[0])[1][0])
    for b, i in blocks_with_let(f["hir"]["value"], OUT):
        init = b["stmts"][i].get("init") or {}
        if not mentions_call(init, "reg_values_in"):
            continue
        # statement index of the publish call
        pub = None
        for j in range(i + 1, len(b["stmts"])):
            if any(callee_of(n) == set_out for n in walk(b["stmts"][j]) if n.get("k") in ("MethodCall", "Call")):
                pub = j
                break
        if pub is None:
            continue
        done = True
        kill = ret = False
        kl = {}  # local holding the kill set -> whether ra was added to it under calls_to().is_some()
        for s in b["stmts"][:pub]:
            if s.get("k") == "Let" and s["pat"].get("k") == "PBinding" and s.get("init") and mentions_call(s["init"], "kill_reg"):
                kl[s["pat"]["name"]] = False
                continue
            e = s.get("e") or {}
            while e.get("k") in ("DropTemps", "Use"):
                e = e["e"]
            if e.get("k") == "AssignOp" and e["op"] == "SubAssign" and ekey(e["l"]) == OUT:
                if mentions_call(e["r"], "kill_reg"):
                    kill = True
                for nm, has_ra in kl.items():
                    if any(x.get("k") == "Path" and x.get("res") == nm for x in walk(e["r"], pats=False)):
                        kill = True
                        ret = ret or has_ra
            if e.get("k") == "If" and mentions_call(e["cond"], "calls_to") and mentions_call(e["cond"], "is_some"):
                for m in walk(e["then"]):
                    if m.get("k") == "AssignOp" and m["op"] == "SubAssign" and ekey(m["l"]) == OUT and mentions_call(m["r"], "return_addr_set"):
                        ret = True
                    if m.get("k") == "AssignOp" and m["op"] == "BitOrAssign" and ekey(m["l"]) in kl and mentions_call(m["r"], "return_addr_set"):
                        kl[ekey(m["l"])] = True
        if kill:
            R.ok("kill", detail=f"{OUT} -= node.kill_reg() unconditionally before set_reg_values_out", where=loc(b["stmts"][i]))
        else:
            R.bad("kill", "out[n] is published without removing the instruction's kill set: a claim about a register survives its overwrite", loc(b["stmts"][pub]))
        if ret:
            R.ok("kill-ra-at-call", detail="if calls_to().is_some() { out_reg_n -= return_addr_set() }")
        else:
            R.bad("kill-ra-at-call", "ra is not removed from out[n] at call sites: `ra` keeps its pre-call claim after `jal`", loc(b["stmts"][pub]))
    if not done:
        R.bad("shape", f"UNEXTRACTABLE: cannot find `let {OUT} = node.reg_values_in()` ... `set_reg_values_out({OUT})` in one block", f["sp"])
    # kill_reg / gen_reg shape
    kp = F.method(PNODE, "kill_reg", trait="HasGenKillInfo")
    k = F.fn(kp)
    top = peel(k["hir"]["value"])
    okk = False
    msg = "UNEXTRACTABLE kill_reg"
    if top.get("k") == "Binary" and top["op"] == "Sub" and mentions_call(top["b"], "const_zero_set"):
        i0 = peel(top["a"])
        if i0.get("k") == "If":
            c = i0["cond"]
            cond_ok = mentions_call(c, "calls_to") and mentions_call(c, "is_function_entry") and all(b["op"] == "Or" for b in walk(c) if b.get("k") == "Binary")
            then_ok = mentions_call(i0["then"], "caller_saved_set")
            else_ok = mentions_call(i0.get("else") or {}, "writes_to")
            okk = cond_ok and then_ok and else_ok
            msg = f"kill_reg: cond(calls_to||is_function_entry)={cond_ok}, then caller_saved_set={then_ok}, else writes_to={else_ok}"
    if okk:
        R.ok("kill_reg", detail="kill = caller-saved at calls/function entries, else the written register, minus x0")
    else:
        R.bad("kill_reg", msg, k["sp"])


HGKI = "HasGenKillInfo"


def reduce_closures(f, F=None):
    """closure bodies (or named functions) passed to `.reduce(..)`/`.fold(..)` in fn f with the chain's source expression."""
    for n in walk(f["hir"]["value"]):
        if n.get("k") == "MethodCall" and n["name"] in ("reduce", "fold") and n["args"]:
            cl = closure_like(F, n["args"][-1])
            if cl is not None:
                yield n, cl


ACCESSORS = ("reg_values_out", "memory_values_out", "live_in", "u_def", "live_out", "reg_values_in", "memory_values_in")


def meet_sites(F, f):
    """the `.reduce(..)`/`.fold(..)` calls of a pass: in its `run` body and in the helper functions of the same module that `run`
    calls (a fold moved into `fn meet_of_visited_prevs(node, visited, accessor)` is still the pass's meet).
    -> [(reduce call, closure-like, set of fact accessors the chain reads, where it is called from)]"""
    out = []
    for call, cl in reduce_closures(f, F):
        srcs = {a for a in ACCESSORS if chain_mentions(call, a)}
        out.append((call, cl, srcs, call, {}))
    mod = f["path"].split(" as ")[0].lstrip("<").rsplit("::", 1)[0]
    for c in walk(f["hir"]["value"], pats=False):
        if c.get("k") not in ("Call", "MethodCall"):
            continue
        q = callee_of(c) or ""
        g = F.fns.get(q)
        if not g or "hir" not in g or "::analysis::" not in q or q == f["path"] or "{closure" in q:
            continue
        pnames = [p_.get("name") for p_ in g["hir"]["params"]]
        args = call_recv_args(c)[1] if c.get("k") == "MethodCall" else c["args"]
        if c.get("k") == "MethodCall":
            args = [c["recv"]] + list(c["args"])
        for call, cl in reduce_closures(g, F):
            srcs = {a for a in ACCESSORS if chain_mentions(call, a)}
            # an accessor handed in as a function argument (`CfgNode::reg_values_out`)
            for pn, a in zip(pnames, args):
                a2 = peel(a)
                if a2.get("k") == "Path" and short(a2.get("res") or "") in ACCESSORS and pn and any(
                        y.get("k") == "Call" and peel(y["f"]).get("k") == "Path" and peel(y["f"]).get("res") == pn for y in walk(call, pats=False)):
                    srcs.add(short(a2["res"]))
            sub = {}
            for pn, a in zip(pnames, args):
                a2 = peel(a)
                while a2.get("k") == "AddrOf":
                    a2 = peel(a2["e"])
                if pn and a2.get("k") == "Path" and a2.get("res_kind") == "Local":
                    sub[pn] = a2["res"]
            out.append((call, cl, srcs, c, sub))
    return out


def chain_mentions(n, name):
    r = n
    while r.get("k") == "MethodCall":
        if r["name"] == name:
            return True
        for a in r["args"]:
            if any(m.get("k") == "MethodCall" and m["name"] == name for m in walk(a)):
                return True
        r = r["recv"]
    return False


@rule("C01", "C01.c.meet-is-intersection", floor=2)
def c01c(F, R):
    """predecessor value maps are combined only with AvailableValueMap &= (keep entries equal on both sides)"""
    f = _avpass_run(F)
    band = None
    for i in F.impls:
        if i["self_ty"] == AVMAP and (i.get("trait") or "").endswith("BitAndAssign"):
            band = [it["path"] for it in i["items"] if it["name"] == "bitand_assign"][0]
            band_impl = i
    if band is None:
        raise Anchor("BitAndAssign for AvailableValueMap not found")
    n = 0
    for call, cl, srcs, at, _sub in meet_sites(F, f):
        src = "reg_values_out" if "reg_values_out" in srcs else ("memory_values_out" if "memory_values_out" in srcs else None)
        if src is None:
            continue
        n += 1
        ops = [m for m in walk(cl["body"]) if m.get("k") in ("AssignOp", "Binary", "MethodCall", "Call") and (callee_of(m) or "").startswith(("riscv_analysis::cfg::available_value_map", "<riscv_analysis::cfg::available_value_map"))]
        names = sorted({callee_of(m) for m in ops})
        muts = [m for m in walk(cl["body"]) if m.get("k") == "MethodCall" and m["name"] in ("insert", "extend", "remove", "retain")]
        if names == [band] and not muts:
            R.ok(f"meet|{src}", detail=f"predecessors' {src} folded with `&=`", where=loc(call))
        else:
            R.bad(f"meet|{src}", f"predecessors' {src} are combined with {[short(x) for x in names] + [m['name'] for m in muts]} instead of the intersection `&=`", loc(call))
    if n < 2:
        R.bad("meet|missing", f"UNEXTRACTABLE: found {n} predecessor folds in AvailableValuePass::run (expected 2)", f["sp"])
    # the operator really is intersection-on-equality
    b = F.fn(band)
    rt = [m for m in walk(b["hir"]["value"]) if m.get("k") == "MethodCall" and m["name"] == "retain"]
    okk = False
    if len(rt) == 1 and rt[0]["args"]:
        cl = peel(rt[0]["args"][0])
        if cl.get("k") == "Closure":
            body = peel(cl["body"])
            if body.get("k") == "Binary" and body["op"] == "Eq" and mentions_call(body, "get"):
                okk = True
    if okk:
        R.ok("bitand_assign", detail="AvailableValueMap &= keeps a key only if other.get(key) == Some(value)")
    else:
        R.bad("bitand_assign", "AvailableValueMap::bitand_assign is no longer `retain(|k, v| other.get(k) == Some(v))`", b["sp"])


@rule("C02", "C02.q.a-call-hands-its-live-out-to-the-callee-s-exit", floor=1)
def c02q(F, R):
    """what the caller reads after a call is live at the callee's return: `live_in[F_exit] ⊇ live_out[call site]`, the whole set - a register outside every
    saved / temporary class (gp, tp) that the callee sets for its caller is a real use too. The set published for the exit is a union one of whose
    operands is the call site's live-out as it stands, not a part of it"""
    f = _livepass_run(F)
    body = f["hir"]["value"]
    lets = local_inits(body)
    sites = [m for m in walk(body, pats=False) if m.get("k") == "MethodCall" and m["name"] == "set_live_in" and any(y.get("k") == "MethodCall" and y["name"] == "exit" for y in walk(m["recv"], pats=False))]
    if not sites:
        raise Anchor("no `<function>.exit().set_live_in(..)` in LivenessPass::run")

    def disjuncts(e, depth=0):
        e = peel(e)
        while e.get("k") in ("DropTemps", "Use", "Paren") or (e.get("k") == "Block" and not e.get("stmts") and e.get("expr") is not None):
            e = peel(e.get("e") or e.get("expr"))
        if e.get("k") == "Path" and e.get("res_kind") == "Local" and e.get("res") in lets and depth < 4:
            return disjuncts(lets[e["res"]], depth + 1)
        if e.get("k") == "Binary" and e["op"] == "BitOr":
            return disjuncts(e["a"], depth) + disjuncts(e["b"], depth)
        if e.get("k") == "MethodCall" and e["name"] in ("union", "clone") :
            return disjuncts(e["recv"], depth) + [d for a in e["args"] for d in disjuncts(a, depth)]
        return [e]
    for i_, m in enumerate(sites, 1):
        ds = disjuncts(m["args"][0])
        whole = [d for d in ds if d.get("k") == "MethodCall" and d["name"] == "live_out" and not d["args"] and not any(y.get("k") == "MethodCall" and y["name"] == "exit" for y in walk(d["recv"], pats=False))]
        part = [d for d in ds if d not in whole and any(y.get("k") == "MethodCall" and y["name"] == "live_out" for y in walk(d, pats=False))]
        if whole:
            R.ok(f"exit-live-in|{i_}", detail=f"the callee's exit gets `{ekey(whole[0])}` whole (∪ what it had)", where=loc(m))
        elif part:
            R.bad(f"exit-live-in|{i_}", f"the callee's exit only gets a part of the call site's live-out (`{ekey(part[0])[:70]}`): a register outside that part which the callee sets for its caller (`li gp, 0x100` in a set-up function, read after the call) is dead inside the callee and reported as an unused value", loc(m))
        else:
            R.bad(f"exit-live-in|{i_}", "what the caller reads after the call does not reach the callee's exit at all", loc(m))


@rule("C02", "C02.c.meet-is-union", floor=2)
def c02c(F, R):
    """successors' live_in sets are combined only with RegisterSet | ; u_def of predecessors with &"""
    f = _livepass_run(F)
    bor = [it["path"] for i in F.impls if i["self_ty"] == RSET and i.get("trait_ref", "").endswith("BitOr>") for it in i["items"] if it["name"] == "bitor"]
    bnd = [it["path"] for i in F.impls if i["self_ty"] == RSET and i.get("trait_ref", "").endswith("BitAnd>") for it in i["items"] if it["name"] == "bitand"]
    if not bor or not bnd:
        raise Anchor("BitOr/BitAnd for RegisterSet not found")
    nl = nu = 0
    for call, cl, srcs, at, _sub in meet_sites(F, f):
        body = peel(cl["body"])
        c = callee_of(body) if body.get("k") == "Binary" else None
        if "live_in" in srcs:
            nl += 1
            if c == bor[0]:
                R.ok(f"live_out|{nl}", detail="live_out[n] = fold(|) over successors' live_in", where=loc(call))
            else:
                R.bad("live_out", f"successors' live_in are combined with {short(c or '?')} instead of union", loc(call))
        elif "u_def" in srcs:
            nu += 1
            if c == bnd[0]:
                R.ok(f"u_def|{nu}")
            else:
                R.bad(f"u_def|{nu}", f"predecessors' u_def are combined with {short(c or '?')} instead of intersection", loc(call))
    if nl < 1:
        R.bad("live_out|missing", "UNEXTRACTABLE: no fold over successors' live_in found in LivenessPass::run", f["sp"])
    # the operators themselves
    for p, op in ((bor[0], "BitOr"), (bnd[0], "BitAnd")):
        b = F.fn(p)
        bins = [m for m in walk(b["hir"]["value"]) if m.get("k") == "Binary"]
        if len(bins) == 1 and bins[0]["op"] == op:
            R.ok(f"op|{op}")
        else:
            R.bad(f"op|{op}", f"RegisterSet {op} is implemented with {[x['op'] for x in bins]}", b["sp"])


@rule("C02", "C02.d.class-wide-gen-kill", floor=3)
def c02d(F, R):
    """gen/kill at returns, calls, ecalls and function entries use whole convention classes"""
    gp = F.method(PNODE, "gen_reg", trait=HGKI)
    g = F.fn(gp)
    # evaluated per node kind (not read off the shape of the if-chain): a `uret` reads every writable register, a `ret` the
    # callee-saved ones, anything else what its operand table says - and x0 is taken out in every case
    from .nodeprops import eval_prop_full, Unx

    def calls_in(v):
        out = set()
        if isinstance(v, tuple):
            if v and v[0] == "call" and len(v) > 1 and isinstance(v[1], str):
                out.add(v[1])
            for x in v:
                out |= calls_in(x)
        return out
    cases = (("uret", "Basic", {"inst": "Uret"}, {"all_writable_set"}, {"callee_saved_set"}),
             ("ret", "JumpLinkR", {"inst": "Jalr", "rd": "X0", "rs1": "X1", "imm": 0}, {"callee_saved_set"}, {"all_writable_set"}),
             ("add", "Arith", {"inst": "Add", "rd": "X5", "rs1": "X6", "rs2": "X7"}, set(), {"all_writable_set", "callee_saved_set"}))
    okk, detail = True, []
    for nm, variant, env, must, mustnot in cases:
        try:
            v = eval_prop_full(F, "gen_reg", variant, env, trait=HGKI)
        except Unx as ex:
            okk = False
            detail.append(f"{nm}: UNEXTRACTABLE ({ex})")
            continue
        cs = calls_in(v)
        minus_zero = isinstance(v, tuple) and v and v[0] == "bin" and v[1] == "Sub" and "const_zero_set" in calls_in(v[3]) or nm == "add" and "const_zero_set" in cs
        if not must <= cs or cs & mustnot:
            okk = False
            detail.append(f"`{nm}` reads {sorted(cs - {'const_zero_set'}) or 'its operands'} (expected {sorted(must) or 'its operands'})")
        elif not minus_zero:
            okk = False
            detail.append(f"`{nm}`: x0 is not taken out of the set")
    detail = "; ".join(detail)
    if okk:
        R.ok("gen_reg", detail="gen = all writable at uret, callee-saved at ret, else the registers read; minus x0")
    else:
        R.bad("gen_reg", "gen_reg: " + detail + " - a `uret` must read every writable register (the interrupted code owns them all), a `ret` the callee-saved ones", g["sp"])
    f = _livepass_run(F)
    # per instruction kind, the blocks that compute its facts: in every if-chain of the pass that distinguishes kinds, the branch
    # that names the kind's predicate, or - when the chain has none - its final `else` (the kind is treated like any other node)
    KINDS = ("calls_to_from_cfg", "is_ecall", "is_return", "is_function_entry")
    body = f["hir"]["value"]
    lets = {}
    for st in walk(body, pats=False):
        if st.get("k") == "Let" and st["pat"].get("k") == "PBinding" and st.get("init") is not None:
            lets.setdefault(st["pat"]["name"], st["init"])

    def uses(blk, nm, depth=0):
        """the block mentions the call, directly or through a named local computed from it"""
        if mentions_call(blk, nm):
            return True
        if depth < 2:
            for p_ in walk(blk, pats=False):
                if p_.get("k") == "Path" and p_.get("res_kind") == "Local" and p_["res"] in lets and uses(lets[p_["res"]], nm, depth + 1):
                    return True
        return False
    else_of = set()
    for n in walk(body, pats=False):
        if n.get("k") == "If" and n.get("else") is not None:
            e_ = peel(n["else"])
            while e_.get("k") == "Block" and not e_.get("stmts") and e_.get("expr") is not None:
                e_ = peel(e_["expr"])
            if e_.get("k") == "If":
                else_of.add(id(e_))
    all_blocks = {}
    for n in walk(body, pats=False):
        if n.get("k") != "If" or id(n) in else_of:
            continue
        links, x, final_else = [], n, None
        while x is not None and x.get("k") == "If":
            links.append(x)
            e_ = x.get("else")
            if e_ is None:
                x = None
                break
            e2 = peel(e_)
            while e2.get("k") == "Block" and not e2.get("stmts") and e2.get("expr") is not None:
                e2 = peel(e2["expr"])
            if e2.get("k") == "If":
                x = e2
            else:
                final_else, x = e_, None
        named = [nm for nm in KINDS if any(mentions_call(l_["cond"], nm) for l_ in links)]
        if len(named) < 2:
            continue   # not a chain that tells instruction kinds apart (e.g. the wait test of the forward sweep)
        for nm in KINDS:
            hit = next((l_ for l_ in links if mentions_call(l_["cond"], nm)), None)
            if hit is not None:
                all_blocks.setdefault(nm, []).append(hit["then"])
            elif final_else is not None:
                all_blocks.setdefault(nm, []).append(final_else)
    branches = {nm: bl[0] for nm, bl in all_blocks.items()}
    need = {
        "calls_to_from_cfg": ["argument_set", "kill_reg", "gen_reg", "caller_saved_set", "return_set"],
        "is_ecall": ["caller_saved_set", "ecall_always_argument_set", "known_ecall_signature"],
        "is_return": ["gen_reg"],
        "is_function_entry": ["kill_reg", "gen_reg", "argument_set"],
    }
    for br, names in need.items():
        blk = branches.get(br)
        if blk is None:
            R.bad(f"branch|{br}", f"LivenessPass::run has no branch for `{br}` nodes", f["sp"])
            continue
        # the live part and the u_def part of one instruction kind sit in two sweeps of the pass: look at all its branches
        missing = [nm for nm in names if not any(uses(b_, nm) for b_ in all_blocks[br])]
        if missing:
            R.bad(f"branch|{br}", f"the `{br}` transfer function no longer uses {missing}", loc(blk))
        else:
            R.ok(f"branch|{br}", detail=f"{br}: uses {names}")
    branches = {nm: next((b_ for b_ in bl if True), None) for nm, bl in all_blocks.items()}
    # ecall live-in: (live_out - caller_saved) | ecall_always_argument_set | args
    blk = branches.get("is_ecall")
    if blk is not None:
        okl = False
        setters = fact_setters(F)
        set_li = [p for p, fld in setters.items() if fld == "live_in"][0]
        li_calls = [n for n in walk(blk, pats=False) if n.get("k") in ("MethodCall", "Call") and callee_of(n) == set_li]
        LI = ekey(call_recv_args(li_calls[0])[1][0]) if li_calls else None
        ARGS = None
        for s in walk(blk, pats=False):
            if s.get("k") == "Let" and s["pat"].get("k") == "PTuple" and mentions_call(s.get("init") or {}, "known_ecall_signature"):
                first = s["pat"]["pats"][0]
                ARGS = first.get("name") if first.get("k") == "PBinding" else None
        for s in walk(blk):
            if s.get("k") == "Let" and s["pat"].get("k") == "PBinding" and s["pat"]["name"] == LI:
                e = s.get("init") or {}
                ors = [b for b in walk(e) if b.get("k") == "Binary" and b["op"] == "BitOr"]
                subs = [b for b in walk(e) if b.get("k") == "Binary" and b["op"] == "Sub" and mentions_call(b["a"], "live_out") and mentions_call(b["b"], "caller_saved_set")]
                okl = len(ors) >= 2 and len(subs) == 1 and mentions_call(e, "ecall_always_argument_set") and ARGS is not None and any(p.get("k") == "Path" and p.get("res") == ARGS for p in walk(e))
        if okl:
            R.ok("ecall-live-in", detail="live_in = (live_out - caller_saved) | {a7} | signature args")
        else:
            R.bad("ecall-live-in", "ecall live-in is no longer (live_out - caller_saved) | ecall_always_argument_set | args", loc(blk))


@rule("C02", "C02.e.ecall-signatures", floor=30)
def c02e(F, R):
    """every row of environment_in_outs whose number is in the RARS reference reads exactly the reference's argument registers"""
    ref = json.load(open(os.path.join(VERIF, "reference", "rars_ecalls.json")))
    from .regs import to_num_table
    tn, _ = to_num_table(F)
    cands = [q for q in F.fns if q.endswith("::environment_in_outs")]
    if len(cands) != 1:
        raise Anchor(f"environment_in_outs: {len(cands)} candidates")
    f = F.fn(cands[0])
    best = None
    for m in find_matches(f["hir"]["value"]):
        if any(isinstance(k, int) for k, _ in arm_table(m)):
            best = m
    if best is None:
        raise Anchor("environment_in_outs: integer match not found")
    rows = {}
    for k, arm in arm_table(best):
        if k == "_":
            continue
        body = peel(arm["body"])
        if body.get("k") != "Tup" or len(body["elems"]) != 2:
            R.bad(f"ecall|{k}|shape", "row is not an (args, rets) tuple", loc(arm))
            continue
        args = [tn[short(n["res"])] for n in walk(body["elems"][0]) if n.get("k") == "Path" and (n.get("res") or "").startswith(REG + "::")]
        rows[k] = (sorted(args), arm)
    for num, want in sorted(ref["args"].items(), key=lambda x: int(x[0])):
        num = int(num)
        if num not in rows:
            R.note(f"ecall {num} ({ref['names'].get(str(num))}) is not in the table: treated as unknown by the analyzer")
            continue
        got, arm = rows[num]
        if got == sorted(want):
            R.ok(f"ecall|{num}", detail=f"ecall {num} ({ref['names'].get(str(num))}) reads x{got}", where=loc(arm))
        else:
            R.bad(f"ecall|{num}", f"ecall {num} ({ref['names'].get(str(num))}) is modelled as reading x{got}; RARS reads x{sorted(want)}", loc(arm))
    for num in rows:
        if str(num) not in ref["args"]:
            R.ok(f"ecall|{num}|unconstrained", trivial=True)
            R.note(f"unconstrained row: ecall {num} (not in the reference)")


# ============================================================================ C11
def _reach_walk(f, extras=None):
    """the loop of mark_reachable that visits every node reachable from the entry, and the `iter_nexts` call it rests on:
    `for n in cfg.iter_nexts(entry)`, or `let S = cfg.iter_nexts(entry).collect(); for n in <nodes>.filter(|n| S.contains(n))`
    (the same set, walked in another order). -> [(loop, iter_nexts call)]"""
    body = f["hir"]["value"]
    out = []
    sets = {}
    for st in walk(body, pats=False):
        if st.get("k") == "Let" and st["pat"].get("k") == "PBinding" and st.get("init") and mentions_call(st["init"], "iter_nexts") and mentions_call(st["init"], "collect"):
            calls = [m for m in walk(st["init"], pats=False) if m.get("k") == "MethodCall" and m["name"] == "iter_nexts"]
            only = all(m["name"] in ("iter_nexts", "collect", "clone") for m in walk(st["init"], pats=False) if m.get("k") == "MethodCall")
            if calls and only:
                sets[st["pat"]["name"]] = calls[0]
    for lp in for_loops(body):
        direct = [m for m in walk(lp["iter"], pats=False) if m.get("k") == "MethodCall" and m["name"] == "iter_nexts"]
        if direct:
            out.append((lp, direct[0]))
            continue
        for m in walk(lp["iter"], pats=False):
            if m.get("k") == "MethodCall" and m["name"] == "filter" and m["args"]:
                cl = peel(m["args"][0])
                if cl.get("k") != "Closure":
                    continue
                b = peel(cl["body"])
                while b.get("k") == "Block" and not b.get("stmts") and b.get("expr") is not None:
                    b = peel(b["expr"])
                if b.get("k") == "MethodCall" and b["name"] == "contains" and ekey(b["recv"]).lstrip("&*") in sets:
                    ps = [x["name"] for p_ in cl.get("params") or [] for x in walk(p_) if x.get("k") == "PBinding"]
                    if ps and ekey(b["args"][0]).lstrip("&*") == ps[0]:
                        out.append((lp, sets[ekey(b["recv"]).lstrip("&*")]))
                        if extras is not None:
                            # every other adapter between the node list and the loop: only order- and element-preserving ones may appear
                            chain = []
                            x = peel(lp["iter"])
                            while x.get("k") in ("MethodCall", "AddrOf") or (x.get("k") == "Call" and short(callee_of(x) or "") == "into_iter"):
                                if x.get("k") == "MethodCall":
                                    if x is not m:
                                        chain.append(x["name"])
                                    x = peel(x["recv"])
                                elif x.get("k") == "Call":
                                    x = peel(x["args"][0])
                                else:
                                    x = peel(x["e"])
                            extras[id(lp)] = ([n_ for n_ in chain if n_ not in ("iter", "into_iter", "clone", "cloned", "by_ref")], ekey(x))
    return out


@rule("C11", "C11.a.membership-pairing", floor=2)
@rule("C15", "C15.h.membership-pairing", floor=2)
def c11a(F, R):
    """in mark_reachable a node is pushed to the function's instruction list iff it is tagged with the function, and the walk follows successor edges from the entry"""
    p = [q for q in F.fns if q.endswith("FunctionMarkupPass::mark_reachable")]
    if not p:
        raise Anchor("FunctionMarkupPass::mark_reachable not found")
    f = F.fn(p[0])
    nins = inherent_methods(F, CFGNODE)["insert_function"]
    extras = {}
    loops = _reach_walk(f, extras)
    if len(loops) != 1:
        R.bad("walk", f"UNEXTRACTABLE: expected one loop over the nodes `cfg.iter_nexts(entry)` reaches, found {len(loops)}", f["sp"])
        return
    lp, it = loops[0]
    if id(lp) in extras:
        dropping, src = extras[id(lp)]
        cfg_param = [x.get("name") for x in f["hir"]["params"]][0] if f["hir"]["params"] else None
        if dropping:
            R.bad("walk-complete", f"the program-order walk over the reachable set passes through {dropping}: nodes of the function that such an adapter skips or cuts off (code laid out above the entry label, a tail reached by a backward branch) are not attributed to the function", loc(lp["iter"]))
        elif src.lstrip("&*") != cfg_param:
            R.bad("walk-complete", f"the program-order walk runs over `{src}`, not over the whole node list `{cfg_param}`", loc(lp["iter"]))
        else:
            R.ok("walk-complete", detail=f"every node of `{cfg_param}` that is in the reachable set is visited", where=loc(lp["iter"]))
    arg = ekey(it["args"][0]).replace("Rc::clone(", "").replace("clone(", "").rstrip(")").lstrip("&") if it.get("args") else None
    entry_param = [x.get("name") for x in f["hir"]["params"]]
    if arg in entry_param:
        R.ok("walk-source", detail=f"walk starts at parameter `{arg}` along iter_nexts")
    else:
        R.bad("walk-source", f"the reachability walk starts from `{arg}`, not from the entry parameter", loc(lp["iter"]))
    var = lp["pat"]["name"] if lp["pat"].get("k") == "PBinding" else None
    body = lp["body"]
    # top-level statements of the loop body
    stmts = body.get("stmts", []) if body.get("k") == "Block" else []
    push = tag = None
    for i, s in enumerate(stmts):
        e = s.get("e") or {}
        for n in walk(e):
            if n.get("k") == "MethodCall" and n["name"] == "push" and peel(n["recv"]).get("res_kind") == "Local" and ekey(n["args"][0]) == var and push is None and is_top(e, n):
                push = i
            if n.get("k") in ("MethodCall", "Call") and callee_of(n) == nins and tag is None and is_top(e, n):
                recv, args = call_recv_args(n)
                if ekey(recv) == var:
                    tag = i
    # the registers the function writes: accumulated with `|=` over the same walk, and handed on as they are
    structs = [n for n in walk(f["hir"]["value"], pats=False) if n.get("k") == "Struct" and any(x["name"] == "found" for x in n.get("fields", []))]
    if structs:
        dl = ekey([x for x in structs[0]["fields"] if x["name"] == "found"][0]["e"]).lstrip("&*")
        accs = [a_ for a_ in walk(body, pats=False) if a_.get("k") in ("AssignOp", "Assign") and ekey(a_["l"]).lstrip("&*") == dl]
        if accs and all(a_.get("k") == "AssignOp" and a_["op"] == "BitOrAssign" and any(y.get("k") == "MethodCall" and y["name"] == "writes_to" for y in walk(body, pats=False)) for a_ in accs):
            R.ok("defs-accumulate", detail=f"`{dl} |= <register written by the node>` for every node of the walk", where=loc(accs[0]))
        else:
            R.bad("defs-accumulate", f"the set of registers a function writes (`{dl}`) is not accumulated with `|=` over the nodes of the walk ({[a_.get('op') or '=' for a_ in accs]}): the function's definitions come out empty or partial, and what it clobbers or returns is misjudged at every call site", loc(accs[0]) if accs else f["sp"])
    if push is not None and tag is not None:
        R.ok("push-and-tag", detail="<list>.push(node) and node.insert_function(func) are both unconditional statements of the walk body", where=loc(stmts[push]))
    else:
        R.bad("push-and-tag", f"unconditional push of the visited node to the instruction list: {push is not None}; unconditional insert_function: {tag is not None} — the per-function node list and the per-node function list diverge", loc(body))


def is_top(stmt_expr, n):
    """n is the statement expression itself (not nested under a conditional)."""
    e = stmt_expr
    while e.get("k") in ("DropTemps", "Use"):
        e = e["e"]
    return e is n


@rule("C11", "C11.b.annotation-ownership", floor=3)
def c11b(F, R):
    """function annotations (Cfg/CfgNode insert_function, Function::set_*, CfgNode::set_node) are written only by FunctionMarkupPass"""
    targets = {}
    cn = inherent_methods(F, CFGNODE)
    cg = inherent_methods(F, CFG)
    fn = inherent_methods(F, FUNC)
    for nm, tab in (("insert_function", cn), ("set_node", cn), ("insert_function", cg), ("set_nodes", fn), ("set_exit", fn), ("set_defs", fn)):
        if nm not in tab:
            raise Anchor(f"annotation writer `{nm}` not found")
        targets[tab[nm]] = nm
    for t, nm in sorted(targets.items()):
        cs = F.callers_of(t)
        if not cs:
            R.bad(f"{t}|uncalled", f"`{nm}` is never called")
        for i, (caller, bi, term) in enumerate(cs):
            ot = owner_type(F, caller) or ""
            if ot.endswith("FunctionMarkupPass"):
                R.ok(f"{t}|{i}")
            else:
                R.bad(f"{t}|{root_fn(caller)}", f"`{nm}` is called from `{root_fn(caller)}`; function annotations belong to FunctionMarkupPass", term["sp"])


@rule("C11", "C11.c.function-is-call-target", floor=3)
def c11c(F, R):
    """a function-entry node is created exactly where a label is a call target: call names come from calls_to() (jal with rd == ra) plus the predefined interrupt names"""
    cp = F.method(PNODE, "calls_to", trait=IPROPS)
    m = self_match(F, cp, PNODE)
    x1 = REG + "::X1"
    for v, arm in arm_table(m):
        if v == "_":
            none = short(peel(arm["body"]).get("res") or "") == "None"
            if none:
                R.ok("calls_to|_")
            else:
                R.bad("calls_to|_", "wildcard arm of calls_to is not None", loc(arm))
        elif v == "JumpLink":
            g = arm.get("guard")
            okk = g is not None and any(n.get("k") == "Path" and n.get("res") == x1 for n in walk(g)) \
                and any(n.get("k") == "Field" and n["name"] == "rd" for n in walk(g)) \
                and [b["op"] for b in walk(g) if b.get("k") == "Binary"] == ["Eq"] \
                and fields_of(arm["body"]) == {"name"}
            if okk:
                R.ok("calls_to|JumpLink", detail="calls_to = Some(name) iff JumpLink with rd == ra")
            else:
                R.bad("calls_to|JumpLink", "calls_to no longer answers exactly for `jal ra, label`", loc(arm))
        else:
            R.bad(f"calls_to|{v}", f"calls_to treats {v} as a call", loc(arm))
    # call_names construction + guard of the function-entry insertion
    np_ = [q for q in F.fns if q.endswith("Cfg::new_with_predefined_call_names")]
    if not np_:
        raise Anchor("Cfg::new_with_predefined_call_names not found")
    f = F.fn(np_[0])
    lets = {s["pat"]["name"]: s for s in walk(f["hir"]["value"]) if s.get("k") == "Let" and s["pat"].get("k") == "PBinding"}
    fe = [n for n in walk(f["hir"]["value"], pats=False) if n.get("k") == "Call" and short(callee_of(n) or "") == "new_func_entry"]
    guard = None

    def _nonempty_intersection(c):
        """`A.intersection(&B).next().is_some()` or `!A.is_disjoint(&B)` (also behind a named boolean) -> a pseudo node with recv/args"""
        c = peel(c)
        while c.get("k") in ("DropTemps", "Use"):
            c = peel(c["e"])
        if c.get("k") == "Path" and c.get("res_kind") == "Local" and c.get("res") in lets and lets[c["res"]].get("init") is not None:
            return _nonempty_intersection(lets[c["res"]]["init"])
        inter = [m for m in walk(c, pats=False) if m.get("k") == "MethodCall" and m["name"] == "intersection"]
        if inter and mentions_call(c, "is_some"):
            return inter[0]
        if c.get("k") == "Unary" and c["op"] == "Not":
            d = peel(c["a"])
            if d.get("k") == "MethodCall" and d["name"] == "is_disjoint" and d["args"]:
                return d
        return None
    for n in walk(f["hir"]["value"], pats=False):
        if n.get("k") == "If" and fe and any(x is fe[0] for x in walk(n["then"], pats=False)):
            g_ = _nonempty_intersection(n["cond"])
            if g_ is not None:
                guard = (n, g_)
    flag = None
    if guard is None:
        # alternative form: a boolean accumulated per label and consumed at the instruction
        for n in walk(f["hir"]["value"], pats=False):
            if n.get("k") == "If" and fe and any(x is fe[0] for x in walk(n["then"], pats=False)):
                locs = [x["res"] for x in walk(n["cond"], pats=False) if x.get("k") == "Path" and x.get("res_kind") == "Local"]
                if len(set(locs)) == 1 and locs[0] in lets and (lets[locs[0]]["pat"].get("ty") or peel(lets[locs[0]]["init"]).get("ty")) == "bool":
                    flag = (n, locs[0])
    if guard is None and flag is not None:
        n, B = flag
        writes = []
        for x in walk(f["hir"]["value"], pats=False):
            if x.get("k") == "Assign" and ekey(x["l"]) == B:
                writes.append(("=", x))
            elif x.get("k") == "AssignOp" and ekey(x["l"]) == B:
                writes.append((x["op"], x))
        contains = [w for w in writes if any(m.get("k") == "MethodCall" and m["name"] == "contains" for m in walk(w[1]["r"], pats=False))]
        CN = None
        for op, w in contains:
            for m in walk(w["r"], pats=False):
                if m.get("k") == "MethodCall" and m["name"] == "contains":
                    CN = ekey(m["recv"])
        bad = False
        if not contains:
            R.bad("func-entry-guard", f"the flag `{B}` guarding function-entry insertion is never computed from a membership test on the call names", loc(n))
            bad = True
        for op, w in contains:
            accum = op == "BitOrAssign" or (op == "=" and any(y.get("k") == "Path" and y.get("res") == B for y in walk(w["r"], pats=False)))
            if not accum:
                R.bad("func-entry-guard", f"`{B} = {CN}.contains(label)` overwrites the flag at every label: when several labels sit on one entry only the last one decides whether it is a function (a called label followed by a plain one is not a function)", loc(w))
                bad = True
        reset = any(m.get("k") == "Call" and (callee_of(m) or "").endswith("mem::take") and B in ekey(m["args"][0]) for m in walk(n["cond"], pats=False)) \
            or any(op == "=" and lit_value(w["r"]) is False for op, w in writes)
        if not reset and not bad:
            R.bad("func-entry-guard", f"the flag `{B}` is never reset after the labels are consumed: every later instruction becomes a function entry", loc(n))
            bad = True
        cn = lets.get(CN) if CN else None
        if cn is not None:
            callees = {short(callee_of(x) or "") for x in walk(cn["init"], pats=False) if x.get("k") in ("MethodCall", "Call")}
            if "call_names" in callees:
                R.ok("call_names", detail=f"{CN} = <nodes>.call_names() ∪ predefined names")
            else:
                R.bad("call_names", f"the call-name set `{CN}` is built from {sorted(callees)}", loc(cn))
        elif not bad:
            R.bad("call_names", f"UNEXTRACTABLE: no binding for the call-name set `{CN}`", f["sp"])
        if not bad:
            R.ok("func-entry-guard", detail=f"FuncEntry inserted iff some label since the last instruction is in {CN} (flag `{B}` accumulated with |=, reset on use)")
    elif guard is None:
        R.bad("func-entry-guard", "function-entry insertion is no longer guarded by `<current labels> ∩ <call names> ≠ ∅`", f["sp"])
    else:
        n, inter = guard
        CN = ekey(inter["args"][0]).lstrip("&*")
        CL = ekey(inter["recv"]).lstrip("&*").split(".")[0]
        cn = lets.get(CN)
        if cn is None:
            R.bad("call_names", f"UNEXTRACTABLE: no binding for the call-name set `{CN}`", f["sp"])
        else:
            callees = {short(callee_of(x) or "") for x in walk(cn["init"], pats=False) if x.get("k") in ("MethodCall", "Call")}
            params = {x.get("name") for x in f["hir"]["params"]}
            inner = {x["pat"]["name"] for x in walk(cn["init"], pats=False) if x.get("k") == "Let" and x["pat"].get("k") == "PBinding"}
            inner |= {b["name"] for x in walk(cn["init"]) if x.get("k") == "LetExpr" for b in walk(x["pat"]) if b.get("k") == "PBinding"}
            locals_used = {x["res"] for x in walk(cn["init"], pats=False) if x.get("k") == "Path" and x.get("res_kind") == "Local"}
            if "call_names" in callees and (locals_used - inner) <= params:
                R.ok("call_names", detail=f"{CN} = <nodes>.call_names() ∪ predefined names")
            else:
                R.bad("call_names", f"the call-name set `{CN}` is built from {sorted(callees)} / locals {sorted(locals_used - inner - params)}", loc(cn))
        # the labels set must be the one fed from Label nodes and cleared after use
        fed = any(m.get("k") == "MethodCall" and m["name"] == "insert" and ekey(m["recv"]) == CL for m in walk(f["hir"]["value"], pats=False))
        # ... cleared once the labels have been handed to a node: inside the guarded branch, or - when both branches share the tail -
        # later in the block that holds the guard (the same arm of the per-node dispatch)
        from .p_parse import parent_map as _pmap
        pm_ = _pmap(f["hir"]["value"])
        scope = n
        while id(scope) in pm_ and not ("pat" in pm_[id(scope)] and "body" in pm_[id(scope)] and "k" not in pm_[id(scope)]):
            scope = pm_[id(scope)]
        cleared = any(m.get("k") == "MethodCall" and m["name"] in ("clear", "drain") and ekey(m["recv"]) == CL for m in walk(scope, pats=False))
        if fed and cleared:
            R.ok("func-entry-guard", detail=f"FuncEntry inserted iff {CL} ∩ {CN} is non-empty; {CL} is cleared afterwards")
        else:
            R.bad("func-entry-guard", f"`{CL}` (fed from labels: {fed}, cleared after the entry: {cleared}) no longer tracks the labels of the next instruction", loc(n))
    # BaseCfgGen::call_names uses calls_to
    bc = [q for q in F.fns if q.endswith("::call_names") and "BaseCfgGen" in q]
    if bc and any((n.get("res") or "").endswith("::calls_to") or n.get("resolved", "").endswith("::calls_to") for n in walk(F.fn(bc[0])["hir"]["value"]) if n.get("k") == "Path"):
        R.ok("call_names-source", detail="call_names() = filter_map(calls_to)")
    else:
        R.bad("call_names-source", "BaseCfgGen::call_names no longer collects calls_to()", F.fn(bc[0])["sp"] if bc else None)


def fields_of(e):
    return {n["name"] for n in walk(e) if n.get("k") == "Field"}


@rule("C11", "C11.d.single-exit", floor=2)
def c11d(F, R):
    """a function's exit is the first return found; every later return is rewired to it (paired edges) and set_exit is called once with it"""
    p = [q for q in F.fns if q.endswith("FunctionMarkupPass::mark_reachable")]
    f = F.fn(p[0])
    # private helpers of the pass (`Self::redirect_return(&node, prev_ret)`) read as if their body stood at the call
    body_, _inl = inline_self_helpers(F, f, p[0].rsplit("::", 1)[0] + "::")
    f = dict(f, hir=dict(f["hir"], value=body_))
    # `returns = Some(node)` only in the else of `if let Some(ref prev_ret) = returns`
    loops0 = [lp for lp, _ in _reach_walk(f)]
    lv = loops0[0]["pat"]["name"] if loops0 and loops0[0]["pat"].get("k") == "PBinding" else None
    cand = [n for n in walk(loops0[0]["body"], pats=False) if n.get("k") == "Assign" and peel(n["l"]).get("res_kind") == "Local"
            and any(short(x.get("res") or "") == "Some" for x in walk(n["r"], pats=False)) and any(x.get("res") == lv for x in walk(n["r"], pats=False) if x.get("k") == "Path")] if loops0 else []
    RET = ekey(cand[0]["l"]) if cand else "?"
    assigns = [n for n in walk(f["hir"]["value"]) if n.get("k") == "Assign" and ekey(n["l"]) == RET]
    loops = loops0
    if len(loops) != 1:
        R.bad("walk", "UNEXTRACTABLE: reachability walk loop not found", f["sp"])
        return
    ifs = [n for n in walk(loops[0]["body"]) if n.get("k") == "If" and peel_cond(n["cond"]).get("k") == "LetExpr" and ekey(peel_cond(n["cond"])["init"]) == RET]
    # the nodes that compete for being the exit are exactly the return instructions: the `if` around the first-return
    # bookkeeping tests `<node>.is_return()` and nothing else
    if ifs:
        from .p_parse import parent_map as _pm
        pm_ = _pm(loops[0]["body"])
        outer = pm_.get(id(ifs[0]))
        while outer is not None and outer.get("k") != "If":
            outer = pm_.get(id(outer))
        if outer is None:
            R.bad("exit-is-a-return", "UNEXTRACTABLE: the first-return bookkeeping is not under an `if`", loc(ifs[0]))
        else:
            c_ = peel_cond(outer["cond"])
            c_ = peel(c_)
            if c_.get("k") == "MethodCall" and c_["name"] == "is_return" and ekey(c_["recv"]).lstrip("&*") == lv and not c_["args"]:
                R.ok("exit-is-a-return", detail=f"only `{lv}.is_return()` nodes become the exit or are rewired to it", where=loc(outer))
            else:
                R.bad("exit-is-a-return", f"a node becomes the function's exit (or is rewired to it) under `{ekey(c_)[:70]}`, not under `{lv}.is_return()` alone: an instruction that is not a return - an exit ecall met before the first `ret` - ends up as the exit, and every real return is turned into a jump to it", loc(outer))
    if len(assigns) == 1 and len(ifs) == 1 and any(x is assigns[0] for x in walk(ifs[0].get("else") or {})):
        R.ok("first-return-kept", detail=f"`{RET}` is assigned only when it is still None")
    else:
        R.bad("first-return-kept", f"`{RET}` is assigned {len(assigns)} time(s) / not only in the first-return branch: the exit can change during the walk", f["sp"])
    if ifs:
        then = ifs[0]["then"]
        ins_next = [n for n in walk(then) if n.get("k") == "MethodCall" and n["name"] == "insert_next"]
        ins_prev = [n for n in walk(then) if n.get("k") == "MethodCall" and n["name"] == "insert_prev"]
        bound = {b["name"] for b in walk(peel_cond(ifs[0]["cond"])["pat"]) if b.get("k") == "PBinding"}
        okk = len(ins_next) == 1 and len(ins_prev) == 1 and ekey(ins_next[0]["recv"]) == ekey(ins_prev[0]["args"][0]) and ekey(ins_next[0]["args"][0]) == ekey(ins_prev[0]["recv"]) and ekey(ins_prev[0]["recv"]) in bound
        if okk:
            R.ok("rewire", detail="later return: found_ret -> prev_ret edge inserted on both sides")
        else:
            R.bad("rewire", "a later return is not rewired to the first one with a paired edge", loc(then))
    rp = pass_impls(F, GENPASS)
    run = [v for t, v in rp.items() if t.endswith("FunctionMarkupPass")][0]
    se = [n for n in walk(F.fn(run)["hir"]["value"]) if n.get("k") == "MethodCall" and n["name"] == "set_exit"]
    if len(se) == 1 and peel(se[0]["args"][0]).get("k") == "Field":
        R.ok("set_exit", detail="set_exit(data.returns) once per function")
    else:
        R.bad("set_exit", f"set_exit is called {len(se)} time(s) / not with the walk's first return", F.fn(run)["sp"])


def payload_binding_name(arm):
    for n in walk(arm["pat"]):
        if n.get("k") == "PBinding":
            return n["name"]
    return None


def peel_cond(c):
    while c.get("k") in ("DropTemps", "Use"):
        c = c["e"]
    return c


@rule("C11", "C11.e.overlap-trigger", floor=1)
def c11e(F, R):
    """the shared-instruction lint fires exactly when a node belongs to more than one function"""
    lints = pass_impls(F, LINTPASS)
    run = [v for t, v in lints.items() if t.endswith("OverlappingFunctionCheck")]
    if not run:
        raise Anchor("OverlappingFunctionCheck not found")
    f = F.fn(run[0])
    okk = False
    for n in walk(f["hir"]["value"]):
        if n.get("k") == "Binary" and n["op"] in ("Gt", "Ge", "Lt", "Le", "Ne", "Eq"):
            a, b = peel(n["a"]), peel(n["b"])
            if a.get("k") == "MethodCall" and a["name"] == "len" and mentions_call(a, "functions") and n["op"] == "Gt" and lit_value(b) == 1:
                okk = True
            elif a.get("k") == "MethodCall" and a["name"] == "len" and mentions_call(a, "functions") and n["op"] == "Ge" and lit_value(b) == 2:
                okk = True
    if okk:
        R.ok("trigger", detail="fires on node.functions().len() > 1")
    else:
        R.bad("trigger", "OverlappingFunctionCheck no longer tests `functions().len() > 1`", f["sp"])


# ============================================================================ C12
@rule("C12", "C12.a.change-flags", floor=8)
def c12a(F, R):
    """inside each `while changed` loop every #[must_use] -> bool fact setter's result is OR-ed into `changed`"""
    setters = fact_setters(F)
    for f in (_avpass_run(F), _livepass_run(F)):
        n_here = 0
        for n in walk(f["hir"]["value"]):
            if n.get("k") in ("MethodCall", "Call") and callee_of(n) in setters:
                n_here += 1
        loops = [l for l in walk(f["hir"]["value"]) if l.get("k") == "Loop" and l.get("src") == "While"]
        CH = None
        for l in loops:
            for i in walk(l["body"], pats=False):
                if i.get("k") == "If" and peel(i["cond"]).get("k") == "Path" and peel(i["cond"]).get("res_kind") == "Local":
                    CH = peel(i["cond"])["res"]
                    break
            if CH:
                break
        ored = set()
        # locals that are themselves OR-ed into the flag (`let mut x = setter(); x |= setter(); changed |= x;`)
        carriers = {CH}
        grew = True
        while grew:
            grew = False
            for a in walk(f["hir"]["value"]):
                if a.get("k") == "AssignOp" and a["op"] == "BitOrAssign" and ekey(a["l"]) in carriers:
                    r = peel(a["r"])
                    if r.get("k") == "Path" and r.get("res_kind") == "Local" and r["res"] not in carriers:
                        carriers.add(r["res"])
                        grew = True
        for a in walk(f["hir"]["value"]):
            if a.get("k") == "AssignOp" and a["op"] == "BitOrAssign" and ekey(a["l"]) in carriers:
                r = peel(a["r"])
                if r.get("k") in ("MethodCall", "Call") and callee_of(r) in setters:
                    ored.add(id(r))
            if a.get("k") == "Let" and a["pat"].get("k") == "PBinding" and a["pat"]["name"] in carriers - {CH} and a.get("init"):
                r = peel(a["init"])
                if r.get("k") in ("MethodCall", "Call") and callee_of(r) in setters:
                    ored.add(id(r))
        cnt = {}
        for n in walk(f["hir"]["value"]):
            if n.get("k") in ("MethodCall", "Call") and callee_of(n) in setters:
                nm = short(callee_of(n))
                cnt[nm] = cnt.get(nm, 0) + 1
                key = f"{short(root_fn(f['path']))}|{nm}|{cnt[nm]}"
                if id(n) in ored:
                    R.ok(key)
                else:
                    R.bad(f"{f['path']}|{nm}", f"the result of `{nm}` is not OR-ed into the loop flag `{CH}`: a change made here does not trigger another sweep", loc(n))
        # loop shape: `while changed { changed = false; ... }`
        okl = False
        for l in loops:
            txt = [a for a in walk(l) if a.get("k") == "Assign" and ekey(a["l"]) == CH and lit_value(a["r"]) is False]
            cond = [i for i in walk(l) if i.get("k") == "If" and ekey(i["cond"]) == CH]
            if txt and cond:
                okl = True
        if okl:
            R.ok(f"{short(root_fn(f['path']))}|while-changed")
        else:
            R.bad(f"{f['path']}|while-changed", "fixed-point loop is no longer `while changed { changed = false; .. }`", f["sp"])


@rule("C12", "C12.b.replace-if-changed", floor=1)
def c12b(F, R):
    """replace_if_changed returns true iff it stored a value different from the old one"""
    p = [q for q in F.fns if q.endswith("::replace_if_changed") and "RefCell" in q]
    if not p:
        raise Anchor("RefCellReplacement::replace_if_changed impl not found")
    f = F.fn(p[0])
    ifs = [n for n in walk(f["hir"]["value"]) if n.get("k") == "If"]
    okk = False
    if len(ifs) == 1:
        c = peel(ifs[0]["cond"])
        then_v = lit_value(tail(ifs[0]["then"]))
        els = ifs[0].get("else") or {}
        else_v = lit_value(tail(els))
        assign_in_else = any(a.get("k") == "Assign" for a in walk(els))
        assign_in_then = any(a.get("k") == "Assign" for a in walk(ifs[0]["then"]))
        if c.get("k") == "Binary" and c["op"] == "Eq" and then_v is False and else_v is True and assign_in_else and not assign_in_then:
            okk = True
        if c.get("k") == "Binary" and c["op"] == "Ne" and then_v is True and else_v is False and assign_in_then and not assign_in_else:
            okk = True
    if okk:
        R.ok("contract", detail="if *old == new { false } else { *old = new; true }")
    else:
        R.bad("contract", "replace_if_changed no longer returns `true` exactly when it stores a different value", f["sp"])


def tail(b):
    b = peel(b) if b.get("k") != "Block" else b
    if b.get("k") == "Block":
        return b.get("expr") or {}
    return b


def stage2_pipeline(F, f, run2ty, mut_names, depth=0):
    """flattened pass sequence of stage 2 of gen_full_cfg: [(pass short name, call node)].  Helper methods of Manager are
    inlined; a `loop` whose only exit is taken when an edge count read before the last edge-mutating pass of the body
    equals the count read after it contributes its body once, with that last mutator marked as a no-op at exit (when the
    loop is left, its last run changed nothing); any other loop contributes its body twice."""
    top = f["hir"]["value"]
    stmts = top.get("stmts", []) + ([{"k": "Expr", "e": top["expr"]}] if top.get("expr") else [])
    if depth == 0:
        idx = [i for i, s_ in enumerate(stmts) if s_.get("k") == "Let" and mentions_call(s_.get("init") or {}, "new_with_predefined_call_names")]
        stmts = stmts[idx[0] + 1:] if idx else []
    return _pipe_items([s_.get("e") or s_.get("init") or {} for s_ in stmts], F, run2ty, mut_names, depth)


def _pipe_items(exprs, F, run2ty, mut_names, depth):
    out = []
    for e in exprs:
        out += _pipe_expr(e, F, run2ty, mut_names, depth)
    return out


def _pipe_expr(e, F, run2ty, mut_names, depth):
    e = peel(e)
    k = e.get("k")
    if k in ("DropTemps", "Use"):
        return _pipe_expr(e["e"], F, run2ty, mut_names, depth)
    if k == "Call" and callee_of(e) in run2ty:
        return [(short(run2ty[callee_of(e)]), e)]
    if k == "Call" and (callee_of(e) or "").startswith(MANAGER + "::") and callee_of(e) in F.fns and depth < 3 and "hir" in F.fns[callee_of(e)]:
        g = F.fns[callee_of(e)]
        _STABLE_ROOT[:] = [g["hir"]["value"]]
        inner = stage2_pipeline(F, g, run2ty, mut_names, depth + 1)
        _STABLE_ROOT[:] = []
        if inner:
            return inner
    if k == "Loop" and e.get("src") != "While" or (k == "Loop"):
        body = e["body"]
        bstm = body.get("stmts", []) + ([{"k": "Expr", "e": body["expr"]}] if body.get("expr") else [])
        items = _pipe_items([s_.get("e") or s_.get("init") or {} for s_ in bstm], F, run2ty, mut_names, depth)
        if not items:
            return []
        if _stable_exit(body, run2ty, mut_names):
            last = max(i for i, (nm, _) in enumerate(items) if nm in mut_names) if any(nm in mut_names for nm, _ in items) else None
            if last is not None:
                nm, node = items[last]
                node = dict(node)
                node["__noop_at_exit__"] = True
                items[last] = (nm, node)
            return items
        return items + items
    if k == "Match" and e.get("src") == "ForLoopDesugar":
        for fl in for_loops(e):
            items = _pipe_expr(fl["body"], F, run2ty, mut_names, depth)
            return items + items
        return []
    if k == "Match" and e.get("src") == "TryDesugar":
        return _pipe_expr(peel(e["scrut"])["args"][0], F, run2ty, mut_names, depth)
    if k == "Block":
        bstm = e.get("stmts", []) + ([{"k": "Expr", "e": e["expr"]}] if e.get("expr") else [])
        return _pipe_items([s_.get("e") or s_.get("init") or {} for s_ in bstm], F, run2ty, mut_names, depth)
    if k == "If":
        return _pipe_expr(e["cond"], F, run2ty, mut_names, depth) + _pipe_expr(e["then"], F, run2ty, mut_names, depth) + (_pipe_expr(e["else"], F, run2ty, mut_names, depth) if e.get("else") else [])
    if k == "Ret" and e.get("e") is not None:
        return _pipe_expr(e["e"], F, run2ty, mut_names, depth)
    out = []
    for key in ("e", "recv", "a", "b", "init"):
        if isinstance(e.get(key), dict):
            out += _pipe_expr(e[key], F, run2ty, mut_names, depth)
    for key in ("args",):
        for x in e.get(key) or []:
            if isinstance(x, dict):
                out += _pipe_expr(x, F, run2ty, mut_names, depth)
    return out


_STABLE_ROOT = []


def _stable_exit(body, run2ty, mut_names):
    """the loop body leaves the loop only under `count_after == count_before`, where `count_before` is bound between the
    value analysis and the last edge-mutating pass and both counts are computed from the graph's edges (`nexts`/`prevs`)"""
    stmts = body.get("stmts", []) + ([{"k": "Expr", "e": body["expr"]}] if body.get("expr") else [])
    exits = [n for s_ in stmts for n in walk(s_, pats=False) if n.get("k") in ("Break", "Ret")]
    # `?` desugars to a `return` of the error: ignore exits inside TryDesugar matches
    tryrets = set()
    for s_ in stmts:
        for m in walk(s_, pats=False):
            if m.get("k") == "Match" and m.get("src") == "TryDesugar":
                tryrets |= {id(n) for n in walk(m, pats=False) if n.get("k") in ("Break", "Ret")}
    exits = [n for n in exits if id(n) not in tryrets]
    if len(exits) != 1:
        return False
    # the exit must be the tail of the body, guarded by an If whose condition is an equality with a local bound earlier in the body
    last = peel((stmts[-1].get("e") or {}))
    if last.get("k") != "If" or not any(n is exits[0] for n in walk(last["then"], pats=False)) or last.get("else") is not None:
        return False
    c = peel(last["cond"])
    while c.get("k") in ("DropTemps", "Use"):
        c = peel(c["e"])
    if not (c.get("k") == "Binary" and c["op"] == "Eq"):
        return False
    lets = {}
    for i, s_ in enumerate(stmts):
        if s_.get("k") == "Let" and s_["pat"].get("k") == "PBinding":
            lets[s_["pat"]["name"]] = i
    sides = [peel(c["a"]), peel(c["b"])]
    before = [x for x in sides if x.get("k") == "Path" and x.get("res") in lets]
    if len(before) != 1:
        return False
    bi = lets[before[0]["res"]]
    # both sides must be counts of the graph's edges: they mention nexts()/prevs() directly or through a local closure that does
    # (comparing the graph value itself does not work: Cfg's clone shares the nodes and its equality ignores edges)
    closures = {}
    for st in walk(_STABLE_ROOT[0] if _STABLE_ROOT else body, pats=False):
        if st.get("k") == "Let" and st["pat"].get("k") == "PBinding" and st.get("init") and peel(st["init"]).get("k") == "Closure":
            closures[st["pat"]["name"]] = peel(st["init"])

    def edge_count(e):
        e = peel(e)
        ns = list(walk(e, pats=False))
        if any(m.get("k") == "MethodCall" and m["name"] in ("nexts", "prevs") for m in ns) and any(m.get("k") == "MethodCall" and m["name"] in ("len", "count", "sum") for m in ns):
            return True
        for c_ in ns:
            if c_.get("k") == "Call" and peel(c_["f"]).get("k") == "Path" and peel(c_["f"]).get("res") in closures:
                cb = list(walk(closures[peel(c_["f"])["res"]].get("body") or {}, pats=False))
                if any(m.get("k") == "MethodCall" and m["name"] in ("nexts", "prevs") for m in cb) and any(m.get("k") == "MethodCall" and m["name"] in ("len", "count", "sum") for m in cb):
                    return True
        return False
    other = [x for x in sides if x is not before[0]][0]
    if not (edge_count(stmts[bi]["init"]) and edge_count(other)):
        return False
    # the mutating pass sits between the binding and the test
    mut_idx = [i for i, s_ in enumerate(stmts) for n in walk(s_, pats=False) if n.get("k") == "Call" and callee_of(n) in run2ty and short(run2ty[callee_of(n)]) in mut_names]
    return bool(mut_idx) and all(bi < i < len(stmts) - 1 for i in mut_idx[-1:]) and bi > min([i for i, s_ in enumerate(stmts) for n in walk(s_, pats=False) if n.get("k") == "Call" and callee_of(n) in run2ty] or [99])


@rule("C12", "C12.c.pipeline-typestate", floor=4)
def c12c(F, R):
    """in gen_full_cfg every edge-mutating pass is followed by a value analysis, liveness runs last, and both stages build the CFG from the same nodes"""
    gp = inherent_methods(F, MANAGER).get("gen_full_cfg")
    if not gp:
        raise Anchor("Manager::gen_full_cfg not found")
    f = F.fn(gp)
    gens = pass_impls(F, GENPASS)
    run2ty = {v: t for t, v in gens.items()}
    muts = edge_mutators(F)
    reach_mut = set()
    for t, rp in gens.items():
        seen, _ = F.reachable([rp])
        if seen & set(muts):
            reach_mut.add(t)
    seq = stage2_pipeline(F, f, run2ty, {short(t) for t in reach_mut})
    names = [x for x, _ in seq]
    if not names:
        R.bad("stage2", "UNEXTRACTABLE: no pass sequence found in stage 2 of gen_full_cfg", f["sp"])
        return
    R.note("stage-2 pipeline: " + " -> ".join(names))
    mut_names = {short(t) for t in reach_mut}
    for i, (nm, n) in enumerate(seq):
        if nm in mut_names and isinstance(n, dict) and n.get("__noop_at_exit__"):
            R.ok(f"after|{nm}|{names[:i].count(nm) + 1}", detail=f"{nm} ends a loop that is only left when it changed no edge: the facts of the value analysis before it describe the final graph")
            continue
        if nm in mut_names:
            later = names[i + 1:]
            key = f"after|{nm}|{names[:i].count(nm) + 1}"
            if "AvailableValuePass" in later:
                R.ok(key, detail=f"{nm} is followed by AvailableValuePass")
            else:
                why = exempt("C12.c.pipeline-typestate", key)
                if why:
                    R.ok(key, detail="exempt: " + why)
                else:
                    R.bad(key, f"{nm} mutates edges and no value analysis runs after it: value facts are stale with respect to the final graph", loc(n))
    # the exits are stable: the last value analysis is followed by an exit cut that was checked to change nothing - a value
    # analysis that runs after the last cut can make another exit ecall known, whose edges then stay in the finished graph
    if "AvailableValuePass" in names:
        lv = max(i for i, nm in enumerate(names) if nm == "AvailableValuePass")
        cutters = [(i, nm, n_) for i, (nm, n_) in enumerate(seq) if i > lv and nm in mut_names and "Ecall" in nm]
        any_cutter = any("Ecall" in nm for nm in names)
        if not any_cutter:
            pass
        elif cutters and isinstance(cutters[0][2], dict) and cutters[0][2].get("__noop_at_exit__"):
            R.ok("exits-stable", detail=f"the last AvailableValuePass is followed by {cutters[0][1]}, and the loop is only left when that cut nothing")
        else:
            R.bad("exits-stable", "the last value analysis is not followed by an exit cut that is checked to change nothing: cutting the edges after one exit ecall can make the number of the next one known; its edges then survive into the finished graph - which is not a fixed point of the pipeline (`Unknown ecall` / reachable code after an exit)", loc(seq[lv][1]) if isinstance(seq[lv][1], dict) and seq[lv][1].get("sp") else f["sp"])
    if names[-1] == "LivenessPass" and names.count("LivenessPass") == 1:
        R.ok("liveness-last", detail="LivenessPass runs once, after every other pass")
    else:
        R.bad("liveness-last", f"LivenessPass is not the single last pass of the pipeline ({names})", f["sp"])
    # both stages from the same `nodes`
    ctor_args = []
    for n in walk(f["hir"]["value"]):
        if n.get("k") == "Call" and short(callee_of(n) or "") in ("new", "new_with_predefined_call_names") and (callee_of(n) or "").startswith(CFG):
            ctor_args.append(ekey(n["args"][0]))
    if len(ctor_args) == 2 and len(set(ctor_args)) == 1:
        R.ok("same-nodes", detail=f"both CFGs are built from `{ctor_args[0]}`")
    else:
        R.bad("same-nodes", f"stage 1 and stage 2 build their CFGs from {ctor_args}", f["sp"])


# ============================================================================ C01.e  x0-sourced generated constants
def _math_op_table(F):
    """Inst variant -> MathOp variant (from Inst::math_op), with RV64 `*w` forms mapped to their base operator"""
    from .p_c08 import INST
    MATHOP = "riscv_analysis::cfg::ops::MathOp"
    mm = self_match(F, F.method(INST, "math_op"), INST)
    got = {}
    for v, arm in arm_table(mm):
        ops = ctor_names(arm["body"], MATHOP)
        if v != "_" and len(ops) == 1:
            got[v] = ops[0]
    return got


def _op_of(variant, table):
    for cand in (variant, variant[:-1] if variant.endswith("w") else None, (variant[:-2] + "i") if variant.endswith("iw") else None):
        if cand and cand in table:
            return table[cand]
    return None


def _claim(body):
    """what constant an arm claims: 'imm' | int | 'fold00' | None (no claim) | '?'"""
    AV = "riscv_analysis::analysis::available::AvailableValue::Constant"
    calls = [c for c in walk(body, pats=False) if c.get("k") == "Call" and callee_of(c) == AV]
    if not calls:
        return None
    a = peel(calls[0]["args"][0])
    if a.get("k") == "Path" and a.get("res_kind") == "Local":
        for st in walk(body, pats=False):
            if st.get("k") == "Let" and st["pat"].get("k") == "PBinding" and st["pat"]["name"] == a["res"] and st.get("init"):
                a = peel(st["init"])
    lv = lit_value(a)
    if isinstance(lv, int) and not isinstance(lv, bool):
        return lv
    if a.get("k") == "MethodCall" and a["name"] == "value" and any(f.get("k") == "Field" and f["name"] == "imm" for f in walk(a, pats=False)):
        return "imm"
    ops = [c for c in walk(a, pats=False) if c.get("k") == "MethodCall" and c["name"] == "operate"]
    if ops and [lit_value(x) for x in ops[0]["args"]] == [0, 0] and any(c.get("k") == "MethodCall" and c["name"] == "math_op" for c in walk(a, pats=False)):
        return "fold00"
    return "?"


@rule("C08", "R4.x0-sourced-constants", floor=20)
@rule("C01", "C01.e.x0-sourced-constants", floor=20)
def c01e(F, R):
    """constants generated for instructions whose sources are x0 agree with the operator algebra: op(0, imm) for I-type, op(0, 0) for R-type"""
    ref = json.load(open(os.path.join(VERIF, "reference", "rv32im_formats.json")))["folding"]
    lz, a00 = ref["left_zero"], ref["at_zero_zero"]
    table = _math_op_table(F)
    gp = F.method(PNODE, "gen_reg_value", trait="HasGenValueInfo")
    m = self_match(F, gp, PNODE)
    IAT = "riscv_analysis::parser::inst::IArithType"
    AT = "riscv_analysis::parser::inst::ArithType"
    x0 = REG + "::X0"

    def arm_of(name):
        """the arm of `name` that makes the claim (a variant may have a guarded arm followed by others)"""
        cands = [a for v, a in arm_table(m) if v == name]
        if not cands:
            raise Anchor(f"gen_reg_value has no {name} arm")
        claiming = [a for a in cands if _claim(a["body"]) is not None]
        if len(claiming) > 1:
            R.bad(f"{name}|shape", f"UNEXTRACTABLE: {len(claiming)} arms of {name} claim a constant", loc(claiming[1]))
        return (claiming or cands)[0]

    def silent_unless(name, variants, cases, what):
        """whatever the spelling of the condition (an `if`, a guard on the arm, `cond.then(..)`), the node claims nothing when a source is a real register"""
        for env in cases:
            for v in variants:
                try:
                    r = eval_prop_full(F, "gen_reg_value", name, dict(env, inst=v, rd="X5", imm=7), trait="HasGenValueInfo")
                except Unx as ex:
                    return f"UNEXTRACTABLE: gen_reg_value for {name} {v} with {env} ({ex})"
                if r != "none" and "Constant" in repr(r):
                    srcs = ", ".join(f"{k_} = {x_.lower()}" for k_, x_ in sorted(env.items()))
                    return f"`{v.lower()}` with {srcs} is claimed to produce a constant ({r[1] if isinstance(r, tuple) else r}): {what}"
        return None
    from .nodeprops import eval_prop_full, Unx
    # ---- I-type: `op rd, x0, imm`
    ia = arm_of("IArith")
    why = silent_unless("IArith", F.variants(IAT), [{"rs1": "X6"}], "the value of rs1 is part of the result")
    if why is None:
        R.ok("IArith|guard", detail="I-type constants are generated only under rs1 == x0 (evaluated with rs1 = x6 for every I-type instruction: no claim)")
    else:
        R.bad("IArith|guard", "I-type constant generation is not guarded by `rs1 == x0`: " + why, loc(ia))
    inner = None
    for mt in find_matches(ia["body"]):
        vs = [v for a in mt["arms"] for k, v in pat_variants(a["pat"]) if k == "path"]
        if vs and all(v and v.startswith(IAT + "::") for v in vs):
            inner = mt
    if inner is None:
        R.bad("IArith|shape", "UNEXTRACTABLE: no match over IArithType in the IArith arm", loc(ia))
    else:
        for v, arm in arm_table(inner):
            if v == "_":
                if _claim(arm["body"]) is not None:
                    R.bad("IArith|_", "wildcard arm claims a constant", loc(arm))
                continue
            c = _claim(arm["body"])
            if c is None:
                R.ok(f"IArith|{v}", detail="no claim", trivial=True)
                continue
            if v == "Lui":
                if c == "imm":
                    R.ok("IArith|Lui", detail="lui rd, imm: the parser has already shifted the immediate; claim = imm")
                else:
                    R.bad("IArith|Lui", f"lui claims {c}", loc(arm))
                continue
            op = _op_of(v, table)
            want = lz.get(op) if op else None
            okc = (c == "imm" and want == "y") or (isinstance(c, int) and want == c)
            if okc:
                R.ok(f"IArith|{v}", detail=f"{v.lower()} rd, x0, imm: {op}(0, imm) = {'imm' if want == 'y' else want}; claimed {c}")
            else:
                R.bad(f"IArith|{v}", f"`{v.lower()} rd, x0, imm` is claimed to produce {c}, but {op}(0, imm) is {'imm' if want == 'y' else ('not a constant function of imm alone' if want is None else want)}", loc(arm))
    # ---- R-type: `op rd, x0, x0`
    ar = arm_of("Arith")
    why = silent_unless("Arith", F.variants(AT), [{"rs1": "X6", "rs2": "X0"}, {"rs1": "X0", "rs2": "X6"}, {"rs1": "X6", "rs2": "X7"}], "the sources are part of the result")
    if why is None:
        R.ok("Arith|guard", detail="R-type constants are generated only under rs1 == x0 && rs2 == x0 (evaluated with a real register in either / both source positions: no claim)")
    else:
        R.bad("Arith|guard", "R-type constant generation is not guarded by `rs1 == x0 && rs2 == x0`: " + why, loc(ar))
    # per-variant claims: an inner match over ArithType, or one claim for all variants
    inner = None
    for mt in find_matches(ar["body"]):
        vs = [v for a in mt["arms"] for k, v in pat_variants(a["pat"]) if k == "path"]
        if vs and all(v and v.startswith(AT + "::") for v in vs):
            inner = mt
    per = {}
    if inner is not None:
        default = None
        for v, arm in arm_table(inner):
            if v == "_":
                default = _claim(arm["body"])
            else:
                per[v] = _claim(arm["body"])
        for v in F.variants(AT):
            per.setdefault(v, default)
    else:
        c = _claim(ar["body"])
        per = {v: c if c is not None else "?" for v in F.variants(AT)}
    for v in F.variants(AT):
        c = per[v]
        op = _op_of(v, table)
        want = a00.get(op, a00["default"]) if op else None
        if c is None:
            R.ok(f"Arith|{v}", detail="no claim", trivial=True)
        elif c == "fold00" and op is not None:
            R.ok(f"Arith|{v}", detail=f"{v.lower()} rd, x0, x0: folded with {op}.operate(0, 0) (semantics decided by C08 R4)")
        elif c == "fold00":
            R.ok(f"Arith|{v}", detail="folded when an operator exists", trivial=True)
        elif want is None and isinstance(c, int):
            R.ok(f"Arith|{v}", detail=f"{v.lower()} has no folding operator; claim {c} not judged", trivial=True)
            R.note(f"unconstrained: {v} (no MathOp)")
        elif c == want:
            R.ok(f"Arith|{v}", detail=f"{v.lower()} rd, x0, x0 = {want}")
        else:
            R.bad(f"Arith|{v}", f"`{v.lower()} rd, x0, x0` is claimed to produce {c}; RV32IM gives {op}(0, 0) = {want}", loc(ar))


@rule("C12", "C12.e.monotone-predecessor-filter", floor=2)
@rule("C06", "C06.t.monotone-predecessor-filter", floor=2)
def c12e(F, R):
    """in the fixed-point loops a neighbour is filtered out of the meet only by membership in a grow-only `visited` set (a filter on the facts themselves is not monotone: the iteration can oscillate forever)"""
    for f in (_avpass_run(F), _livepass_run(F)):
        fname = short(root_fn(f["path"])) + "@" + ("AvailableValuePass" if "available" in f["path"] else "LivenessPass")
        loops = [l for l in walk(f["hir"]["value"], pats=False) if l.get("k") == "Loop" and l.get("src") == "While"]
        if not loops:
            R.bad(f"{fname}|loop", "UNEXTRACTABLE: no while loop", f["sp"])
            continue
        loop = loops[0]
        outer_lets = set()
        for st in f["hir"]["value"].get("stmts", []):
            if st.get("k") == "Let" and st["pat"].get("k") == "PBinding":
                outer_lets.add(st["pat"]["name"])
        n = 0
        for call, cl, _srcs, _at, sub in meet_sites(F, f):
            # walk the chain below the reduce for filters
            r = call["recv"]
            while r.get("k") == "MethodCall":
                if r["name"] == "filter" and r["args"]:
                    n += 1
                    c = peel(r["args"][0])
                    body = peel(c["body"]) if c.get("k") == "Closure" else {}
                    key = f"{fname}|filter{n}"
                    okk = False
                    why = "the filter is not a membership test"
                    if body.get("k") == "MethodCall" and body["name"] in ("contains", "contains_key"):
                        s = peel(body["recv"])
                        if s.get("k") == "Path" and s.get("res_kind") == "Local" and sub.get(s["res"], s["res"]) in outer_lets:
                            S = sub.get(s["res"], s["res"])   # a helper's parameter stands for the set that the pass hands in
                            muts = {m["name"] for m in walk(loop, pats=False) if m.get("k") == "MethodCall" and ekey(m["recv"]) == S} - {"contains", "contains_key", "len", "is_empty"}
                            reassigned = any(a.get("k") == "Assign" and ekey(a["l"]) == S for a in walk(loop, pats=False))
                            if muts <= {"insert"} and "insert" in muts and not reassigned:
                                okk = True
                            else:
                                why = f"`{S}` is not grow-only inside the loop (mutated by {sorted(muts)}{', reassigned' if reassigned else ''})"
                        else:
                            why = "the tested set is not a local declared before the loop"
                    if okk:
                        R.ok(key, detail=f"neighbours filtered by membership in the grow-only set `{S}`", where=loc(r))
                    else:
                        R.bad(f"{fname}|filter|{ekey(body)[:50]}", f"predecessors are filtered with `{ekey(body)[:70]}`: {why}. Facts both grow and shrink during the iteration, so such a filter can make the loop oscillate and never terminate", loc(r))
                r = r["recv"]
        if n == 0:
            R.ok(f"{fname}|no-filter", detail="no neighbour filter in the meets")


@rule("C02", "C02.f.argument-return-inference", floor=1)
def c02f(F, R):
    """a function's inferred arguments are entry live-out ∩ argument registers, its returns exit live-in ∩ return registers"""
    fm = inherent_methods(F, FUNC)
    spec = {"arguments": ({"live_out", "argument_set"}, "entry"), "returns": ({"live_in", "return_set"}, "exit")}
    for name, (need, end) in spec.items():
        p = fm.get(name)
        if not p:
            R.bad(f"{name}|missing", f"Function::{name} not found")
            continue
        f = F.fn(p)
        body = peel(f["hir"]["value"])
        calls = {short(callee_of(c) or "") for c in walk(body, pats=False) if c.get("k") in ("MethodCall", "Call")}
        uses_end = any((c.get("k") == "Field" and c["name"] == end) or (c.get("k") == "MethodCall" and c["name"] == end) for c in walk(body, pats=False))
        ands = [b for b in walk(body, pats=False) if b.get("k") == "Binary"]
        if need <= calls and uses_end and len(ands) == 1 and ands[0]["op"] == "BitAnd":
            R.ok(name, detail=f"{name}() = {end}.{sorted(need)[0] if 'live' in sorted(need)[0] else sorted(need)[1]}() & {[n for n in need if n.endswith('_set')][0]}()")
        else:
            R.bad(name, f"Function::{name} is no longer `{end}.{[n for n in need if n.startswith('live')][0]}() & Register::{[n for n in need if n.endswith('_set')][0]}()` (calls {sorted(calls)}, ops {[b['op'] for b in ands]})", f["sp"])


@rule("C01", "C01.f.rewrites-do-not-resurrect", floor=2)
def c01f(F, R):
    """a rewrite rule of the value analysis that loops over a map and inserts under the loop's key must loop over the map it writes (the post-kill/gen `out` map) or test that the out map still holds the looped value: a fact the node has just killed or overwritten must not be re-inserted from the `in` map"""
    avp = [q for q in F.fns if q.endswith("AvailableValuePass as riscv_analysis::passes::generation_pass::GenerationPass>::run") or q.endswith("AvailableValuePass as riscv_analysis::passes::GenerationPass>::run")]
    if not avp:
        avp = [F.method("riscv_analysis::analysis::available::AvailableValuePass", "run", trait="GenerationPass")]
    run = F.fn(avp[0])
    helpers = sorted({callee_of(n) for n in walk(run["hir"]["value"], pats=False) if n.get("k") == "Call" and (callee_of(n) or "").startswith("riscv_analysis::analysis::available::")} - {None})
    bodies = [(h, F.fn(h)) for h in helpers if h in F.fns and "hir" in F.fns[h]] + [(avp[0], run)]
    n_ins = 0
    for q, f in bodies:
        params = {x.get("name"): (x.get("ty") or "") for x in f["hir"]["params"]}
        mut_maps = {n for n, t in params.items() if t.startswith("&mut ") and "AvailableValueMap" in t}
        if q == avp[0]:
            mut_maps = {s_["pat"]["name"] for s_ in walk(f["hir"]["value"], pats=False) if s_.get("k") == "Let" and s_["pat"].get("k") == "PBinding" and "AvailableValueMap" in (s_["pat"].get("ty") or "") and "Mut" in (s_["pat"].get("mode") or "")}
        for fl in for_loops(f["hir"]["value"]):
            binds = [b["name"] for b in walk(fl["pat"]) if b.get("k") == "PBinding"]
            if not binds:
                continue
            key = binds[0]
            val = binds[1] if len(binds) > 1 else None
            it_root = None
            x = peel(fl["iter"])
            while x.get("k") in ("MethodCall", "AddrOf", "Unary"):
                x = peel(x.get("recv") or x.get("e") or x.get("a"))
            if x.get("k") == "Path":
                it_root = x.get("res")
            pm = None
            for ins in walk(fl["body"], pats=False):
                if not (ins.get("k") == "MethodCall" and ins["name"] == "insert" and len(ins["args"]) == 2):
                    continue
                tgt = ekey(ins["recv"]).lstrip("*&")
                if tgt not in mut_maps:
                    continue
                k0 = ekey(ins["args"][0]).lstrip("*&").replace(".clone()", "")
                if k0 != key:
                    continue
                n_ins += 1
                rid = f"{short(q)}|{tgt}<-{it_root}"
                if it_root == tgt:
                    R.ok(rid, detail=f"{short(q)}: rewrites `{tgt}` while iterating a copy of `{tgt}` itself", where=loc(ins))
                    continue
                # guarded by `tgt.get(key) == Some(val)` (or contains/matches on tgt)?
                if pm is None:
                    from .p_parse import parent_map
                    pm = parent_map(fl["body"])
                guarded = False
                y = ins
                while id(y) in pm:
                    y = pm[id(y)]
                    if y.get("k") == "If":
                        c = list(walk(y["cond"], pats=False))
                        reads_tgt = any(m.get("k") == "MethodCall" and m["name"] in ("get", "contains_key") and ekey(m["recv"]).lstrip("*&") == tgt and m["args"] and ekey(m["args"][0]).lstrip("*&") == key for m in c)
                        uses_val = val is None or any(m.get("k") == "Path" and m.get("res") == val for m in c)
                        if reads_tgt and uses_val:
                            # the comparison with the looped value is an equality, in the positive branch
                            eqs = [b_ for b_ in c if b_.get("k") == "Binary" and b_["op"] in ("Eq", "Ne") and any(m_.get("k") == "MethodCall" and m_["name"] in ("get", "contains_key") and ekey(m_["recv"]).lstrip("*&") == tgt for m_ in walk(b_, pats=False))]
                            negs = [u_ for u_ in c if u_.get("k") == "Unary" and u_["op"] == "Not"]
                            in_then = any(z is ins for z in walk(y["then"], pats=False))
                            if all(b_["op"] == "Eq" for b_ in eqs) and not negs and in_then:
                                guarded = True
                if guarded:
                    R.ok(rid, detail=f"{short(q)}: insert into `{tgt}` is conditional on `{tgt}` still holding the looped entry", where=loc(ins))
                else:
                    R.bad(rid, f"{short(q)} inserts into `{tgt}` under every key of `{it_root}`: when the node has just overwritten or killed that key (`sw zero,0(sp); lw t0,0(sp); li t0,7` or a second store to the slot) the old x0-based value is written back over the new one and a false constant is claimed", loc(ins))
    if n_ins == 0:
        raise Anchor("no keyed insert inside a loop found in the rewrite rules")


@rule("C01", "C01.g.memory-facts-respect-access-width", floor=1)
def c01g(F, R):
    """a stack-slot fact stands for a whole word: only a word store may generate it (a narrower store must not claim the whole register value) and only a word load may copy it into a register"""
    LT = "riscv_analysis::parser::inst::LoadType"
    ST = "riscv_analysis::parser::inst::StoreType"
    gp = F.method(PNODE, "gen_memory_value", trait="HasGenValueInfo")
    m = self_match(F, gp, PNODE)
    arms = dict(arm_table(m))
    st = arms.get("Store")
    if st is None:
        raise Anchor("gen_memory_value has no Store arm")
    # evaluate the arm for a narrow store to a stack slot: whatever the spelling (`if .. { Some(..) }`, `cond.then(|| ..)`), it must claim nothing
    from .nodeprops import eval_prop_full, Unx
    narrow = [v for v in F.variants(ST) if v not in ("Sw", "Sd")]
    claiming = []
    unx = None
    for v in narrow:
        try:
            r = eval_prop_full(F, "gen_memory_value", "Store", {"rs1": "X2", "rs2": "X5", "imm": 8, "inst": v}, trait="HasGenValueInfo")
        except Unx as ex:
            unx = str(ex)
            continue
        if r != "none":
            claiming.append(v)
    if unx is not None and not claiming:
        R.bad("store|unextractable", f"UNEXTRACTABLE: gen_memory_value for a narrow store ({unx})", loc(st))
    elif not claiming:
        R.ok("store", detail=f"narrow stores ({', '.join(narrow)}) generate no whole-word slot fact")
    else:
        R.bad("store", "gen_memory_value claims `slot = rs2` for every StoreType: after `sb t0, 0(sp)` the slot is claimed to hold the whole of t0 (0x1234) while memory holds one byte of it; `lw` then copies the false value into a register", loc(st))
    # loads: a narrow load must not end up with a description of the word it reads a part of. Two places can give the
    # destination such a description: gen_reg_value (evaluated per load kind) and the rewrite rules of the pass that insert
    # a memory description for a `ParserNode::Load` destination (their inserts must be unreachable for a narrow load)
    from .facts import path_constraints, bool3
    from .p_parse import parent_map
    narrow_l = [v for v in F.variants(LT) if v not in ("Lw", "Lwu", "Ld")]
    probs = []
    for v in narrow_l:
        try:
            r = eval_prop_full(F, "gen_reg_value", "Load", {"inst": v, "rd": "X6", "rs1": "X2", "imm": 0}, trait="HasGenValueInfo")
        except Unx as ex:
            probs.append(f"gen_reg_value for {v.lower()}: UNEXTRACTABLE ({ex})")
            continue
        if r != "none":
            probs.append(f"gen_reg_value describes the destination of `{v.lower()}` as the memory word it reads from")
    where = None
    for q, g in sorted(F.fns.items()):
        if "::analysis::available::rule_" not in q or "hir" not in g or "{closure" in q:
            continue
        body = g["hir"]["value"]
        pmq = parent_map(body)
        for ins in walk(body, pats=False):
            if ins.get("k") != "MethodCall" or ins["name"] != "insert" or not ins["args"]:
                continue
            if not any(c_.get("k") == "Call" and re.search(r"AvailableValue::(MemoryAt\w+|Memory)$", callee_of(c_) or "") for c_ in walk(ins["args"][-1], pats=False)) and \
                    not (short(q) in ("rule_value_from_stack", "rule_pull_value_from_csr_memory")):
                continue
            # only rules that look at loads
            loads = any(y.get("k") == "MethodCall" and y["name"] == "reads_from_memory" for y in walk(body, pats=False)) or \
                any((y.get("res") or "").endswith("ParserNode::Load") for y in walk(body))
            if not loads or short(q) == "rule_value_from_stack":
                continue
            for v in narrow_l:
                def ev3(e, v=v):
                    """three-valued truth of a condition for a Load node of kind v: `matches!(x.inst.get(), A | B)`, `matches!(node, ParserNode::Load(l) if <guard>)`, !, &&, ||"""
                    e = peel(e)
                    while e.get("k") in ("DropTemps", "Use") or (e.get("k") == "Block" and not e.get("stmts") and e.get("expr") is not None):
                        e = peel(e["e"] if e.get("k") != "Block" else e["expr"])
                    k_ = e.get("k")
                    if k_ == "Lit" and e["lit"]["t"] == "bool":
                        return e["lit"]["v"]
                    if k_ == "Unary" and e["op"] == "Not":
                        x = ev3(e["a"])
                        return None if x is None else not x
                    if k_ == "Binary" and e["op"] in ("And", "Or"):
                        x, y = ev3(e["a"]), ev3(e["b"])
                        if e["op"] == "And":
                            return False if (x is False or y is False) else (True if (x is True and y is True) else None)
                        return True if (x is True or y is True) else (False if (x is False and y is False) else None)
                    if k_ == "Match" and len(e.get("arms", [])) == 2 and isinstance(lit_value(e["arms"][0]["body"]), bool) and isinstance(lit_value(e["arms"][1]["body"]), bool):
                        a0 = e["arms"][0]
                        t_, f_ = lit_value(a0["body"]), lit_value(e["arms"][1]["body"])
                        vs = {short(x) for kk, x in pat_variants(a0["pat"]) if kk == "path" and x and x.startswith(LT + "::")}
                        if vs:
                            return t_ if v in vs else f_
                        if any((y.get("res") or "").endswith("ParserNode::Load") for y in walk(a0["pat"])):
                            g_ = ev3(a0["guard"]) if a0.get("guard") is not None else True
                            return None if g_ is None else (t_ if g_ else f_)
                    return None
                reachable = True
                for cnd, want in path_constraints(pmq, ins):
                    val = ev3(cnd)
                    if val is not None and val != want:
                        reachable = False
                if reachable:
                    probs.append(f"{short(q)} gives the destination of `{v.lower()}` a description of the whole word")
                    where = where or loc(ins)
                    break
    if not probs:
        R.ok("load", detail=f"narrow loads ({', '.join(narrow_l)}) get no description of the word they read a part of")
    else:
        R.bad("load", "rule_value_from_stack copies the slot's word value into the destination of every LoadType: after `sw t0, 0(sp)` with t0 = 0x1234, `lb t1, 0(sp)` is claimed to give 0x1234 (the machine gives 0x34) [" + "; ".join(probs[:3]) + "]", where or f_sp_load(F))


def f_sp_load(F):
    rv = [q for q in F.fns if q.endswith("analysis::available::rule_value_from_stack")]
    return F.fn(rv[0])["sp"] if rv else None


@rule("C01", "C01.u.memory-reads-see-the-state-before-the-node", floor=1)
def c01u(F, R):
    """an instruction that reads a tracked location and writes it in the same step (`csrrw`/`csrrwi`: old CSR value into rd, new value into the CSR) receives the value from *before* the step. The rewrite rules of the value pass that copy a memory fact into the destination register are therefore handed `memory_values_in()` - unless the rule only ever applies to loads, which write no memory. Handing it the freshly computed out-state makes `csrrwi a7, uscratch, 10` claim a7 = 10"""
    from .nodeprops import eval_prop_full, Unx
    f = _avpass_run(F)
    body = f["hir"]["value"]
    lets = {}
    for st in walk(body, pats=False):
        if st.get("k") == "Let" and st["pat"].get("k") == "PBinding" and st.get("init") is not None:
            lets[st["pat"]["name"]] = st["init"]
    n = 0
    for c in walk(body, pats=False):
        if c.get("k") != "Call":
            continue
        q = callee_of(c) or ""
        g = F.fns.get(q)
        if not g or "hir" not in g or "::analysis::available::" not in q:
            continue
        ptys = g.get("param_tys") or []
        regs_i = [i for i, t in enumerate(ptys) if t.startswith("&mut ") and "AvailableValueMap<riscv_analysis::parser::register::Register>" in t]
        mem_i = [i for i, t in enumerate(ptys) if t.startswith("&") and not t.startswith("&mut ") and "AvailableValueMap<riscv_analysis::analysis::memory_location::MemoryLocation>" in t]
        if not regs_i or not mem_i:
            continue
        pnames = [p_.get("name") for p_ in g["hir"]["params"]]
        for mi in mem_i:
            mp = pnames[mi]
            gets = [m for m in walk(g["hir"]["value"], pats=False) if m.get("k") == "MethodCall" and m["name"] == "get" and ekey(m["recv"]).lstrip("&*") == mp]
            if not gets:
                continue
            # under which per-node guard does the rule read the map? `if let .. = node.<guard>()`
            from .p_parse import parent_map
            pm = parent_map(g["hir"]["value"])
            guards = set()
            for m in gets:
                x = m
                outer = None
                while id(x) in pm:
                    x = pm[id(x)]
                    if x.get("k") == "If":
                        cnd = x["cond"]
                        while cnd.get("k") in ("DropTemps", "Use"):
                            cnd = cnd["e"]
                        if cnd.get("k") == "LetExpr":
                            ini = peel(cnd["init"])
                            if ini.get("k") == "MethodCall" and not ini["args"] and ekey(ini["recv"]).lstrip("&*") == pnames[0]:
                                outer = ini["name"]
                guards.add(outer)
            # can that guard hold for a node kind that generates a memory fact?
            writers = []
            for kind, env in (("Csr", {"inst": "Csrrw", "rd": "X5", "rs1": "X6", "csr": 64}), ("CsrI", {"inst": "Csrrwi", "rd": "X5", "imm": 9, "csr": 64}), ("Store", {"inst": "Sw", "rs1": "X2", "rs2": "X5", "imm": 8})):
                try:
                    gm = eval_prop_full(F, "gen_memory_value", kind, env, trait="HasGenValueInfo")
                except Unx:
                    gm = "?"
                if gm == "none":
                    continue
                for gd in guards:
                    if gd is None:
                        writers.append(kind)
                        continue
                    try:
                        r = eval_prop_full(F, gd, kind, env)
                    except Unx:
                        r = "?"
                    if r != "none" and r is not False:
                        writers.append(kind)
            a = peel(c["args"][mi])
            while a.get("k") == "AddrOf":
                a = peel(a["e"])
            cls = None
            if a.get("k") == "MethodCall" and a["name"] == "memory_values_in":
                cls = "in"
            elif a.get("k") == "MethodCall" and a["name"] == "memory_values_out":
                cls = "previous-out"
            elif a.get("k") == "Path" and a.get("res_kind") == "Local":
                cls = "local `" + a["res"] + "`"
                init = lets.get(a["res"])
                muts = [x for x in walk(body, pats=False) if x.get("k") == "MethodCall" and x["name"] in ("insert", "forget_values_reading", "extend") and ekey(x["recv"]).lstrip("&*") == a["res"]]
                if init is not None and not muts and peel(init).get("k") == "MethodCall" and peel(init)["name"] == "memory_values_in":
                    cls = "in"
            n += 1
            key = f"{short(q)}|{mp}"
            if not writers:
                R.ok(key, detail=f"{short(q)} reads `{mp}` only for nodes that write no memory (guard {sorted(x or '-' for x in guards)}): any state will do", where=loc(c))
            elif cls == "in":
                R.ok(key, detail=f"{short(q)} can apply to {sorted(set(writers))} nodes and is given the memory state before the node", where=loc(c))
            else:
                R.bad(key, f"{short(q)} copies a memory fact into the destination register, also for {sorted(set(writers))} nodes - which overwrite the location they read - and is given {cls}, not `memory_values_in()`: with uscratch = 1, `csrrwi a7, uscratch, 10` is claimed to leave a7 = 10 (the machine: 1), and the next `ecall` is taken for an exit", loc(c))
    if n == 0:
        raise Anchor("no rewrite rule of the value pass takes the register map and a memory map")

@rule("C01", "C01.v.an-indirect-call-is-a-call", floor=2)
@rule("C02", "C02.p.an-indirect-call-is-a-call", floor=2)
def c01v(F, R):
    """`jalr ra, rs, imm` calls a function the analyzer cannot name: whatever it is, it may overwrite every caller-saved register and read every argument register. The kill set of such a node is therefore the caller-saved class (as for `jal ra, f`) and its gen set includes the argument class; a kill set of just `ra` lets `li a7, 1; jalr ra, t1; ecall` keep claiming a7 = 1 across the call"""
    from .nodeprops import eval_prop_full, Unx

    def calls_in(v):
        out = set()
        if isinstance(v, tuple):
            if v and v[0] == "call" and len(v) > 1 and isinstance(v[1], str):
                out.add(v[1])
            for x in v:
                out |= calls_in(x)
        return out
    env = {"inst": "Jalr", "rd": "X1", "rs1": "X6", "imm": 0}
    for meth, cls, what in (("kill_reg", "caller_saved_set", "overwrite every caller-saved register"), ("gen_reg", "argument_set", "read every argument register")):
        gp = F.fn(F.method(PNODE, meth, trait=HGKI))
        try:
            v = eval_prop_full(F, meth, "JumpLinkR", env, trait=HGKI)
        except Unx as ex:
            R.bad(f"{meth}|unextractable", f"UNEXTRACTABLE: {meth} for `jalr ra, t1, 0` ({ex})", gp["sp"])
            continue
        if cls in calls_in(v):
            R.ok(meth, detail=f"`jalr ra, t1, 0`: {meth} contains Register::{cls}()", where=gp["sp"])
        else:
            R.bad(meth, f"`jalr ra, t1, 0` (a call through a register) has {meth} = {sorted(calls_in(v) - {'const_zero_set'}) or 'its own operands only'}: the callee can {what}, so "
                  + ("constants and stack-pointer facts in caller-saved registers survive a call that destroys them (`li a7, 1; jalr ra, t1; ecall` is read as service 1 whatever the callee left in a7)" if meth == "kill_reg"
                     else "an argument set up for the callee (`li a0, 5; jalr ra, t1`) is reported as an unused value"), gp["sp"])

@rule("C01", "C01.w.every-csr-write-updates-or-drops-the-csr-fact", floor=6)
def c01w(F, R):
    """the value of a CSR is tracked like a memory cell. Every instruction form that changes the CSR either gives the cell its new value (`csrrw`: rs1, `csrrwi`: the immediate) or makes the old value disappear: `csrrs` / `csrrc` with a source other than x0, `csrrsi` / `csrrci` with a non-zero immediate set or clear bits, so the value that was known is no longer the value. A form that does neither leaves `csrw 5; csrs 2; csrr a7` claiming a7 = 5 where the machine has 7"""
    from .nodeprops import eval_prop_full, Unx
    gp = F.fn(F.method(PNODE, "gen_memory_value", trait="HasGenValueInfo"))
    has_kill = None
    try:
        kp = F.method(PNODE, "kill_memory_values", trait="HasGenValueInfo")
        has_kill = kp
    except Exception:
        has_kill = None
    cases = []
    for inst in F.variants("riscv_analysis::parser::inst::CsrType"):
        for rs1 in ("X0", "X6"):
            writes = inst == "Csrrw" or rs1 != "X0"
            cases.append(("Csr", {"inst": inst, "rd": "X5", "rs1": rs1, "csr": 64}, f"{inst.lower()} t0, 64, {'zero' if rs1 == 'X0' else 't1'}", writes))
    for inst in F.variants("riscv_analysis::parser::inst::CsrIType"):
        for imm in (0, 2):
            writes = inst == "Csrrwi" or imm != 0
            cases.append(("CsrI", {"inst": inst, "rd": "X5", "imm": imm, "csr": 64}, f"{inst.lower()} t0, 64, {imm}", writes))
    for variant, env, text, writes in cases:
        key = f"{variant}|{text}"
        try:
            gen = eval_prop_full(F, "gen_memory_value", variant, env, trait="HasGenValueInfo")
            kill = eval_prop_full(F, "kill_memory_values", variant, env, trait="HasGenValueInfo") if has_kill else "none"
        except Unx as ex:
            R.bad(key + "|unextractable", f"UNEXTRACTABLE: memory effect of `{text}` ({ex})", gp["sp"])
            continue
        gens = gen != "none"
        kills = kill not in ("none", ("call", "new"), ()) and not (isinstance(kill, tuple) and kill[:1] == ("array",) and not kill[1:]) and kill != ("call", "new", ) and str(kill) not in ("('call', 'new')",)
        if isinstance(kill, tuple) and kill and kill[0] == "call" and kill[1] in ("new", "default"):
            kills = False
        if not writes:
            if kills:
                R.ok(key, detail=f"`{text}` leaves the CSR alone; dropping its fact anyway is merely imprecise")
            else:
                R.ok(key, detail=f"`{text}` does not change the CSR; its fact is kept")
        elif gens or kills:
            R.ok(key, detail=f"`{text}` " + ("gives the CSR its new value" if gens else "drops what was known about the CSR"))
        else:
            R.bad(key, f"`{text}` changes the CSR but neither generates its new value nor drops the old one: the value known before the instruction is still claimed after it (`csrw t0, uscratch` with t0 = 5, then `csrs t1, uscratch` with t1 = 2, then `csrr a7, uscratch`: a7 = 5 is claimed, the machine has 7 - and the next `ecall` is read as service 5)", gp["sp"])

@rule("C01", "C01.x.a-store-finds-its-slot-by-value", floor=1)
def c01x(F, R):
    """a stack slot is named by its distance from the entry stack pointer, not by the register that happens to hold the address: a store whose base register is *known* to point into the frame (`addi t1, sp, 4; sw zero, 0(t1)`) updates - or, if it is narrower than a word, drops - the slot it hits, exactly as the same store through sp would. A value pass that only looks for the name `sp` in a store keeps the slot's old claim, and `lw a7, 4(sp); ecall` is read with the value that was overwritten"""
    AV = "riscv_analysis::analysis::available::AvailableValue"
    f = _avpass_run(F)
    cands = [f] + [g for q, g in sorted(F.fns.items()) if "::analysis::available::rule_" in q and "hir" in g and "{closure" not in q]
    called = {callee_of(c) for c in walk(f["hir"]["value"], pats=False) if c.get("k") == "Call"}
    found = None
    for g in cands:
        if g is not f and g["path"] not in called:
            continue
        body = g["hir"]["value"]
        # a place that (1) looks at a store, (2) asks what its base register holds and recognises `entry sp + k`, (3) writes a StackOffset fact
        looks_store = any((y.get("res") or "").endswith("ParserNode::Store") for y in walk(body)) or any(y.get("k") == "MethodCall" and y["name"] == "stores_to_memory" for y in walk(body, pats=False))
        asks_value = False
        tests = []   # (pattern, what is looked at): `if let`, `let .. else`, and the arms of a `match`
        for m in walk(body, pats=False):
            if m.get("k") in ("LetExpr", "Let") and m.get("init"):
                tests.append((m["pat"], m["init"]))
            elif m.get("k") == "Match" and m.get("src") in (None, "Normal"):
                tests += [(a_["pat"], m["scrut"]) for a_ in m["arms"]]
        for pat_, init_ in tests:
            if any((y.get("res") or "").endswith("AvailableValue::OriginalRegisterWithScalar") for y in walk(pat_)):
                ini = list(walk(init_, pats=False))
                if any(y.get("k") == "MethodCall" and y["name"] == "get" for y in ini) and any(y.get("k") == "Field" and y["name"] == "rs1" for y in ini) or any(y.get("k") == "Path" and y.get("res_kind") == "Local" for y in ini) and g is not f:
                    asks_value = True
        writes_slot = any(m.get("k") == "MethodCall" and m["name"] in ("insert", "remove") and any((y.get("res") or "").endswith("MemoryLocation::StackOffset") for y in walk(m, pats=False)) for m in walk(body, pats=False))
        checks_sp = any(y.get("k") == "MethodCall" and y["name"] == "is_stack_pointer" for y in walk(body, pats=False)) or any((y.get("res") or "").endswith("Register::X2") for y in walk(body))
        if looks_store and asks_value and writes_slot and checks_sp and g is not f:
            found = g
    if found is not None:
        R.ok("alias", detail=f"{short(found['path'])}: a store through a register that holds `entry sp + k` updates / drops the slot it hits", where=found["sp"])
        # ... and the slot it hits is `k + the store's own offset` (`addi t1, sp, 4; sw zero, 8(t1)` writes slot 12, not 4 and not 8)
        body = found["hir"]["value"]
        offs = set()
        for y in walk(body):
            if y.get("k") == "PTupleStruct" and (y.get("res") or "").endswith("AvailableValue::OriginalRegisterWithScalar") and len(y.get("pats", [])) == 2 and y["pats"][1].get("k") == "PBinding":
                offs.add(y["pats"][1]["name"])
        lets_ = local_inits(body)

        def atom(e):
            x = e
            while x.get("k") == "MethodCall" and x["name"] in ("value", "get", "get_cloned", "clone") and not x["args"]:
                x = peel(x["recv"])
            if x is not e and x.get("k") == "Field" and x["name"] == "imm":
                return "imm"
            return None
        n_ = 0
        for c in walk(body, pats=False):
            if c.get("k") == "Call" and (callee_of(c) or "").endswith("MemoryLocation::StackOffset") and c["args"]:
                n_ += 1
                try:
                    lf = linform(c["args"][0], lets_, atom=atom)
                except LinUnx as ex:
                    R.bad(f"slot|{ekey(c['args'][0])}|unextractable", f"UNEXTRACTABLE: the slot `{ekey(c['args'][0])}` is not a sum that can be read ({ex})", loc(c))
                    continue
                others = [k_ for k_, v_ in lf.items() if k_ and v_ and k_ != "imm" and k_ not in offs]
                if lf.get("imm", 0) == 1 and sum(lf.get(o, 0) for o in offs) == 1 and (others or lf.get("", 0) == 0):
                    R.ok(f"slot|{ekey(c['args'][0])}", detail="the slot is the known offset of the base register plus the store's own offset" + (f" (+ {others} over the bytes of the word)" if others else ""), where=loc(c))
                else:
                    R.bad(f"slot|{ekey(c['args'][0])}", f"the slot `{ekey(c['args'][0])}` = {lf} is not `known offset of the base register + the store's offset`: `addi t1, sp, 4; sw zero, 8(t1)` writes the word at entry sp + 12, the fact lands on another slot and slot 12 keeps its old claim", loc(c))
        if not n_:
            R.bad("slot|none", "the alias rule names no stack slot", found["sp"])
    else:
        R.bad("alias", "no rule of the value pass applies a store through a register that is known to point into the stack frame: `li t0, 7; sw t0, 4(sp); addi t1, sp, 4; sw zero, 0(t1); lw a7, 4(sp); ecall` keeps claiming slot 4 = 7 and reads the ecall as service 7 (the machine: 0)", f["sp"])


# bytes written by the narrow store instructions (RISC-V ISA: sb = 1, sh = 2); a word is 4 bytes
NARROW_STORE_BYTES = {"Sb": 1, "Sh": 2}


@rule("C01", "C01.y.a-narrow-store-drops-every-word-it-overlaps", floor=2)
def c01y(F, R):
    """a slot fact stands for the 4 bytes at `slot .. slot+3`. A store of w bytes at offset o changes bytes o .. o+w-1, so it touches every tracked
    word whose slot s satisfies o-3 <= s <= o+w-1: the facts dropped are exactly the half-open range (-3 .. w) around o - fewer leaves a word that
    was partly overwritten with its old claim (`sw zero, 0(sp); sb t0, 3(sp); lw a7, 0(sp)` still says 0)"""
    from .p_parse import parent_map
    ST = "riscv_analysis::parser::inst::StoreType"
    narrow = [v for v in F.variants(ST) if v in NARROW_STORE_BYTES]
    other = [v for v in F.variants(ST) if v not in NARROW_STORE_BYTES and v not in ("Sw", "Sd")]
    if other:
        R.bad("store-types|" + ",".join(other), f"UNEXTRACTABLE: StoreType has variants {other} whose width this rule does not know", F.fns[sorted(F.fns)[0]]["sp"])
    if not narrow:
        raise Anchor("StoreType has no narrow variant")

    def intval(e, lets):
        e = peel(e)
        while e.get("k") in ("DropTemps", "Use", "Cast"):
            e = peel(e["e"])
        lv = lit_value(e)
        if isinstance(lv, int) and not isinstance(lv, bool):
            return lv
        if e.get("k") == "Unary" and e.get("op") == "Neg":
            v = intval(e["a"], lets)
            return None if v is None else -v
        return None

    def per_type(e, lets, depth=0):
        """value of an integer expression per narrow store type: {T: int | None (control leaves: no range for T) }; None = unknown"""
        e = peel(e)
        while e.get("k") in ("DropTemps", "Use", "Cast") or (e.get("k") == "Block" and not e.get("stmts") and e.get("expr") is not None):
            e = peel(e["e"] if e.get("k") != "Block" else e["expr"])
        v = intval(e, lets)
        if v is not None:
            return {t: v for t in narrow}
        if e.get("k") == "Path" and e.get("res_kind") == "Local" and e["res"] in lets and depth < 4:
            return per_type(lets[e["res"]], lets, depth + 1)
        if e.get("k") == "Match" and e.get("src") in (None, "Normal"):
            out = {}
            for arm in e["arms"]:
                vs = {short(v_) for k_, v_ in pat_variants(arm["pat"]) if k_ == "path" and v_ and v_.startswith(ST + "::")}
                wild = arm["pat"].get("k") in ("PWild", "PBinding")
                if arm.get("guard") is not None:
                    return None
                b = peel(arm["body"])
                while b.get("k") == "Block" and not b.get("stmts") and b.get("expr") is not None:
                    b = peel(b["expr"])
                val = None if (b.get("k") == "Ret" or any(y.get("k") == "Ret" for y in walk(b, pats=False))) else intval(b, lets)
                if val is None and not (b.get("k") == "Ret" or any(y.get("k") == "Ret" for y in walk(b, pats=False))):
                    return None
                for t in narrow:
                    if t not in out and (t in vs or wild):
                        out[t] = val
            return out if all(t in out for t in narrow) else None
        return None

    per_fn = {}
    for q, g in sorted(F.fns.items()):
        if "::analysis::" not in q or "hir" not in g or "{closure" in q:
            continue
        body = g["hir"]["value"]
        if not any(c.get("k") == "Call" and (callee_of(c) or "").endswith("MemoryLocation::StackOffset") for c in walk(body, pats=False)):
            continue
        lets = local_inits(body)
        pm = parent_map(body)
        for r in walk(body, pats=False):
            lo = hi = None
            if r.get("k") == "Struct" and (r.get("res") or "").endswith("ops::range::Range"):
                fl = {f_["name"]: f_["e"] for f_ in r.get("fields", [])}
                lo, hi, incl = fl.get("start"), fl.get("end"), 0
            elif r.get("k") == "Call" and (callee_of(r) or "").endswith("RangeInclusive::new") and len(r["args"]) == 2:
                lo, hi, incl = r["args"][0], r["args"][1], 1
            if lo is None or hi is None or "i32" not in (r.get("ty") or ""):
                continue
            # the range feeds slots: the expression / loop it drives names a StackOffset
            top = r
            while pm.get(id(top)) is not None and pm[id(top)].get("k") in ("MethodCall", "Call", "DropTemps", "Use", "Paren", "AddrOf") and not (pm[id(top)].get("k") == "Call" and (callee_of(pm[id(top)]) or "").endswith("MemoryLocation::StackOffset")):
                top = pm[id(top)]
            scope = top
            par = pm.get(id(top))
            if par is not None and par.get("k") == "Match" and par.get("src") == "ForLoopDesugar":
                scope = par
            if not any(c.get("k") == "Call" and (callee_of(c) or "").endswith("MemoryLocation::StackOffset") for c in walk(scope, pats=False)):
                continue
            # which store types get here: the arms of enclosing matches on the store type
            here = set(narrow)
            n = r
            while pm.get(id(n)) is not None:
                up = pm[id(n)]
                if up.get("k") == "Match" and up.get("src") in (None, "Normal"):
                    for arm in up["arms"]:
                        if arm is n or any(y is n for y in (arm["body"], arm.get("guard")) if y is not None):
                            vs = {short(v_) for k_, v_ in pat_variants(arm["pat"]) if k_ == "path" and v_ and v_.startswith(ST + "::")}
                            if vs:
                                here &= vs
                n = up
            lo_v = intval(lo, lets)
            if lo_v is None and peel(lo).get("k") == "Path" and peel(lo).get("res") in lets:
                lo_v = intval(lets[peel(lo)["res"]], lets)
            his = per_type(hi, lets)
            key0 = f"{short(q)}|{ekey(lo)}..{'=' if incl else ''}{ekey(hi)}"
            if lo_v is None or his is None:
                R.bad(key0 + "|unextractable", f"UNEXTRACTABLE: the bounds of `{ekey(lo)}..{ekey(hi)}` (slots dropped around a store) are not literal per store type", loc(r))
                continue
            for t in sorted(here):
                if his.get(t) is None:
                    continue
                per_fn.setdefault(q, set()).add(t)
                w = NARROW_STORE_BYTES[t]
                if lo_v == -3 and his[t] + incl == w:
                    R.ok(f"{key0}|{t}", detail=f"{t} ({w} byte{'s' if w > 1 else ''}): the words at offsets -3 .. {w - 1} around the store are dropped", where=loc(r))
                else:
                    R.bad(f"{key0}|{t}", f"a {t} store changes {w} byte(s): it overlaps the words at offsets -3 ..= {w - 1} around it, but the facts dropped are those at {lo_v} ..= {his[t] + incl - 1}: "
                          + ("a word that is partly overwritten keeps its old claim (`sw zero, 0(sp); sb t0, 3(sp); lw a7, 0(sp)` still says 0)" if lo_v > -3 or his[t] + incl < w else "words that the store does not touch lose their facts (imprecise, and the stack lints then miss a saved register)"), loc(r))
    for q, ts in sorted(per_fn.items()):
        miss = [t for t in narrow if t not in ts]
        if miss:
            R.bad(f"{short(q)}|covers|{','.join(miss)}", f"{short(q)} drops the overlapped words for {sorted(ts)} but not for {miss}", F.fns[q]["sp"])
    # the direct form (`sb t0, 3(sp)`) is decided where the node says what it kills in memory
    kp = F.method(PNODE, "kill_memory_values", trait="HasGenValueInfo")
    if not kp:
        raise Anchor("no kill_memory_values on ParserNode")
    reach = {kp} | {callee_of(c) for c in walk(F.fn(kp)["hir"]["value"], pats=False) if c.get("k") in ("Call", "MethodCall")}
    if any(q in reach for q in per_fn):
        R.ok("direct", detail="kill_memory_values names the words that a narrow store through sp overlaps", where=F.fn(kp)["sp"])
    else:
        R.bad("direct", "what a node kills in memory names no word for a narrow store through sp: `sw zero, 0(sp); sb t0, 0(sp); lw a7, 0(sp)` keeps the claim slot 0 = 0", F.fn(kp)["sp"])


@rule("C01", "C01.z.killed-slots-are-named-from-the-entry-sp", floor=2)
def c01z(F, R):
    """a node names the stack words it kills relative to the *current* sp (`sb t0, 9(sp)` kills 9-3 .. 9); the facts are keyed by the distance from the sp at
    function entry. Before such a location touches the map it is moved by the current frame offset (`curr + offset`), and when that offset is not known any
    slot may have been hit: every stack fact goes. Removing the untranslated key leaves the overlapped slot with its old claim in every frame that has moved sp"""
    f = _avpass_run(F)
    body = f["hir"]["value"]
    ML = "riscv_analysis::analysis::memory_location::MemoryLocation::StackOffset"
    loops = [lp for lp in for_loops(body) if any(y.get("k") == "MethodCall" and y["name"] == "kill_memory_values" for y in walk(lp["iter"], pats=False))]
    if not loops:
        raise Anchor("no loop over kill_memory_values() in the value pass")
    for lp in loops:
        lv = lp["pat"]["name"] if lp["pat"] is not None and lp["pat"].get("k") == "PBinding" else None
        ms = [m for m in walk(lp["body"], pats=False) if m.get("k") == "Match" and m.get("src") in (None, "Normal") and peel(m["scrut"]).get("k") == "Tup" and len(peel(m["scrut"])["elems"]) == 2
              and ekey(peel(m["scrut"])["elems"][0]).lstrip("&*") == lv and any(y.get("k") == "MethodCall" and y["name"] == "stack_offset" for y in walk(peel(m["scrut"])["elems"][1], pats=False))]
        if lv is None or len(ms) != 1:
            R.bad("shape", "UNEXTRACTABLE: the killed locations are not dispatched by `match (location, <current stack offset>)`", loc(lp["node"]))
            continue
        m = ms[0]

        def takes(p, what):
            """does the sub-pattern accept `what` (StackOffset | Some | None)?  -> (accepts, binder names)"""
            while p.get("k") in ("PRef", "PDeref", "PBox"):
                p = p["pat"]
            if p.get("k") in ("PWild", "PBinding"):
                return True, []
            if p.get("k") == "POr":
                rs = [takes(q, what) for q in p["pats"]]
                return any(r[0] for r in rs), [b for r in rs if r[0] for b in r[1]]
            res = p.get("res") or (peel(p.get("e") or {}).get("res") if p.get("k") == "PExpr" else "") or ""
            want = {"StackOffset": ML, "Some": "core::option::Option::Some", "None": "core::option::Option::None"}[what]
            if res == want:
                return True, [b_["name"] for b_ in walk(p) if b_.get("k") == "PBinding"]
            return False, []
        for so in ("Some", "None"):
            arm = binds = None
            for a in m["arms"]:
                tp = a["pat"]
                if tp.get("k") != "PTuple" or len(tp["pats"]) != 2 or a.get("guard") is not None:
                    if tp.get("k") in ("PWild", "PBinding"):
                        arm, binds = a, ([], [])
                        break
                    continue
                t0, t1 = takes(tp["pats"][0], "StackOffset"), takes(tp["pats"][1], so)
                if t0[0] and t1[0]:
                    arm, binds = a, (t0[1], t1[1])
                    break
            key = f"stack-word|frame-offset-{'known' if so == 'Some' else 'unknown'}"
            if arm is None:
                R.bad(key, "no arm handles a killed stack word in this case", loc(m))
                continue
            if so == "Some":
                okk = False
                for rm in walk(arm["body"], pats=False):
                    if rm.get("k") == "MethodCall" and rm["name"] in ("remove", "insert") and rm["args"]:
                        for c in walk(rm["args"][0], pats=False):
                            if c.get("k") == "Call" and callee_of(c) == ML and c["args"]:
                                try:
                                    lf = linform(c["args"][0], local_inits(arm["body"]))
                                except LinUnx:
                                    continue
                                if binds[0] and binds[1] and all(lf.get(b_, 0) == 1 for b_ in (binds[0][0], binds[1][0])) and lf.get("", 0) == 0 and len([k_ for k_, v_ in lf.items() if k_ and v_]) == 2:
                                    okk = True
                if okk:
                    R.ok(key, detail="the slot dropped is `current frame offset + the node's offset`", where=loc(arm))
                else:
                    R.bad(key, "a stack word the node kills is dropped under the node's own sp-relative offset, not under `current frame offset + offset`: after `addi sp, sp, -16; sw s0, 8(sp)` the slot is -8, `sb t0, 9(sp)` removes slots 6..9 instead of -10..-7, and `lw s0, 8(sp)` still claims the saved value (a clobbered save of a callee-saved register goes unreported)", loc(arm))
            else:
                clears = [rm for rm in walk(arm["body"], pats=False) if rm.get("k") == "MethodCall" and rm["name"] in ("retain", "clear") ]
                okk = False
                for rm in clears:
                    if rm["name"] == "clear":
                        okk = True
                    else:
                        cl = closure_like(F, rm["args"][0]) or {}
                        b = peel(cl.get("body") or {})
                        neg = b.get("k") == "Unary" and b.get("op") == "Not"
                        if any((y.get("res") or "") == ML for y in walk(b)) and neg:
                            okk = True
                if okk:
                    R.ok(key, detail="with an unknown frame offset every stack fact is dropped", where=loc(arm))
                else:
                    R.bad(key, "a narrow store through sp whose frame offset is not known leaves the stack facts as they are: any of them may describe the word that was hit", loc(arm))


@rule("C01", "C01.h.kill-reaches-values", floor=1)
def c01h(F, R):
    """a fact whose *value* is written in terms of the current contents of a register (RegisterWithScalar / MemoryAtRegister built from an operand register) is dropped from both the register map and the memory map when the node overwrites that register"""
    AV = "riscv_analysis::analysis::available::AvailableValue"
    # CUR: variants constructed from an instruction's own operand register
    cur = set()
    for q, g in F.fns.items():
        if "hir" not in g or not q.startswith("riscv_analysis::analysis::") and "riscv_analysis::analysis::" not in q:
            continue
        for c in walk(g["hir"]["value"], pats=False):
            if c.get("k") == "Call" and (callee_of(c) or "").startswith(AV + "::") and c["args"]:
                a0 = c["args"][0]
                if any(x.get("k") == "Field" and x.get("name") in ("rs1", "rs2") for x in walk(a0, pats=False)):
                    cur.add(short(callee_of(c)))
    if not cur:
        raise Anchor("no AvailableValue variant is built from an operand register")
    f = _avpass_run(F)
    setters = fact_setters(F)
    body = f["hir"]["value"]
    kill_locals = {s_["pat"]["name"] for s_ in walk(body, pats=False) if s_.get("k") == "Let" and s_["pat"].get("k") == "PBinding" and s_.get("init") and mentions_call(s_["init"], "kill_reg")}

    def forgetter(m):
        c = callee_of(m)
        if not c or c not in F.fns or "hir" not in F.fns[c]:
            return None
        g = F.fns[c]
        gb = [g["hir"]["value"]] + [F.fns[x]["hir"]["value"] for x in F.closures_of(c) if "hir" in F.fns[x]]
        has_retain = any(n.get("k") == "MethodCall" and n["name"] in ("retain", "remove") for b in gb for n in walk(b, pats=False))
        seen = {short(v) for b in gb for n in walk(b) for k_, v in (pat_variants(n) if n.get("k", "").startswith("P") else []) if k_ == "path" and v and v.startswith(AV + "::")}
        if not has_retain or not seen:
            return None
        return seen
    for fld, what in (("reg_values_out", "register"), ("memory_values_out", "memory")):
        seed = "reg_values_in" if what == "register" else "memory_values_in"
        roots = {s_["pat"]["name"] for s_ in walk(body, pats=False) if s_.get("k") == "Let" and s_["pat"].get("k") == "PBinding" and s_.get("init") and peel(s_["init"]).get("k") == "MethodCall" and peel(s_["init"])["name"] == seed}
        # ... and the local that is published as the out-fact (it may be built from such a copy)
        for m_ in walk(body, pats=False):
            if m_.get("k") in ("MethodCall", "Call") and callee_of(m_) in [p_ for p_, f_ in setters.items() if f_ == fld]:
                a_ = call_recv_args(m_)[1]
                if a_ and peel(a_[-1]).get("k") == "Path" and peel(a_[-1]).get("res_kind") == "Local":
                    roots.add(peel(a_[-1])["res"])
        hits = []
        for m in walk(body, pats=False):
            if m.get("k") == "MethodCall" and ekey(m["recv"]).lstrip("&*") in roots:
                seen = forgetter(m)
                if seen is None:
                    continue
                fed = any((x.get("k") == "Path" and x.get("res") in kill_locals) or (x.get("k") == "MethodCall" and x["name"] == "kill_reg") for a in m["args"] for x in walk(a, pats=False))
                hits.append((m, seen, fed))
        good = [h for h in hits if h[2] and cur <= h[1]]
        if good:
            R.ok(what, detail=f"{what} map: `{ekey(good[0][0]['recv'])}.{good[0][0]['name']}(kill set)` drops values built on {sorted(cur)}", where=loc(good[0][0]))
        elif hits:
            m, seen, fed = hits[0]
            R.bad(what, f"{what} map: `{m['name']}` covers {sorted(seen)} (fed by the kill set: {fed}) but values of kind {sorted(cur - seen)} also name a current register", loc(m))
        else:
            R.bad(what, f"the {what} map keeps values of kind {sorted(cur)} after the register they name is overwritten: `sw a0,0(sp); li a0,9; lw t1,0(sp)` claims slot = 9 and t1 = a0", f["sp"])
        # ... and it is the last word: what the node generates describes its operands as they were before it, so a description that
        # still names a register the node overwrites (`csrrw t0, uscratch, t0`: the CSR gets the *old* t0) must not survive either
        setter = [p_ for p_, f_ in setters.items() if f_ == fld]
        pubs = [m for m in walk(body, pats=False) if m.get("k") in ("MethodCall", "Call") and callee_of(m) in setter]
        from .p_parse import parent_map
        pm_ = parent_map(body)
        for pub in pubs:
            args_ = call_recv_args(pub)[1]
            X = ekey(args_[-1]).lstrip("&*") if args_ else None
            blk = pm_.get(id(pub))
            while blk is not None and blk.get("k") != "Block":
                blk = pm_.get(id(blk))
            if X is None or blk is None or lit_value(args_[-1]) is not None or peel(args_[-1]).get("k") != "Path":
                continue
            stmts_ = blk.get("stmts", [])
            last_write = last_forget = -1
            for i_, st in enumerate(stmts_):
                if any(y is pub for y in walk(st, pats=False)):
                    break
                for m in walk(st, pats=False):
                    if m.get("k") == "MethodCall" and ekey(m["recv"]).lstrip("&*") == X:
                        if forgetter(m) is not None and any((x.get("k") == "Path" and x.get("res") in kill_locals) or (x.get("k") == "MethodCall" and x["name"] == "kill_reg") for a in m["args"] for x in walk(a, pats=False)):
                            last_forget = i_
                        elif m["name"] in ("insert", "extend", "union", "union_if"):
                            last_write = i_
                    if m.get("k") in ("Call", "MethodCall") and any(peel(a_).get("k") == "AddrOf" and peel(a_).get("mut") and ekey(peel(a_)["e"]) == X for a_ in m.get("args", [])):
                        last_write = i_
                    if m.get("k") == "Assign" and ekey(m["l"]) == X:
                        last_write = i_
                if st.get("k") == "Let" and st["pat"].get("k") == "PBinding" and st["pat"]["name"] == X:
                    last_write = max(last_write, i_)
            if last_forget > last_write >= 0:
                R.ok(f"{what}|last-word", detail=f"`{X}`: nothing is added after the values that read a killed register were dropped", where=loc(pub))
            elif last_write >= 0:
                R.bad(f"{what}|last-word", f"`{X}` still receives values after the last `forget` of what reads a killed register: what the node generates (or a rewrite rule adds) may describe its operand by name - `csrrw t0, uscratch, t0` records 'the CSR holds t0', t0 is overwritten by the same instruction, and from the next node on the CSR is claimed to hold whatever t0 holds then (with uscratch = 1 before: the CSR is claimed to be 1)", loc(stmts_[last_write]))


@rule("C16", "C16.d.label-transfers-are-edges-or-calls", floor=4)
@rule("C01", "C01.t.label-transfers-are-edges-or-calls", floor=4)
@rule("C02", "C02.o.label-transfers-are-edges-or-calls", floor=4)
@rule("C03", "C03.e.label-transfers-are-edges-or-calls", floor=4)
def c03e(F, R):
    """every instruction that transfers control to a label is seen either as a call (calls_to) or as a jump (jumps_to), for every link register: `jal rd, L` with rd = x0, ra or any other register, and every branch; NodeDirectionPass draws its label edges from jumps_to()"""
    from .nodeprops import eval_prop, Unx
    cases = [("JumpLink", {"rd": "X0"}, False), ("JumpLink", {"rd": "X1"}, True), ("JumpLink", {"rd": "X5"}, False), ("JumpLink", {"rd": "X31"}, False),
             ("Branch", {"rs1": "X5", "rs2": "X6", "inst": "Beq"}, False), ("Branch", {"rs1": "X0", "rs2": "X0", "inst": "Bne"}, False)]
    for v, env, is_call in cases:
        key = f"{v}|" + ",".join(f"{k}={x}" for k, x in sorted(env.items()))
        try:
            c = eval_prop(F, "calls_to", v, env)
            j = eval_prop(F, "jumps_to", v, env)
        except Unx as ex:
            R.bad(key + "|unextractable", f"UNEXTRACTABLE: cannot evaluate calls_to/jumps_to for {v} {env}: {ex}", None)
            continue
        if is_call and c == "some" and j == "none":
            R.ok(key, detail="a call: calls_to = Some, jumps_to = None")
        elif not is_call and c == "none" and j == "some":
            R.ok(key, detail="a jump: jumps_to = Some(label), calls_to = None")
        elif c == "none" and j == "none":
            R.bad(key, f"`{v.lower()}` with {env} transfers control to its label but is neither a call nor a jump (calls_to = None, jumps_to = None): the edge to the label is missing and the target can be reported unreachable", F.fn(F.method(PNODE, "jumps_to", trait=IPROPS))["sp"])
        else:
            R.bad(key, f"`{v.lower()}` with {env}: calls_to = {c}, jumps_to = {j} (expected {'call' if is_call else 'jump'} only)", F.fn(F.method(PNODE, "jumps_to", trait=IPROPS))["sp"])
    # other variants never jump to a label
    for v in F.variants(PNODE):
        if v in ("JumpLink", "Branch"):
            continue
        try:
            j = eval_prop(F, "jumps_to", v, {})
        except Unx:
            j = "?"
        if j == "some":
            R.bad(f"{v}|jumps", f"{v} is treated as a jump to a label", None)
    gens = pass_impls(F, GENPASS)
    nd = [rp for t, rp in gens.items() if t.endswith("NodeDirectionPass")]
    f = F.fn(nd[0])
    srcs = []
    for n in walk(f["hir"]["value"], pats=False):
        if n.get("k") == "If":
            c = n["cond"]
            while c.get("k") in ("DropTemps", "Use"):
                c = c["e"]
            # the label edge: the branch that looks a node up by label and links it
            if c.get("k") == "LetExpr" and any(m.get("k") == "MethodCall" and m["name"] == "insert_next" for m in walk(n["then"], pats=False)) \
                    and any(m.get("k") == "Field" and m.get("name") == "labels" for m in walk(n["then"])):
                srcs.append(peel(c["init"]))
    if len(srcs) == 1 and srcs[0].get("k") == "MethodCall" and srcs[0]["name"] == "jumps_to":
        R.ok("edge-source", detail="NodeDirectionPass adds the label edge for `node.jumps_to()`")
    else:
        R.bad("edge-source", f"NodeDirectionPass draws label edges from {[ekey(x) for x in srcs]}, not from jumps_to() alone", f["sp"])


@rule("C01", "C01.i.stack-store-replaces-the-slot-fact", floor=4)
def c01i(F, R):
    """the value pass has no kill for memory facts: a slot's old claim only disappears when the store that overwrites it generates the new one. So `gen_memory_value` must answer for every store whose base is sp, whatever the stored register (x0 included), with the slot `imm` and the stored register itself"""
    from .nodeprops import eval_prop_full, Unx
    # is there a separate kill for memory facts in the pass? (then a silent store is not stale)
    for rs2 in ("X0", "X5", "X2", "X10"):
        env = {"rs1": "X2", "rs2": rs2, "imm": 8, "inst": "Sw"}
        key = f"Store|sp|rs2={rs2}"
        try:
            r = eval_prop_full(F, "gen_memory_value", "Store", env, trait="HasGenValueInfo")
        except Unx as ex:
            R.bad(key + "|unextractable", f"UNEXTRACTABLE: cannot evaluate gen_memory_value for `sw {rs2}, 8(sp)`: {ex}", None)
            continue
        gp = F.fn(F.method(PNODE, "gen_memory_value", trait="HasGenValueInfo"))
        if r == "none":
            R.bad(key, f"`sw {rs2.lower()}, 8(sp)` generates no fact for the slot: the claim the slot carried before the store survives it (there is no memory kill), e.g. a saved register is still believed saved after `sw zero` over it", gp["sp"])
            continue
        ok = isinstance(r, tuple) and r[0] == "some" and isinstance(r[1], tuple) and len(r[1]) == 2
        if ok:
            locv, val = r[1]
            ok = isinstance(locv, tuple) and locv[:2] == ("call", "StackOffset") and locv[2] == 8 and \
                isinstance(val, tuple) and val[0] == "call" and val[2] == rs2 and (len(val) < 4 or val[3] == 0)
        if ok:
            R.ok(key, detail=f"sw {rs2.lower()}, 8(sp) -> slot 8 := {val[1]}({rs2}, {val[3] if len(val) > 3 else ''})")
        else:
            R.bad(key, f"`sw {rs2.lower()}, 8(sp)` generates {r}: not the slot `8` holding the stored register", gp["sp"])
    # CSR writes: `csrrw rd, csr, rs1` puts exactly rs1 (+0) into the CSR, `csrrwi rd, csr, imm` exactly imm
    gp = F.fn(F.method(PNODE, "gen_memory_value", trait="HasGenValueInfo"))
    for v, env, want_val in (("Csr", {"inst": "Csrrw", "rd": "X5", "rs1": "X6", "csr": 64}, ("RegisterWithScalar", "X6", 0)),
                             ("CsrI", {"inst": "Csrrwi", "rd": "X5", "imm": 9, "csr": 64}, ("Constant", 9))):
        key = f"{v}|{env['inst']}"
        try:
            r = eval_prop_full(F, "gen_memory_value", v, env, trait="HasGenValueInfo")
        except Unx as ex:
            R.bad(key + "|unextractable", f"UNEXTRACTABLE: gen_memory_value for {v} {env}: {ex}", gp["sp"])
            continue
        okk = isinstance(r, tuple) and r[0] == "some" and isinstance(r[1], tuple) and len(r[1]) == 2 and isinstance(r[1][1], tuple) and r[1][1][0] == "call" \
            and r[1][1][1] == want_val[0] and tuple(r[1][1][2:]) == tuple(want_val[1:]) and isinstance(r[1][0], tuple) and r[1][0][:2] == ("call", "CsrRegister")
        if okk:
            R.ok(key, detail=f"{env['inst'].lower()} writes {want_val} into the CSR's slot")
        else:
            R.bad(key, f"`{env['inst'].lower()}` generates the memory fact {r}; the instruction writes {want_val} into the CSR", gp["sp"])

@rule("C11", "C11.j.sharing-is-reported-wherever-it-starts", floor=1)
def c11j(F, R):
    """instructions that belong to more than one function are reported whenever there are any - also when the functions only share a tail (two functions that jump, or fall, into a common epilogue) and no function entry lies in the shared part. The report may be limited to the place where a shared stretch begins, but not to nodes that are function entries"""
    from .facts import path_constraints, bool3, local_inits
    from .p_parse import parent_map
    LE = "riscv_analysis::passes::lint_error::LintError"
    lints = pass_impls(F, LINTPASS)
    rp = [v for t, v in lints.items() if t.endswith("OverlappingFunctionCheck")]
    if not rp:
        raise Anchor("OverlappingFunctionCheck not found")
    g = F.fn(rp[0])
    body = g["hir"]["value"]
    pm = parent_map(body)
    lets = local_inits(body)
    pushes = [p_ for p_ in walk(body, pats=False) if p_.get("k") == "MethodCall" and p_["name"] == "push" and p_["args"] and any((callee_of(c) or "") == f"{LE}::NodeInManyFunctions" for c in walk(p_["args"][0], pats=False) if c.get("k") == "Call")]
    if not pushes:
        R.bad("shape", "UNEXTRACTABLE: OverlappingFunctionCheck pushes no NodeInManyFunctions", g["sp"])
        return

    def classify(e):
        if e.get("k") == "MethodCall" and e["name"] in ("is_some", "is_none") and any(y.get("k") == "MethodCall" and y["name"] in ("is_function_entry_with_func",) for y in walk(e["recv"], pats=False)):
            return "entry" if e["name"] == "is_some" else "not_entry"
        if e.get("k") == "MethodCall" and e["name"] in ("is_function_entry", "is_any_entry") and not e["args"]:
            return "entry"
        if e.get("k") == "Binary" and e["op"] in ("Gt", "Ge") and any(y.get("k") == "MethodCall" and y["name"] == "functions" for y in walk(e["a"], pats=False)) and isinstance(lit_value(e["b"]), int):
            return "shared"
        return None
    # can some push be reached for a shared node that is not an entry?
    reachable = False
    for pu in pushes:
        okp = True
        for c, want in path_constraints(pm, pu):
            v = bool3(c, classify, {"shared": True, "entry": False, "not_entry": True}, lets)
            if v is not None and v != want:
                okp = False
        if okp:
            reachable = True
    # where the report is limited to the beginning of a shared stretch, "begins" is existential: *some* predecessor belongs to fewer
    # functions. Asked of *all* predecessors, a shared tail whose first instruction is also the head of a loop inside the tail (one
    # predecessor is the shared back edge) begins nowhere and is never reported
    from .facts import walk_expanded
    quants = []
    for pu in pushes:
        for c, want in path_constraints(pm, pu):
            for m in walk_expanded(c, lets):
                if m.get("k") == "MethodCall" and m["name"] in ("any", "all") and m["args"] and any(y.get("k") == "MethodCall" and y["name"] in ("prevs", "iter_prevs") for y in walk(m["recv"], pats=False)) and not any(m is q_ for q_ in quants):
                    quants.append(m)
    for i_, m in enumerate(quants, 1):
        cl = closure_like(F, m["args"][0]) or {}
        ps = [b_["name"] for p_ in cl.get("params", []) for b_ in walk(p_) if b_.get("k") == "PBinding"]
        b = peel(cl.get("body") or {})
        while b.get("k") == "Block" and not b.get("stmts") and b.get("expr") is not None:
            b = peel(b["expr"])
        fewer = None
        if len(ps) == 1 and b.get("k") == "Binary" and b["op"] in ("Lt", "Gt", "Ne", "Le", "Ge"):
            def who(e):
                roots = {y.get("res") for y in walk(e, pats=False) if y.get("k") == "Path" and y.get("res_kind") == "Local"}
                fn = any(y.get("k") == "MethodCall" and y["name"] == "functions" for y in walk(e, pats=False))
                return ("prev" if ps[0] in roots else "node") if fn else None
            l, r = who(b["a"]), who(b["b"])
            if (l, r, b["op"]) in (("prev", "node", "Lt"), ("node", "prev", "Gt"), ("prev", "node", "Ne"), ("node", "prev", "Ne")):
                fewer = True
            elif l and r:
                fewer = False
        key = f"begins|{i_}"
        if fewer is None:
            R.bad(key + "|unextractable", f"UNEXTRACTABLE: the test over the predecessors under which sharing is reported (`{ekey(m)[:70]}`)", loc(m))
        elif not fewer:
            R.bad(key, f"the shared stretch is said to begin where a predecessor does *not* belong to fewer functions (`{ekey(b)[:60]}`)", loc(m))
        elif m["name"] == "all":
            R.bad(key, "a shared stretch is said to begin only where *every* predecessor belongs to fewer functions: a shared tail that starts at the head of a loop (`fn_a: ..; j count` / `fn_b: ..` falling into `count: ..; bnez a0, count; ret`) has a shared predecessor - its own back edge - and is never reported", loc(m))
        else:
            R.ok(key, detail="a shared stretch begins where some predecessor belongs to fewer functions", where=loc(m))
    if reachable:
        R.ok("shared-non-entry", detail="a node in several functions is reported also when it is no function entry", where=loc(pushes[0]))
    else:
        R.bad("shared-non-entry", "NodeInManyFunctions is only pushed for nodes that are function entries: two functions that share a tail (`fn_a: ..; j tail` / `fn_b: ..` falling into `tail: ..; ret`) share instructions without any diagnostic - the sharing is reported when an entry happens to lie in it, not when it exists", loc(pushes[0]))

@rule("C09", "C09.n.a-rewritten-node-keeps-its-own-place", floor=1)
@rule("C11", "C11.k.a-rewritten-node-keeps-its-own-place", floor=1)
def c09n(F, R):
    """when the function markup replaces an instruction by another one (a further `ret` of a function becomes a jump to the function's exit), the new node carries the token - file, range, text - of the instruction it replaces: every diagnostic about that line is located through it. Built with the token of the *other* return, whatever is reported about the second `ret` appears on the first"""
    n = 0
    for q, g in sorted(F.fns.items()):
        if "hir" not in g or "::gen::" not in q:
            continue
        body = g["hir"]["value"]
        lets = {}
        for st in walk(body, pats=False):
            if st.get("k") == "Let" and st["pat"].get("k") == "PBinding" and st.get("init") is not None:
                lets[st["pat"]["name"]] = st["init"]

        def root(e, depth=0):
            """the node a value is taken from: follows method receivers, `&`, `Rc::clone(&x)` and named locals"""
            e = peel(e)
            while True:
                if e.get("k") in ("AddrOf",) or (e.get("k") == "Unary" and e.get("op") == "Deref"):
                    e = peel(e.get("e") or e.get("a"))
                elif e.get("k") == "MethodCall":
                    e = peel(e["recv"])
                elif e.get("k") == "Call" and short(callee_of(e) or "") == "clone" and e["args"]:
                    e = peel(e["args"][0])
                else:
                    break
            if e.get("k") == "Path" and e.get("res_kind") == "Local":
                nm = e["res"]
                if nm in lets and depth < 4:
                    r = root(lets[nm], depth + 1)
                    # an alias (`let found = Rc::clone(&node)`) stands for what it clones; anything else is its own origin
                    ini = peel(lets[nm])
                    if ini.get("k") == "Call" and short(callee_of(ini) or "") == "clone":
                        return r
                return nm
            return None
        for m in walk(body, pats=False):
            if m.get("k") != "MethodCall" or m["name"] != "set_node" or not m["args"]:
                continue
            target = root(m["recv"])
            newn = peel(m["args"][0])
            ctor = peel(lets[newn["res"]]) if newn.get("k") == "Path" and newn.get("res") in lets else newn
            if ctor.get("k") != "Call" or not ctor.get("args"):
                continue
            n += 1
            tok = ctor["args"][-1]
            src = root(tok)
            key = f"{short(q.split('::{closure')[0])}|set_node#{n}"
            if src is not None and src == target:
                R.ok(key, detail=f"the node put in place of `{target}` carries `{target}`'s own token", where=loc(m))
            else:
                R.bad(f"{short(q.split('::{closure')[0])}|foreign-token", f"the node that replaces `{target}` is built with the token of `{src}`: its file, range and text are those of another instruction, so a diagnostic about the replaced line (a second `ret` in the data segment, say) is reported - twice - on the first `ret`", loc(ctor))
    if n == 0:
        raise Anchor("no node replacement (`set_node`) found in the graph passes")


@rule("C11", "C11.f.markup-runs-on-the-pruned-graph", floor=1)
@rule("C12", "C12.f.markup-runs-on-the-pruned-graph", floor=1)
def c11f(F, R):
    """function membership is computed by walking `nexts`: FunctionMarkupPass must run after a value analysis and the exit-ecall cut that depends on it, or code after an exit ecall inside a function is attributed to it (and to the function that follows)"""
    gp = inherent_methods(F, MANAGER).get("gen_full_cfg")
    if not gp:
        raise Anchor("Manager::gen_full_cfg not found")
    f = F.fn(gp)
    gens = pass_impls(F, GENPASS)
    run2ty = {v: t for t, v in gens.items()}
    muts = edge_mutators(F)
    reach_mut = set()
    for t, rp in gens.items():
        seen, _ = F.reachable([rp])
        if seen & set(muts):
            reach_mut.add(short(t))
    names = [nm for nm, _ in stage2_pipeline(F, f, run2ty, reach_mut)]
    if "FunctionMarkupPass" not in names:
        R.bad("markup", "FunctionMarkupPass is not part of the pipeline", f["sp"])
        return
    k = names.index("FunctionMarkupPass")
    before = names[:k]
    okk = False
    if "EcallTerminationPass" in before:
        j = max(i for i, n_ in enumerate(before) if n_ == "EcallTerminationPass")
        okk = "AvailableValuePass" in before[:j] and "NodeDirectionPass" in before[:j]
    if okk:
        R.ok("markup", detail="pipeline: " + " -> ".join(names))
    else:
        R.bad("markup", f"FunctionMarkupPass runs before the first `AvailableValuePass -> EcallTerminationPass` round ({' -> '.join(names)}): it walks the fall-through edge after a known exit ecall, so a function that contains `li a7, 93; ecall` swallows the code (and the next function) behind it", f["sp"])


def _visited_sets(f):
    """locals that play the role of the grow-only `visited` set of a fixed-point pass: something is `.insert`ed into them inside
    a `for` over the CFG and they are consulted with `.contains`"""
    body = f["hir"]["value"]
    ins = {ekey(m["recv"]).lstrip("&*") for fl in for_loops(body) for m in walk(fl["body"], pats=False)
           if m.get("k") == "MethodCall" and m["name"] == "insert" and peel(m["recv"]).get("k") == "Path" and peel(m["recv"]).get("res_kind") == "Local"}
    con = {ekey(m["recv"]).lstrip("&*") for m in walk(body, pats=False) if m.get("k") == "MethodCall" and m["name"] == "contains"}
    for cl in walk(body, pats=False):
        if cl.get("k") == "Closure":
            con |= {ekey(m["recv"]).lstrip("&*") for m in walk(cl.get("body") or {}, pats=False) if m.get("k") == "MethodCall" and m["name"] == "contains"}
    return ins & con


def _change_flag_and_carriers(f):
    """the local tested by `while changed` and the locals that are OR-ed into it"""
    body = f["hir"]["value"]
    CH = None
    for l in (l for l in walk(body) if l.get("k") == "Loop" and l.get("src") == "While"):
        for i in walk(l["body"], pats=False):
            if i.get("k") == "If" and peel(i["cond"]).get("k") == "Path" and peel(i["cond"]).get("res_kind") == "Local":
                CH = peel(i["cond"])["res"]
                break
        if CH:
            break
    carriers = {CH}
    grew = True
    while grew:
        grew = False
        for a in walk(body):
            if a.get("k") == "AssignOp" and a["op"] == "BitOrAssign" and ekey(a["l"]) in carriers:
                r = peel(a["r"])
                if r.get("k") == "Path" and r.get("res_kind") == "Local" and r["res"] not in carriers:
                    carriers.add(r["res"])
                    grew = True
    return CH, carriers


@rule("C12", "C12.j.growth-of-the-evaluated-set-triggers-a-sweep", floor=2)
def c12j(F, R):
    """a pass whose nodes wait for an evaluated predecessor (C12.h) has a second piece of state besides the facts: the set of evaluated nodes. The first evaluation of a node may store exactly the initial fact (no setter reports a change) and still unblocks its successors, so every `insert` into that set inside the sweep raises the loop flag when the set grew - otherwise the `while changed` loop stops with reachable nodes never evaluated, the facts are not a solution of the equations, and the result depends on the layout of the blocks"""
    for f, name in ((_avpass_run(F), "AvailableValuePass"), (_livepass_run(F), "LivenessPass")):
        body = f["hir"]["value"]
        vs = _visited_sets(f)
        if not vs:
            continue
        CH, carriers = _change_flag_and_carriers(f)
        ins = [m for fl in for_loops(body) for m in walk(fl["body"], pats=False)
               if m.get("k") == "MethodCall" and m["name"] == "insert" and ekey(m["recv"]).lstrip("&*") in vs]
        good = set()
        for a in walk(body):
            if a.get("k") == "AssignOp" and a["op"] == "BitOrAssign" and ekey(a["l"]) in carriers and peel(a["r"]).get("k") == "MethodCall":
                good.add(id(peel(a["r"])))
            if a.get("k") == "Let" and a.get("pat", {}).get("k") == "PBinding" and a["pat"].get("name") in carriers - {CH} and a.get("init"):
                good.add(id(peel(a["init"])))
            if a.get("k") == "If" and peel(a["cond"]).get("k") == "MethodCall":
                # `if visited.insert(n) { changed = true; }`
                raises = any((s.get("k") == "Assign" and ekey(s["l"]) in carriers and lit_value(s["r"]) is True)
                             or (s.get("k") == "AssignOp" and s["op"] == "BitOrAssign" and ekey(s["l"]) in carriers and lit_value(s["r"]) is True)
                             for s in walk(a["then"], pats=False))
                if raises:
                    good.add(id(peel(a["cond"])))
        seen = {}
        for m in ins:
            v = ekey(m["recv"]).lstrip("&*")
            seen[v] = seen.get(v, 0) + 1
            key = f"{name}|{seen[v]}"
            if id(m) in good:
                R.ok(key, detail=f"{name}: the growth of the evaluated set is OR-ed into the loop flag", where=loc(m))
            else:
                R.bad(f"{name}|insert-result-dropped", f"{name}: the result of the insert into the evaluated set does not reach the loop flag `{CH}`: a first evaluation that stores the initial fact unblocks the successors of the node and no further sweep evaluates them", loc(m))
        if not ins:
            R.bad(f"{name}|no-insert", f"{name}: nodes wait for an evaluated predecessor but nothing is added to the evaluated set inside the sweep", f["sp"])


@rule("C02", "C02.j.every-sweep-evaluates-every-node", floor=2)
@rule("C12", "C12.g.every-sweep-evaluates-every-node", floor=2)
def c12g(F, R):
    """inside the `while changed` sweep of each dataflow pass the per-node body always reaches the statements that publish the node's out-facts: no `continue`/`break` skips a node whose ins did not change (a transfer function that also reads the node's own previous outs would stop one evaluation short and a later run would still change facts)"""
    setters = fact_setters(F)
    outs = {p for p, fld in setters.items() if fld.endswith("_out") or fld in ("live_in", "u_def")}
    for f in (_avpass_run(F), _livepass_run(F)):
        name = "AvailableValuePass" if "AvailableValuePass" in f["path"] else ("LivenessPass" if "LivenessPass" in f["path"] else short(root_fn(f["path"])))
        for fl in for_loops(f["hir"]["value"]):
            pubs = [n for n in walk(fl["body"], pats=False) if n.get("k") in ("MethodCall", "Call") and callee_of(n) in outs]
            if not pubs:
                continue
            body = peel(fl["body"])
            stmts = body.get("stmts") or []

            def top(node):
                for i, st in enumerate(stmts):
                    if any(y is node for y in walk(st, pats=False)):
                        return i
                return len(stmts)
            last_pub = max(top(p) for p in pubs)
            skips = []
            for i, st in enumerate(stmts[:last_pub]):
                for n in walk(st, pats=False):
                    if n.get("k") in ("Continue", "Break", "Ret"):
                        # `?` desugars to a return: an error aborts the whole analysis, it does not skip a node
                        skips.append(n)
            tryrets = set()
            for st in stmts[:last_pub]:
                for m in walk(st, pats=False):
                    if m.get("k") == "Match" and m.get("src") == "TryDesugar":
                        tryrets |= {id(n) for n in walk(m, pats=False) if n.get("k") == "Ret"}
                    if m.get("k") == "Closure":
                        tryrets |= {id(n) for n in walk(m, pats=False) if n.get("k") in ("Ret", "Break", "Continue")}
            # loops nested inside a statement have their own break/continue
            for st in stmts[:last_pub]:
                for m in walk(st, pats=False):
                    if m.get("k") == "Loop" or (m.get("k") == "Match" and m.get("src") == "ForLoopDesugar"):
                        tryrets |= {id(n) for n in walk(m, pats=False) if n.get("k") in ("Break", "Continue")}
            skips = [n for n in skips if id(n) not in tryrets]
            # a skip is sound when it says "nothing is known here yet": it sits under a test that no predecessor has been evaluated
            # (`!prevs().iter().any(|x| visited.contains(x))`) and the same block resets every fact of the node before leaving
            def _is_wait_for_pred(n):
                from .p_parse import parent_map
                from .facts import path_forces, local_inits
                pmb = parent_map(body)
                lets_ = local_inits(body)
                vs_ = _visited_sets(f)

                def classify(x):
                    # `node.prevs().iter().any(|x| visited.contains(x))`: some predecessor has been evaluated
                    if x.get("k") == "MethodCall" and x["name"] == "any" and mentions_call(x["recv"], "prevs") and x["args"] and \
                            any(m.get("k") == "MethodCall" and m["name"] == "contains" and ekey(m["recv"]).lstrip("&*") in vs_ for m in walk(x["args"][0], pats=False)):
                        return "some_pred_evaluated"
                    return None
                if not path_forces(pmb, n, classify, "some_pred_evaluated", False, lets_):
                    return False
                blk = None
                x = n
                while id(x) in pmb and blk is None:
                    x = pmb[id(x)]
                    if x.get("k") == "Block":
                        blk = x
                if name != "AvailableValuePass":
                    return True
                return blk is not None and {callee_of(m) for m in walk(blk, pats=False) if m.get("k") in ("MethodCall", "Call") and callee_of(m) in setters} >= {p_ for p_, fld in setters.items() if fld in ("reg_values_out", "memory_values_out", "reg_values_in", "memory_values_in")}
            skips = [n for n in skips if not (n.get("k") == "Continue" and _is_wait_for_pred(n))]
            if skips:
                R.bad(f"{name}|skip", f"{name}: a `{skips[0]['k'].lower()}` leaves the per-node body before the node's out-facts are recomputed: a node is not re-evaluated in this sweep (e.g. because its ins did not change), although its transfer function also depends on state other than its ins", loc(skips[0]))
            else:
                R.ok(f"{name}", detail=f"{name}: all {len(stmts)} statements of the per-node body run for every node in every sweep ({len(pubs)} out-fact setters)")


@rule("C01", "C01.j.ecall-results-are-killed", floor=1)
def c01j(F, R):
    """an environment call writes its results into registers (a0/a1 for the RARS services): the value pass must drop what it claimed about them, using the signature's result set when the call number is known and a conservative set otherwise; else `li a0,10; li a7,5; ecall` keeps claiming a0 = 10 after ReadInt"""
    f = _avpass_run(F)
    body = f["hir"]["value"]
    kill_locals = {s_["pat"]["name"] for s_ in walk(body, pats=False) if s_.get("k") == "Let" and s_["pat"].get("k") == "PBinding" and s_.get("init") and mentions_call(s_["init"], "kill_reg")}
    okk = None
    for n in walk(body, pats=False):
        if n.get("k") != "If" or not mentions_call(n["cond"], "is_ecall"):
            continue
        for a in walk(n["then"], pats=False):
            if a.get("k") == "AssignOp" and a["op"] == "BitOrAssign" and ekey(a["l"]) in kill_locals:
                uses_sig = mentions_call(a["r"], "known_ecall_signature")
                fallback = any(mentions_call(a["r"], nm) or any(x.get("k") == "Path" and short(x.get("res") or "") == nm for x in walk(a["r"], pats=False))
                               for nm in ("return_set", "argument_set", "caller_saved_set", "all_writable_set"))
                okk = (uses_sig or fallback, uses_sig, fallback, a)
            if a.get("k") == "AssignOp" and a["op"] == "SubAssign" and (mentions_call(a["r"], "known_ecall_signature") or mentions_call(a["r"], "return_set")):
                okk = (True, mentions_call(a["r"], "known_ecall_signature"), mentions_call(a["r"], "return_set"), a)
    # alternatively the kill set itself knows about ecalls
    kp = F.method(PNODE, "kill_reg", trait="HasGenKillInfo")
    in_kill = mentions_call(F.fn(kp)["hir"]["value"], "is_ecall")
    if okk and okk[0] and okk[2]:
        R.ok("ecall", detail=f"at `is_ecall()` nodes the kill set gains the signature's results (known number: {okk[1]}) or a conservative register set", where=loc(okk[3]))
    elif okk and okk[0]:
        R.bad("ecall", "the ecall kill has no fallback for an unknown call number: results of an unidentified service keep their old claims", loc(okk[3]))
    elif in_kill:
        R.ok("ecall", detail="kill_reg() accounts for ecalls itself")
    else:
        R.bad("ecall", "the value pass kills nothing at an `ecall`: `li a0, 10; li a7, 5; ecall; addi a7, a0, 0; ecall` is analysed as an exit ecall (a0 is still claimed to be 10 after ReadInt) and the code behind it is reported unreachable", f["sp"])


@rule("C08", "R4.scalar-offsets-respect-operand-order", floor=1)
@rule("C01", "C01.k.scalar-offsets-respect-operand-order", floor=1)
def c01k(F, R):
    """`register + k` folding: with the register-relative operand on the left any scalar operator applies to k; with the constant on the left only a commutative operator (add) keeps the form, since `c - (r + k)` is not `r + (c - k)`"""
    rp = [q for q in F.fns if q.endswith("analysis::available::rule_perform_math_ops")]
    if not rp:
        raise Anchor("rule_perform_math_ops not found")
    f = F.fn(rp[0])
    AV = "riscv_analysis::analysis::available::AvailableValue::"
    n = 0
    for m in find_matches(f["hir"]["value"]):
        sc = peel(m["scrut"])
        if sc.get("k") != "Tup" or len(sc["elems"]) != 2:
            continue
        for arm in m["arms"]:
            alts = arm["pat"]["pats"] if arm["pat"].get("k") == "POr" else [arm["pat"]]
            for alt in alts:
                if alt.get("k") != "PTuple" or len(alt["pats"]) != 2:
                    continue
                kinds = []
                for side in alt["pats"]:
                    vs = [short(x_["res"]) for x_ in walk(side) if x_.get("k") in ("PTupleStruct", "PStruct", "PPath") and (x_.get("res") or "").startswith(AV)]
                    kinds.append(vs[0] if vs else None)
                if set(kinds) != {"Constant", "OriginalRegisterWithScalar"} and set(kinds) != {"Constant", "RegisterWithScalar"}:
                    continue
                n += 1
                const_left = kinds[0] == "Constant"
                uses_scalar = mentions_call(arm["body"], "scalar_op")
                restricted = any(x.get("k") == "Path" and (x.get("res") or "").endswith("MathOp::Add") for x in walk(arm["body"])) or \
                    any(x.get("k") == "Path" and (x.get("res") or "").endswith("MathOp::Add") for x in walk(arm.get("guard") or {}))
                key = f"{'const' if const_left else 'reg'}-left"
                if not const_left:
                    R.ok(key, detail=f"({kinds[0]}, {kinds[1]}): any scalar operator applies to the offset", where=loc(arm))
                elif uses_scalar and not restricted:
                    R.bad(key, f"the arm ({kinds[0]}, {kinds[1]}) folds every scalar operator into `register + k`: `li t0,16; sub t1,t0,sp` is claimed to be `sp + 16` while the machine computes `16 - sp`", loc(arm))
                else:
                    R.ok(key, detail=f"({kinds[0]}, {kinds[1]}): only under `MathOp::Add`", where=loc(arm))
    if n < 2:
        R.bad("shape", f"UNEXTRACTABLE: expected the (register-relative, constant) and (constant, register-relative) arms in rule_perform_math_ops, found {n}", f["sp"])


@rule("C02", "C02.g.unknown-ecall-reads-its-arguments", floor=1)
def c02g(F, R):
    """an ecall whose number the value analysis does not know may read any argument register: liveness must assume it does, or the argument set-up before a computed service number is reported as an unused value"""
    f = _livepass_run(F)
    hit = None
    from .p_parse import parent_map
    pm = parent_map(f["hir"]["value"])
    for n in walk(f["hir"]["value"], pats=False):
        if n.get("k") == "MethodCall" and n["name"] in ("unwrap_or_default", "unwrap_or", "unwrap_or_else", "map_or", "map_or_else") and mentions_call(n["recv"], "known_ecall_signature"):
            # which components of (arguments, results) does this use take?
            x = n
            takes_args = True
            while id(x) in pm:
                x = pm[id(x)]
                if x.get("k") == "Let":
                    pt = x["pat"]
                    if pt.get("k") == "PTuple" and len(pt["pats"]) == 2:
                        takes_args = pt["pats"][0].get("k") != "PWild"
                    break
            if takes_args:
                hit = n
    if hit is None:
        R.bad("fallback", "UNEXTRACTABLE: LivenessPass no longer reads `known_ecall_signature()` with a fallback", f["sp"])
        return
    conservative = any(mentions_call(a, nm) or any(x.get("k") == "Path" and short(x.get("res") or "") == nm for x in walk(a, pats=False))
                       for a in hit["args"] for nm in ("argument_set", "caller_saved_set", "all_writable_set"))
    if conservative:
        R.ok("fallback", detail="unknown ecall number: all argument registers are treated as read", where=loc(hit))
    else:
        R.bad("fallback", f"for an ecall whose number is unknown liveness assumes no argument is read (`{hit['name']}`): `mv a7, a0; li a0, 65; ecall` reports `li a0, 65` as an unused value", loc(hit))


@rule("C05", "C05.f.cfg-iterators-yield-what-they-read", floor=3)
@rule("C02", "C02.i.cfg-iterators-yield-what-they-read", floor=3)
def c05f(F, R):
    """the iterators over the CFG's node vector hand out every element they read: between reading `self.nodes.get(cursor)` and yielding it there is no early return or `?` (an index-0 special case that bails out before `result` is returned makes reverse iteration skip the program entry, whose liveness the lints depend on)"""
    n = 0
    for i in F.impls:
        tr = (i.get("trait") or "")
        if not (tr.endswith("iter::traits::iterator::Iterator") or tr.endswith("double_ended::DoubleEndedIterator") or tr.split("::")[-1] in ("Iterator", "DoubleEndedIterator")):
            continue
        if "riscv_analysis::cfg::" not in i["self_ty"]:
            continue
        for it in i["items"]:
            if it["name"] not in ("next", "next_back") or it["path"] not in F.fns or "hir" not in F.fns[it["path"]]:
                continue
            f = F.fns[it["path"]]
            body = peel(f["hir"]["value"])
            stmts = body.get("stmts") or []
            name = f"{short(i['self_ty'].split('<')[0])}::{it['name']}"
            reads = [(k, st) for k, st in enumerate(stmts) if st.get("k") == "Let" and st.get("init") and any(m.get("k") == "MethodCall" and m["name"] == "get" and ekey(m["recv"]).startswith("self.") for m in walk(st["init"], pats=False))]
            if not reads:
                # `if let Some(node) = self.nodes.get(cursor) { cursor += 1; return Some(node) }` form: the read and the yield are one construct
                direct = any(x.get("k") == "If" and peel(x["cond"]).get("k") == "LetExpr" and any(m.get("k") == "MethodCall" and m["name"] in ("get", "pop", "pop_front") for m in walk(peel(x["cond"])["init"], pats=False)) for x in walk(body, pats=False)) or \
                    any(x.get("k") == "Loop" for x in walk(body, pats=False))
                if direct:
                    n += 1
                    R.ok(name, detail=f"{name}: element read and yielded in one `if let`/`while let`")
                continue
            n += 1
            k, st = reads[0]
            var = st["pat"].get("name")
            bad = None
            for later in stmts[k + 1:]:
                for x in walk(later, pats=False):
                    if x.get("k") == "Ret" or (x.get("k") == "Match" and x.get("src") == "TryDesugar"):
                        bad = x
            tail = body.get("expr")
            tail_ok = tail is not None and any(x.get("k") == "Path" and x.get("res") == var for x in walk(tail, pats=False))
            if bad is not None:
                R.bad(name, f"{name} reads an element into `{var}` and can then leave (`?` / `return`) without yielding it: that element is skipped (for reverse iteration: node 0, the program entry, never gets its liveness)", loc(bad))
            elif not tail_ok:
                R.bad(name, f"{name} reads an element into `{var}` but its result is not `{var}`", f["sp"])
            else:
                R.ok(name, detail=f"{name}: `{var}` is read, the cursor is moved, `{var}` is returned")
    if n == 0:
        raise Anchor("no CFG iterator implementation found")


@rule("C02", "C02.h.branches-to-functions-are-call-sites", floor=3)
def c02h(F, R):
    """`is_some_jump_to_label` (what makes a jump or branch to a function label a call site for liveness and the dead-value lint) answers for every branch and for `jal x0, L`, and for nothing that links"""
    from .nodeprops import eval_prop, Unx
    cases = [("Branch", {"rs1": "X5", "rs2": "X6", "inst": "Beq"}, "some"), ("Branch", {"rs1": "X10", "rs2": "X0", "inst": "Bne"}, "some"),
             ("Branch", {"rs1": "X0", "rs2": "X0", "inst": "Beq"}, "some"), ("JumpLink", {"rd": "X0"}, "some"),
             ("JumpLink", {"rd": "X1"}, "none")]
    for v, env, want in cases:
        key = f"{v}|" + ",".join(f"{k}={x}" for k, x in sorted(env.items()))
        try:
            r = eval_prop(F, "is_some_jump_to_label", v, env)
        except Unx as ex:
            R.bad(key + "|unextractable", f"UNEXTRACTABLE: is_some_jump_to_label on {v} {env}: {ex}", None)
            continue
        if r == want:
            R.ok(key, detail=f"is_some_jump_to_label = {r}")
        else:
            R.bad(key, f"`{v.lower()}` with {env}: is_some_jump_to_label answers {r}, expected {want}: a conditional branch to a function label is no longer a call site, so the callee's argument registers are not live before it (false `Unused value` on the argument set-up)", F.fn(F.method(PNODE, "is_some_jump_to_label", trait=IPROPS))["sp"])


@rule("C12", "C12.h.meet-over-evaluated-predecessors-only", floor=2)
@rule("C06", "C06.u.meet-over-evaluated-predecessors-only", floor=2)
def c06u(F, R):
    """a "must" meet (intersection over predecessors) that only looks at the predecessors evaluated so far must not fall back to the empty set when none has been: the empty set is the *bottom* of an intersection, and an "I know nothing" state then travels round every cycle with two back edges, chased by the real state, for ever. The node has to wait until one predecessor is evaluated (or have no predecessor at all)"""
    for f, name in ((_avpass_run(F), "AvailableValuePass"), (_livepass_run(F), "LivenessPass")):
        body = f["hir"]["value"]
        sites = []
        # the pass's own body and the helper functions of the analysis module it calls
        bodies = [body] + [F.fns[q_]["hir"]["value"] for q_ in sorted({callee_of(c_) or "" for c_ in walk(body, pats=False) if c_.get("k") in ("Call", "MethodCall")})
                           if q_ in F.fns and "hir" in F.fns[q_] and "::analysis::" in q_ and "{closure" not in q_ and q_ != f["path"]]
        for m in (x_ for b_ in bodies for x_ in walk(b_, pats=False)):
            if m.get("k") == "MethodCall" and m["name"] in ("unwrap_or_default", "unwrap_or") and peel(m["recv"]).get("k") == "MethodCall" and peel(m["recv"])["name"] == "reduce":
                red = peel(m["recv"])
                cl = (closure_like(F, red["args"][0]) or {}) if red["args"] else {}
                inter = any((x.get("k") == "AssignOp" and x["op"] == "BitAndAssign") or (x.get("k") == "Binary" and x["op"] == "BitAnd") for x in walk(cl.get("body") or {}, pats=False))
                chain = list(walk(red["recv"], pats=False))
                over_prevs = any(x.get("k") == "MethodCall" and x["name"] == "prevs" for x in chain)
                filtered = any(x.get("k") == "MethodCall" and x["name"] == "filter" for x in chain)
                if inter and over_prevs and filtered:
                    sites.append(m)
        if not sites:
            continue
        # the wait: `if .. !node.prevs().iter().any(|x| visited.contains(x)) { .. continue }` earlier in the per-node body
        waits = False
        for fl in for_loops(body):
            stmts = peel(fl["body"]).get("stmts") or []
            for st in stmts:
                e = peel(st.get("e") or {})
                if e.get("k") == "If" and any(y.get("k") == "Continue" for y in walk(e["then"], pats=False)):
                    from .facts import walk_expanded, local_inits
                    lets_ = local_inits(body)
                    c = list(walk_expanded(e["cond"], lets_))
                    c += [y for cl in list(c) if cl.get("k") == "Closure" for y in walk(cl.get("body") or {}, pats=False)]
                    if any(m.get("k") == "MethodCall" and m["name"] == "contains" and ekey(m["recv"]).lstrip("&*") in _visited_sets(f) for m in c) and any(m.get("k") == "MethodCall" and m["name"] == "prevs" for m in c) \
                            and any(u.get("k") == "Unary" and u["op"] == "Not" for u in c):
                        first_site = min(i for i, s2 in enumerate(stmts) if any(y is sites[0] for y in walk(s2, pats=False))) if any(any(y is sites[0] for y in walk(s2, pats=False)) for s2 in stmts) else 10 ** 6
                        if stmts.index(st) < first_site:
                            # the condition itself, evaluated: a node (not an entry) with predecessors none of which is evaluated
                            # must wait, and a node with an evaluated predecessor must not
                            vs_ = _visited_sets(f)

                            def classify(x):
                                if x.get("k") == "MethodCall" and x["name"].startswith("is_") and x["name"].endswith("entry"):
                                    return "entry"
                                if x.get("k") == "MethodCall" and x["name"] == "is_empty" and mentions_call(x["recv"], "prevs"):
                                    return "noprevs"
                                if x.get("k") == "MethodCall" and x["name"] == "any" and mentions_call(x["recv"], "prevs"):
                                    return "anyvisited"
                                return None
                            try:
                                must = bool_eval(e["cond"], classify, {"entry": False, "noprevs": False, "anyvisited": False}, lets_)
                                mustnot = bool_eval(e["cond"], classify, {"entry": False, "noprevs": False, "anyvisited": True}, lets_)
                                if must is True and mustnot is False:
                                    waits = True
                                else:
                                    R.bad(name + "|wait-condition", f"{name}: the wait test answers {must} for a node whose predecessors are all unevaluated (must be true) and {mustnot} for a node with an evaluated predecessor (must be false)", loc(e))
                            except BoolUnx as ex:
                                R.bad(name + "|wait-condition|unextractable", f"UNEXTRACTABLE: {name} wait condition ({ex})", loc(e))
        if waits:
            R.ok(name, detail=f"{name}: {len(sites)} intersection meet(s) over evaluated predecessors; a node without an evaluated predecessor waits", where=loc(sites[0]))
        else:
            R.bad(name, f"{name}: {len(sites)} intersection meet(s) over the predecessors evaluated so far fall back to the empty set when there is none: on a cycle with two back edges (in sweep order) the empty state and the real state chase each other and the `while changed` loop never ends", loc(sites[0]))


@rule("C14", "C14.f.every-label-of-an-entry-names-the-function", floor=1)
@rule("C11", "C11.g.every-label-of-an-entry-names-the-function", floor=1)
def c14f(F, R):
    """a function entry that carries several labels is registered under every one of them (a `for` over all labels of the entry): registering only one - the smallest, the first - makes a call through another alias no call at all, and which alias that is depends on how the labels are spelled"""
    gens = pass_impls(F, GENPASS)
    fm = [rp for t, rp in gens.items() if t.endswith("FunctionMarkupPass")]
    if not fm:
        raise Anchor("FunctionMarkupPass::run not found")
    f = F.fn(fm[0])
    body = f["hir"]["value"]
    ins = [m for m in walk(body, pats=False) if m.get("k") == "MethodCall" and m["name"] == "insert_function" and ekey(m["recv"]).lstrip("&*") == "cfg"]
    if not ins:
        R.bad("register", "FunctionMarkupPass::run no longer registers functions under their labels", f["sp"])
        return
    for n_, m in enumerate(ins):
        in_loop = None
        for fl in for_loops(body):
            if any(y is m for y in walk(fl["body"], pats=False)):
                in_loop = fl
        key = f"register|{n_ + 1}"
        if in_loop is None:
            R.bad(key, "`cfg.insert_function(label, ..)` is not inside a loop over the entry's labels: only one label of a multi-label entry names the function, so `jal` through another alias is not a call (and a renaming that changes which label is 'first' changes the diagnostics)", loc(m))
            continue
        names = [b_["name"] for b_ in walk(in_loop["pat"]) if b_.get("k") == "PBinding"]
        arg_ok = any(x.get("k") == "Path" and x.get("res") in names for x in walk(m["args"][0], pats=False))
        it = in_loop["iter"]
        src = peel(it)
        while src.get("k") in ("MethodCall", "AddrOf", "Unary") and src.get("name", "iter") in ("iter", "into_iter", "clone", "cloned", "copied", "iter"):
            src = peel(src.get("recv") or src.get("e") or src.get("a"))
        selective = [x["name"] for x in walk(it, pats=False) if x.get("k") == "MethodCall" and x["name"] in ("min", "max", "first", "last", "next", "nth", "take", "skip", "filter", "find", "min_by", "max_by", "min_by_key", "max_by_key", "step_by")]
        # the iterated collection must be the entry's full label set
        lets = {st["pat"]["name"]: st for st in walk(body, pats=False) if st.get("k") == "Let" and st["pat"].get("k") == "PBinding" and st.get("init")}
        full = False
        if src.get("k") == "Path" and src.get("res") in lets:
            init = lets[src["res"]]["init"]
            full = mentions_call(init, "labels") and not any(x.get("k") == "MethodCall" and x["name"] in ("min", "max", "first", "last", "next", "nth", "take", "skip", "filter", "find") for x in walk(init, pats=False))
        elif mentions_call(it, "labels"):
            full = True
        if arg_ok and full and not selective:
            R.ok(key, detail="insert_function(label) for every label of the entry", where=loc(m))
        else:
            R.bad(key, f"functions are registered under a selection of the entry's labels ({selective or ekey(it)[:40]}): a call through another label of the same entry is not recognised", loc(m))


@rule("C11", "C11.h.entry-predicates", floor=4)
def c11h(F, R):
    """the function list is built from the nodes for which is_function_entry() holds, so every FuncEntry node - interrupt handler or not - must satisfy it (and nothing else may); is_handler_function_entry is the FuncEntry nodes flagged as handlers, is_program_entry the ProgramEntry node, is_any_entry their union; the CfgNode wrappers forward to the method of the same name; FunctionMarkupPass selects entries by is_function_entry"""
    from .nodeprops import eval_prop, Unx
    want = {
        "is_function_entry": lambda v, h: v == "FuncEntry",
        "is_handler_function_entry": lambda v, h: v == "FuncEntry" and h,
        "is_program_entry": lambda v, h: v == "ProgramEntry",
        "is_any_entry": lambda v, h: v in ("FuncEntry", "ProgramEntry"),
    }
    vs = F.variants(PNODE)
    for need in ("FuncEntry", "ProgramEntry"):
        if need not in vs:
            raise Anchor(f"ParserNode::{need} not found")
    for m, exp in want.items():
        sp = F.fn(F.method(PNODE, m, trait=IPROPS))["sp"]
        wrong = []
        for v in vs:
            for h in ((True, False) if v == "FuncEntry" else (False,)):
                try:
                    r = eval_prop(F, m, v, {"is_interrupt_handler": h})
                except Unx as ex:
                    wrong.append(f"{v}: UNEXTRACTABLE ({ex})")
                    continue
                if r is not exp(v, h):
                    wrong.append(f"{v}{' (interrupt handler)' if v == 'FuncEntry' and h else ''}: {r}, expected {exp(v, h)}")
        if wrong:
            R.bad(f"{m}|ParserNode", f"ParserNode::{m} is wrong for: " + "; ".join(wrong[:4]) + " - e.g. a FuncEntry that is not a function entry is skipped by FunctionMarkupPass: the label installed as interrupt vector (or named by jal) is no function, its code has no owner", sp)
        else:
            R.ok(f"{m}|ParserNode", detail=f"{m} evaluated on all {len(vs)} variants (+ handler flag)", where=sp)
        # wrapper on CfgNode forwards to the same method
        try:
            wp = F.method(CFGNODE, m, trait=IPROPS)
        except Exception:
            wp = None
        if not wp:
            R.bad(f"{m}|CfgNode", f"CfgNode::{m} not found", None)
            continue
        wb = F.fn(wp)["hir"]["value"]
        b = peel(wb)
        while b.get("k") == "Block" and not b.get("stmts") and b.get("expr") is not None:
            b = peel(b["expr"])
        if b.get("k") == "MethodCall" and b["name"] == m and not b["args"] and peel(b["recv"]).get("k") == "MethodCall" and peel(b["recv"])["name"] == "node" and ekey(peel(b["recv"])["recv"]).lstrip("&*") == "self":
            R.ok(f"{m}|CfgNode", detail=f"self.node().{m}()", where=F.fn(wp)["sp"])
        else:
            R.bad(f"{m}|CfgNode", f"CfgNode::{m} does not forward to ParserNode::{m} of its node ({ekey(b)[:60]})", F.fn(wp)["sp"])


@rule("C01", "C01.n.entry-state-meets-what-arrives-from-inside", floor=2)
def c01n(F, R):
    """at an entry node the published facts are the caller's guarantees (the seeded original values) met with what arrives along edges from inside the function: the seeds are never written over a map derived from in[n], and before they are published they are intersected with the out-facts of the evaluated predecessors; else `f: addi sp,sp,-4; bnez a0,f; addi sp,sp,4; ret` claims sp = sp at the return"""
    f = _avpass_run(F)
    setters = fact_setters(F)
    set_out = [p for p, fld in setters.items() if fld == "reg_values_out"][0]
    pubs = [n for n in walk(f["hir"]["value"], pats=False) if n.get("k") in ("MethodCall", "Call") and callee_of(n) == set_out]
    pubs = [n for n in pubs if peel(call_recv_args(n)[1][0]).get("k") == "Path" and peel(call_recv_args(n)[1][0]).get("res_kind") == "Local"]
    if not pubs:
        raise Anchor("set_reg_values_out is not called with computed facts in AvailableValuePass::run")
    OUT = ekey(call_recv_args(pubs[0])[1][0])
    body = f["hir"]["value"]
    seeds = [m for m in walk(body, pats=False) if m.get("k") == "MethodCall" and m["name"] in ("extend", "insert") and m["args"] and mentions_call(m["args"][0], "into_available_values")]
    if not seeds:
        R.bad("seeds", "UNEXTRACTABLE: no `<map>.extend(<set>.into_available_values())` entry seed in AvailableValuePass::run", f["sp"])
        return
    carriers = set()
    for m in seeds:
        which = next((short(callee_of(c) or "") for c in walk(m["args"][0], pats=False) if c.get("k") in ("Call", "MethodCall") and short(callee_of(c) or "").endswith("_set")), "?")
        tgt = ekey(m["recv"]).lstrip("&*")
        if tgt == OUT:
            R.bad(f"seed|{which}", f"the entry seed `{which}` is written over `{OUT}`, which was derived from in[n]: on a path that comes back to the entry (a loop at the function's label) the original values are claimed again", loc(m))
        else:
            carriers.add(tgt)
            R.ok(f"seed|{which}", detail=f"collected in `{tgt}`", where=loc(m))
    for S in sorted(carriers):
        assigns = [a for a in walk(body, pats=False) if a.get("k") == "Assign" and ekey(a["l"]) == OUT and ekey(a["r"]).lstrip("&*") == S]
        ext = [m for m in walk(body, pats=False) if m.get("k") == "MethodCall" and m["name"] == "extend" and ekey(m["recv"]).lstrip("&*") == OUT and m["args"] and ekey(m["args"][0]).lstrip("&*") == S]
        meets = [a for a in walk(body, pats=False) if a.get("k") == "AssignOp" and a["op"] == "BitAndAssign" and ekey(a["l"]).lstrip("&*") == S]
        from_prevs = [a for a in meets if mentions_call(a["r"], "reg_values_out") or ekey(a["r"]).lstrip("&*") == OUT]
        over_prevs = any(mentions_call(lp["iter"], "prevs") and any(y is a for a in from_prevs for y in walk(lp["body"], pats=False)) for lp in for_loops(body)) \
            or any(ekey(a["r"]).lstrip("&*") == OUT for a in from_prevs)
        if ext:
            R.bad(f"publish|{S}", f"`{OUT}.extend({S})` writes the entry seeds over facts derived from in[n]", loc(ext[0]))
        elif assigns and from_prevs and over_prevs:
            R.ok(f"publish|{S}", detail=f"`{S}` is intersected with the out-facts of the predecessors, then becomes `{OUT}`", where=loc(assigns[0]))
        elif assigns:
            R.bad(f"publish|{S}", f"`{OUT} = {S}` publishes the caller's guarantees without meeting them with what arrives along the edges into the entry (`{S} &= &prev.reg_values_out()` over node.prevs()): a loop back to the function's label re-claims the original values", loc(assigns[0]))
        else:
            R.bad(f"publish|{S}", f"UNEXTRACTABLE: the seeds collected in `{S}` never reach `{OUT}`", f["sp"])


INTERIOR_WRITES = {"set", "replace", "borrow_mut", "take", "swap", "replace_with", "get_or_init", "get_or_insert_with", "update", "replace_if_changed", "get_mut", "try_borrow_mut"}


@rule("C12", "C12.i.queries-do-not-remember", floor=30)
@rule("C05", "C05.h.queries-do-not-remember", floor=30)
@rule("C03", "C03.f.queries-do-not-remember", floor=30)
@rule("C01", "C01.o.queries-do-not-remember", floor=30)
def c01o(F, R):
    """every answer a CfgNode gives (`known_ecall`, `is_program_exit`, the signature of an ecall, the facts themselves) is computed from the node's current facts: the only methods that write the node's interior state are the setters and edge/annotation mutators whose callers the ownership rules police. A query that stores its answer (a `Cell` filled on first use) keeps it when the facts it came from are withdrawn later in the same fixpoint - an optimistic `a7 = 10` seen before a back edge was evaluated stays an exit for ever"""
    setters = set(fact_setters(F)) | set(edge_mutators(F))
    meths = []
    for i in F.impls:
        if i["self_ty"] != CFGNODE:
            continue
        for it in i["items"]:
            g = F.fns.get(it["path"])
            if g and "hir" in g and not (g.get("exp") or "").startswith("Derive"):
                meths.append((it["name"], it["path"], g))
    if not meths:
        raise Anchor("no methods of CfgNode in the fact base")
    for name, path, g in sorted(meths, key=lambda x: x[1]):
        writes = []
        for m in walk(g["hir"]["value"], pats=False):
            if m.get("k") == "MethodCall" and m["name"] in INTERIOR_WRITES:
                r = peel(m["recv"])
                while r.get("k") in ("AddrOf",) or (r.get("k") == "Unary" and r.get("op") == "Deref"):
                    r = peel(r.get("e") or r.get("a"))
                if r.get("k") == "Field" and ekey(r["e"]).lstrip("&*") == "self":
                    writes.append((r["name"], m))
            if m.get("k") in ("Assign", "AssignOp"):
                l = peel(m["l"])
                if l.get("k") == "Field" and ekey(l["e"]).lstrip("&*") == "self":
                    writes.append((l["name"], m))
        is_mutator = path in setters or any(name.startswith(p_) for p_ in ("set_", "insert_", "remove_", "clear_")) or name == "new"
        key = f"{short(root_fn(path))}"
        if not writes:
            R.ok(key, detail="reads only", trivial=True)
        elif is_mutator:
            R.ok(key, detail=f"mutator of {sorted({w for w, _ in writes})} (its callers are policed by the ownership rules)")
        else:
            fld = sorted({w for w, _ in writes})
            R.bad(f"{key}|writes|{'+'.join(fld)}", f"CfgNode::{name} is a query, yet it writes the node's field(s) {fld}: an answer stored on first use is not withdrawn when the facts it was derived from change (the value analysis evaluates a node optimistically before its back edges; a constant seen then can disappear in the next sweep)", loc(writes[0][1]))


def _rv32(op, x, y):
    """RV32IM result of MathOp `op` on two 32-bit values given as signed Python ints (ISA manual vol. I, RV32I + M)"""
    M = 1 << 32
    u = lambda v: v % M
    sg = lambda v: (v % M) - M if (v % M) >= (1 << 31) else (v % M)
    if op == "Add": return sg(x + y)
    if op == "Sub": return sg(x - y)
    if op == "And": return sg(u(x) & u(y))
    if op == "Or": return sg(u(x) | u(y))
    if op == "Xor": return sg(u(x) ^ u(y))
    if op == "Sll": return sg(u(x) << (u(y) & 31))
    if op == "Srl": return sg(u(x) >> (u(y) & 31))
    if op == "Sra": return sg(sg(x) >> (u(y) & 31))
    if op == "Slt": return 1 if sg(x) < sg(y) else 0
    if op == "Sltu": return 1 if u(x) < u(y) else 0
    if op == "Mul": return sg(sg(x) * sg(y))
    if op == "Mulh": return sg((sg(x) * sg(y)) >> 32)
    if op == "Mulhsu": return sg((sg(x) * u(y)) >> 32)
    if op == "Mulhu": return sg((u(x) * u(y)) >> 32)
    if op == "Div":
        if sg(y) == 0: return -1
        if sg(x) == -(1 << 31) and sg(y) == -1: return sg(x)
        q = abs(sg(x)) // abs(sg(y))
        return sg(q if (sg(x) < 0) == (sg(y) < 0) else -q)
    if op == "Divu": return sg(M - 1) if u(y) == 0 else sg(u(x) // u(y))
    if op == "Rem":
        if sg(y) == 0: return sg(x)
        if sg(x) == -(1 << 31) and sg(y) == -1: return 0
        r = abs(sg(x)) % abs(sg(y))
        return sg(r if sg(x) >= 0 else -r)
    if op == "Remu": return sg(x) if u(y) == 0 else sg(u(x) % u(y))
    return None


_GRID = [0, 1, -1, 2, -2, 3, 31, 32, 33, 0x7FFF, -0x8000, (1 << 31) - 1, -(1 << 31), -(1 << 31) + 1, 12345678]


@rule("C08", "R4.folds-with-an-unknown-operand-are-laws", floor=2)
@rule("C01", "C01.p.folds-with-an-unknown-operand-are-laws", floor=2)
def c01p(F, R):
    """the folding rule produces a value only from operands it knows; an arm that claims a constant while one operand is unknown (`0 op y = 0`) states an algebraic law, and the law must hold in RV32IM for every operator the arm's guard admits and every value of the unknown operand - checked against the manual's definition of each operator on the values where the definitions have their special cases (zero divisor, MIN / -1, shift amounts around 32) - `div rd, x0, rs` is -1 when rs is 0"""
    rp = [q for q in F.fns if q.endswith("analysis::available::rule_perform_math_ops")]
    if not rp:
        raise Anchor("rule_perform_math_ops not found")
    f = F.fn(rp[0])
    body = f["hir"]["value"]
    MATHOP = "riscv_analysis::cfg::ops::MathOp"
    ms = [m for m in find_matches(body) if peel(m["scrut"]).get("k") == "Tup" and len(peel(m["scrut"])["elems"]) == 2]
    if not ms:
        R.bad("shape", "UNEXTRACTABLE: no match on the pair of operand values in rule_perform_math_ops", f["sp"])
        return
    m = ms[0]

    def side(p):
        """('lit', c) | ('var',) | ('ors',) | ('wild',)"""
        if p.get("k") in ("PWild", "PBinding"):
            return ("wild",)
        vs = [short(x.get("res") or (peel(x.get("e") or {}).get("res") or "")) for x in walk(p) if x.get("res") or (x.get("k") == "PExpr" and peel(x.get("e") or {}).get("res"))]
        vs = [v for v in vs if v]
        if "None" in vs:
            return ("wild",)
        if "Constant" in vs:
            lits = [lit_value(peel(x.get("e") or {})) for x in walk(p) if x.get("k") in ("PExpr", "PLit")]
            lits = [l for l in lits if isinstance(l, int) and not isinstance(l, bool)]
            return ("lit", lits[0]) if lits else ("var",)
        if vs and vs != ["Some"]:
            return ("ors",)
        return ("wild",)

    def pred_set(method_path):
        g = F.fns.get(method_path)
        if not g or "hir" not in g:
            return None
        out = set()
        for mm in find_matches(g["hir"]["value"]):
            if ekey(mm["scrut"]).lstrip("*&") != "self":
                continue
            for a in mm["arms"]:
                if lit_value(a["body"]) is True:
                    out |= {short(v) for k_, v in pat_variants(a["pat"]) if k_ == "path" and v and v.startswith(MATHOP + "::")}
        return out

    n_arm = 0
    for a in m["arms"]:
        pat = a["pat"]
        if pat.get("k") != "PTuple" or len(pat["pats"]) != 2:
            continue
        n_arm += 1
        sides = [side(pat["pats"][0]), side(pat["pats"][1])]
        b = peel(a["body"])
        while b.get("k") == "Block" and not b.get("stmts") and b.get("expr") is not None:
            b = peel(b["expr"])
        is_none = b.get("k") == "Path" and short(b.get("res") or "") == "None"
        key = f"arm#{n_arm}|{sides[0][0]},{sides[1][0]}"
        if is_none:
            R.ok(key, detail="no claim", trivial=True)
            continue
        if "wild" not in (sides[0][0], sides[1][0]):
            R.ok(key, detail="both operands known")
            continue
        # a claim with an unknown operand
        known = sides[0] if sides[1][0] == "wild" else sides[1]
        left_known = sides[1][0] == "wild"
        claim = None
        if b.get("k") == "Call" and short(callee_of(b) or "") == "Some":
            inner = peel(b["args"][0])
            if inner.get("k") == "Call" and short(callee_of(inner) or "") == "Constant":
                lv = lit_value(inner["args"][0])
                claim = lv if isinstance(lv, int) and not isinstance(lv, bool) else None
        if known[0] != "lit" or claim is None or sides[0][0] == sides[1][0]:
            R.bad(key, f"UNEXTRACTABLE: an arm of the folding rule claims `{ekey(b)[:50]}` although an operand is unknown (pattern {sides}); only the form `(Some(Constant(c)), _) if <operator test> => Some(Constant(k))` is understood", loc(a))
            continue
        ops = None
        g = a.get("guard")
        if g is not None:
            for c in walk(g, pats=False):
                if c.get("k") == "Closure":
                    for mc in walk(c["body"], pats=False):
                        if mc.get("k") == "MethodCall" and (callee_of(mc) or "").startswith(MATHOP + "::"):
                            ops = pred_set(callee_of(mc))
            if ops is None:
                for mm in find_matches(g):
                    vs = set()
                    for a2 in mm["arms"]:
                        if lit_value(a2["body"]) is True:
                            vs |= {short(v) for k_, v in pat_variants(a2["pat"]) if k_ == "path" and v and v.startswith(MATHOP + "::")}
                    if vs:
                        ops = vs
        if not ops:
            R.bad(key, "UNEXTRACTABLE: the guard of a fold with an unknown operand does not name the operators it admits (or there is no guard: every operator is admitted)", loc(a))
            continue
        bad = []
        for op in sorted(ops):
            for y in _GRID:
                r = _rv32(op, known[1], y) if left_known else _rv32(op, y, known[1])
                if r is None:
                    bad.append((op, y, "?"))
                    break
                if r != claim:
                    bad.append((op, y, r))
                    break
        if bad:
            op, y, r = bad[0]
            expr = f"{known[1]} {op.lower()} {y}" if left_known else f"{y} {op.lower()} {known[1]}"
            R.bad(key, f"the fold claims {claim} for operators {sorted(ops)} with one operand {known[1]} and the other unknown, but in RV32IM `{expr}` = {r} (and {len(bad)} operator(s) in all break the law: {sorted({b_[0] for b_ in bad})}): a value fact that is false whenever the unknown operand takes that value", loc(a))
        else:
            R.ok(key, detail=f"{known[1]} op y = {claim} for op in {sorted(ops)}: holds on the special values of every operator's definition", where=loc(a))


@rule("C02", "C02.l.liveness-removes-only-what-the-node-writes", floor=2)
def c02l(F, R):
    """in every transfer function of the liveness pass the only registers removed from live_out[n] are the node's own kill set (`kill_reg()`), or the caller-saved class at an ecall: any further subtraction makes a register that a later instruction reads not live before a node that does not write it - the call-site branch also serves plain jumps and branches to function labels, which write nothing"""
    from .p_parse import parent_map
    f = _livepass_run(F)
    body = f["hir"]["value"]
    pm = parent_map(body)

    def under_ecall(n):
        x = n
        while id(x) in pm:
            par = pm[id(x)]
            if par.get("k") == "If" and mentions_call(par["cond"], "is_ecall") and any(y is x for y in walk(par["then"], pats=False)):
                return True
            x = par
        return False

    def subtrahends(e, out):
        e = peel(e)
        if e.get("k") == "Binary" and e["op"] == "Sub":
            subtrahends(e["a"], out)
            out.append(e["b"])
        elif e.get("k") == "Paren":
            subtrahends(e["e"], out)
        return out

    n = 0
    seen = set()
    for e in walk(body, pats=False):
        if e.get("k") == "Binary" and e["op"] == "Sub" and id(e) not in seen:
            # outermost Sub of a chain
            par = pm.get(id(e))
            if par is not None and peel(par).get("k") == "Binary" and peel(par)["op"] == "Sub" and peel(par)["a"] is e:
                continue
            base = e
            while peel(base).get("k") == "Binary" and peel(base)["op"] == "Sub":
                seen.add(id(peel(base)))
                base = peel(base)["a"]
            if not mentions_call(base, "live_out"):
                continue
            for sub in subtrahends(e, []):
                n += 1
                names = [m.get("name") or short(callee_of(m) or "") for m in walk(sub, pats=False) if m.get("k") in ("MethodCall", "Call")]
                key = f"sub#{n}|{'+'.join(names) or ekey(sub)[:30]}"
                if names == ["kill_reg"]:
                    R.ok(key, detail="live_out - kill[n]", where=loc(sub))
                elif names and names[-1] == "caller_saved_set" and len(names) == 1 and under_ecall(e):
                    R.ok(key, detail="an ecall clobbers the caller-saved class", where=loc(sub))
                else:
                    R.bad(key, f"the liveness pass removes `{ekey(sub)[:60]}` from live_out[n]: that is not the node's kill set - at a jump or branch to a function label (which the call-site branch also handles, and which writes no register) a register read later, e.g. the `ra` a tail-called function returns through, stops being live and the instruction that sets it is reported as an unused value", loc(sub))
    for e in walk(body, pats=False):
        if e.get("k") == "AssignOp" and e["op"] == "SubAssign":
            n += 1
            names = [m.get("name") or short(callee_of(m) or "") for m in walk(e["r"], pats=False) if m.get("k") in ("MethodCall", "Call")]
            if names != ["kill_reg"]:
                R.bad(f"subassign#{n}|{'+'.join(names)}", f"`{ekey(e)[:60]}` removes registers other than the node's kill set from a liveness set", loc(e))
            else:
                R.ok(f"subassign#{n}", detail="-= kill[n]")


@rule("C02", "C02.m.basic-instruction-predicates", floor=3)
@rule("C11", "C11.i.basic-instruction-predicates", floor=3)
@rule("C03", "C03.g.basic-instruction-predicates", floor=3)
def c03g(F, R):
    """the predicates that every pass asks about an instruction are evaluated on each node kind and on the operand values that matter: `is_return` holds exactly for `jalr x0, 0(ra)` and `uret`, `is_ureturn` exactly for `uret`, `is_ecall` exactly for `ecall`; `CfgNode::is_part_of_some_function` is "the set of owning functions is not empty". A predicate that is a little wider or narrower moves returns, exits and function bodies"""
    from .nodeprops import eval_prop, Unx
    vs = F.variants(PNODE)
    BT = "riscv_analysis::parser::inst::BasicType"
    basics = F.variants(BT)
    cases = []
    for b_ in basics:
        cases.append(("Basic", {"inst": b_}))
    cases += [("JumpLinkR", {"inst": "Jalr", "rd": "X0", "rs1": "X1", "imm": 0}), ("JumpLinkR", {"inst": "Jalr", "rd": "X1", "rs1": "X1", "imm": 0}),
              ("JumpLinkR", {"inst": "Jalr", "rd": "X0", "rs1": "X5", "imm": 0}), ("JumpLinkR", {"inst": "Jalr", "rd": "X0", "rs1": "X1", "imm": 4}),
              ("JumpLinkR", {"inst": "Jalr", "rd": "X5", "rs1": "X6", "imm": 0})]
    for v in vs:
        if v not in ("Basic", "JumpLinkR"):
            cases.append((v, {"rd": "X0", "rs1": "X1", "rs2": "X1", "imm": 0, "inst": "?"}))
    want = {
        "is_return": lambda v, e: (v == "Basic" and e["inst"] == "Uret") or (v == "JumpLinkR" and e["rd"] == "X0" and e["rs1"] == "X1" and e["imm"] == 0),
        "is_ureturn": lambda v, e: v == "Basic" and e["inst"] == "Uret",
        "is_ecall": lambda v, e: v == "Basic" and e["inst"] == "Ecall",
    }
    for m, exp in want.items():
        sp = F.fn(F.method(PNODE, m, trait=IPROPS))["sp"]
        wrong = []
        for v, env in cases:
            try:
                r = eval_prop(F, m, v, env)
            except Unx as ex:
                if v in ("Basic", "JumpLinkR"):
                    wrong.append(f"{v} {env}: UNEXTRACTABLE ({ex})")
                    continue
                r = "?"
            if r == "?":
                continue
            if bool(r) is not bool(exp(v, env)):
                wrong.append(f"{v.lower()} {', '.join(f'{k}={x}' for k, x in sorted(env.items()) if x != '?')}: {r}, expected {exp(v, env)}")
        if wrong:
            R.bad(m, f"ParserNode::{m} is wrong for {wrong[0]} ({len(wrong)} case(s)): returns, exits and function bodies are found with this predicate", sp)
        else:
            R.ok(m, detail=f"{m} evaluated on {len(cases)} kind/operand cases", where=sp)
    # CfgNode::is_function_entry_with_func: the function whose entry *is* this node
    fe = inherent_methods(F, CFGNODE).get("is_function_entry_with_func")
    if fe:
        g_ = F.fn(fe)
        cmps = [b_ for b_ in walk(g_["hir"]["value"], pats=False) if b_.get("k") == "Binary" and b_["op"] in ("Eq", "Ne") and mentions_call(b_, "entry")]
        rets = [c_ for c_ in walk(g_["hir"]["value"], pats=False) if c_.get("k") == "Call" and short(callee_of(c_) or "") == "Some"]
        bodies_ = [g_["hir"]["value"]] + [F.fns[x]["hir"]["value"] for x in F.closures_of(fe) if "hir" in F.fns[x]]
        finds_ = [m_ for m_ in walk(g_["hir"]["value"], pats=False) if m_.get("k") == "MethodCall" and m_["name"] in ("find", "find_map") and mentions_call(m_["recv"], "functions")]
        if finds_:
            # `self.functions().iter().find(|f| f.entry() == self).cloned()`
            cl_cmps = [b_ for bd in bodies_ for b_ in walk(bd, pats=False) if b_.get("k") == "Binary" and b_["op"] in ("Eq", "Ne") and mentions_call(b_, "entry")]
            negs_ = [u_ for bd in bodies_ for u_ in walk(bd, pats=False) if u_.get("k") == "Unary" and u_["op"] == "Not"]
            if len(cl_cmps) >= 1 and all(b_["op"] == "Eq" for b_ in cl_cmps) and not negs_:
                R.ok("is_function_entry_with_func", detail="functions().find(|f| f.entry() == self)", where=g_["sp"])
            else:
                R.bad("is_function_entry_with_func", "CfgNode::is_function_entry_with_func does not look for the function whose entry is this node", g_["sp"])
            okk = None
        else:
            okk = len(cmps) == 1 and cmps[0]["op"] == "Eq" and rets and not any(u_.get("k") == "Unary" and u_["op"] == "Not" for u_ in walk(g_["hir"]["value"], pats=False))
        if okk is None:
            pass
        elif okk:
            from .p_parse import parent_map as _pm2
            pm2 = _pm2(g_["hir"]["value"])
            x_ = rets[0]
            under = False
            while id(x_) in pm2:
                x_ = pm2[id(x_)]
                if x_.get("k") == "If" and any(y is cmps[0] for y in walk(x_["cond"], pats=False)) and any(y is rets[0] for y in walk(x_["then"], pats=False)):
                    under = True
            okk = under
        if okk is None:
            pass
        elif okk:
            R.ok("is_function_entry_with_func", detail="Some(func) exactly when func.entry() == self", where=g_["sp"])
        else:
            R.bad("is_function_entry_with_func", "CfgNode::is_function_entry_with_func does not answer `Some(func)` under `func.entry() == self`: lints that start from a function's entry (garbage input values, overlapping functions) start elsewhere or nowhere", g_["sp"])
    # CfgNode::is_part_of_some_function
    cn = inherent_methods(F, CFGNODE).get("is_part_of_some_function")
    if cn:
        g = F.fn(cn)

        def ev(e, empty):
            e = peel(e)
            while e.get("k") in ("Ret", "DropTemps", "Use") or (e.get("k") == "Block" and (e.get("expr") is not None or len(e.get("stmts", [])) == 1)):
                if e.get("k") == "Block":
                    e = peel(e["expr"]) if e.get("expr") is not None else peel(e["stmts"][0].get("e") or {})
                else:
                    e = peel(e.get("e") or {})
            k = e.get("k")
            if k == "Unary" and e["op"] == "Not":
                return not ev(e["a"], empty)
            if k == "Binary" and e["op"] in ("Eq", "Ne"):
                a, b = ev(e["a"], empty), ev(e["b"], empty)
                return (a == b) if e["op"] == "Eq" else (a != b)
            if k == "Lit" and e["lit"]["t"] == "bool":
                return e["lit"]["v"]
            if k == "MethodCall" and e["name"] == "is_empty" and mentions_call(e["recv"], "functions"):
                return empty
            if k == "Binary" and e["op"] in ("Gt", "Ge", "Lt", "Le") and mentions_call(e["a"], "len") and mentions_call(e["a"], "functions") and isinstance(lit_value(e["b"]), int):
                n = 0 if empty else 1
                c = lit_value(e["b"])
                return {"Gt": n > c, "Ge": n >= c, "Lt": n < c, "Le": n <= c}[e["op"]]
            raise ValueError(ekey(e)[:40])
        try:
            okk = ev(g["hir"]["value"], True) is False and ev(g["hir"]["value"], False) is True
            if okk:
                R.ok("is_part_of_some_function", detail="true exactly when functions() is not empty", where=g["sp"])
            else:
                R.bad("is_part_of_some_function", "CfgNode::is_part_of_some_function does not mean 'the node has an owning function': the lints that ask it (lost callee-saved value) fire outside functions and keep silent inside", g["sp"])
        except ValueError as ex:
            R.bad("is_part_of_some_function|unextractable", f"UNEXTRACTABLE: is_part_of_some_function ({ex})", g["sp"])


def _single_register_mask(F, e, depth=0):
    """is `e` the mask with exactly the bit of one register: `1 << r.to_num()`, or a call of a helper whose body is that for its parameter?"""
    e = peel(e)
    while e.get("k") == "Block" and not e.get("stmts") and e.get("expr") is not None:
        e = peel(e["expr"])
    if e.get("k") == "Binary" and e["op"] == "Shl" and lit_value(e["a"]) == 1 and mentions_call(e["b"], "to_num"):
        return True
    if e.get("k") in ("Call", "MethodCall") and depth < 2:
        g = F.fns.get(callee_of(e) or "")
        if g and "hir" in g and "register_set" in g["path"] and len(g["hir"]["params"]) in (1, 2):
            return _single_register_mask(F, g["hir"]["value"], depth + 1)
    return False


@rule("C01", "C01.q.set-algebra-is-what-its-operators-say", floor=8)
@rule("C02", "C02.n.set-algebra-is-what-its-operators-say", floor=8)
def c02n(F, R):
    """the dataflow equations are written with `&`, `|` and `-` on RegisterSet (and `&=` on the value maps): each operator implementation is evaluated as a bit expression over one bit of each operand and must be the Boolean function its trait names - intersection, union, difference - in the plain and in the assigning form, for a set and for a single register on the right"""
    RS = "riscv_analysis::cfg::register_set::RegisterSet"
    want = {"BitAnd": lambda a, b: a & b, "BitOr": lambda a, b: a | b, "Sub": lambda a, b: a & (1 - b), "BitXor": lambda a, b: a ^ b}
    n = 0
    for i in F.impls:
        if i["self_ty"] != RS:
            continue
        tr = (i.get("trait") or "").split("::")[-1]
        base = tr.replace("Assign", "")
        if base not in want or tr not in (base, base + "Assign"):
            continue
        for it in i["items"]:
            g = F.fns.get(it["path"])
            if not g or "hir" not in g:
                continue
            params = [x.get("name") for x in g["hir"]["params"]]
            rhs = params[1] if len(params) > 1 else None

            class U(Exception):
                pass

            def ev(e, a, b):
                e = peel(e)
                while e.get("k") == "Block" and not e.get("stmts") and e.get("expr") is not None:
                    e = peel(e["expr"])
                k = e.get("k")
                if k == "Field" and e["name"] == "registers":
                    root = ekey(e["e"]).lstrip("&*")
                    if root == "self":
                        return a
                    if root == rhs:
                        return b
                    raise U(ekey(e))
                if k == "Binary" and e["op"] in ("BitAnd", "BitOr", "BitXor"):
                    x, y = ev(e["a"], a, b), ev(e["b"], a, b)
                    return {"BitAnd": x & y, "BitOr": x | y, "BitXor": x ^ y}[e["op"]]
                if k == "Unary" and e["op"] == "Not":
                    return 1 - ev(e["a"], a, b)
                if _single_register_mask(F, e):
                    return b
                if k == "Struct":
                    fs = [x for x in e["fields"] if x["name"] == "registers"]
                    if len(fs) == 1:
                        return ev(fs[0]["e"], a, b)
                if k == "Block" and len(e.get("stmts", [])) == 1 and e.get("expr") is None:
                    st = peel(e["stmts"][0].get("e") or {})
                    return ev(st, a, b)
                if k == "AssignOp" and e["op"] in ("BitAndAssign", "BitOrAssign", "BitXorAssign"):
                    l = ev(e["l"], a, b)
                    r = ev(e["r"], a, b)
                    return {"BitAndAssign": l & r, "BitOrAssign": l | r, "BitXorAssign": l ^ r}[e["op"]]
                if k == "Assign":
                    return ev(e["r"], a, b)
                raise U(ekey(e)[:50])
            n += 1
            rk = "Register" if "<riscv_analysis::parser::register::Register>" in (i.get("trait_ref") or "") else "Set"
            key = f"RegisterSet|{tr}|{rk}"
            try:
                table = [ev(g["hir"]["value"], a, b) for a in (0, 1) for b in (0, 1)]
                exp = [want[base](a, b) for a in (0, 1) for b in (0, 1)]
                if table == exp:
                    R.ok(key, detail=f"{tr}: truth table {table}", where=g["sp"])
                else:
                    R.bad(key, f"`impl {tr} for RegisterSet` computes the Boolean function {table} on (self, rhs) = (0,0),(0,1),(1,0),(1,1); {base} is {exp}: every dataflow equation written with this operator means something else", g["sp"])
            except U as ex:
                R.bad(key + "|unextractable", f"UNEXTRACTABLE: {tr} for RegisterSet ({ex})", g["sp"])
    # single-register updates and the membership test
    inh = inherent_methods(F, RS)
    for mname, expect in (("set_register", lambda a, b: a | b), ("unset_register", lambda a, b: a & (1 - b)), ("contains", lambda a, b: a & b)):
        pth = inh.get(mname)
        if not pth:
            continue
        g = F.fns.get(pth)
        n += 1

        class U2(Exception):
            pass

        def ev2(e, a, b):
            e = peel(e)
            while e.get("k") == "Block" and e.get("expr") is not None and not e.get("stmts"):
                e = peel(e["expr"])
            k = e.get("k")
            if k == "Block" and len(e.get("stmts", [])) == 1 and e.get("expr") is None:
                return ev2(e["stmts"][0].get("e") or {}, a, b)
            if k == "Field" and e["name"] == "registers" and ekey(e["e"]).lstrip("&*") == "self":
                return a
            if _single_register_mask(F, e):
                return b
            if k == "Binary" and e["op"] in ("BitAnd", "BitOr", "BitXor"):
                x, y = ev2(e["a"], a, b), ev2(e["b"], a, b)
                return {"BitAnd": x & y, "BitOr": x | y, "BitXor": x ^ y}[e["op"]]
            if k == "Unary" and e["op"] == "Not":
                return 1 - ev2(e["a"], a, b)
            if k == "AssignOp" and e["op"] in ("BitAndAssign", "BitOrAssign", "BitXorAssign"):
                l, r = ev2(e["l"], a, b), ev2(e["r"], a, b)
                return {"BitAndAssign": l & r, "BitOrAssign": l | r, "BitXorAssign": l ^ r}[e["op"]]
            if k == "Binary" and e["op"] in ("Ne", "Eq") and lit_value(e["b"]) == 0:
                v = ev2(e["a"], a, b)
                return (1 if v != 0 else 0) if e["op"] == "Ne" else (1 if v == 0 else 0)
            raise U2(ekey(e)[:50])
        try:
            table = [ev2(g["hir"]["value"], a, b) for a in (0, 1) for b in (0, 1)]
            exp = [expect(a, b) for a in (0, 1) for b in (0, 1)]
            if table == exp:
                R.ok(f"RegisterSet|{mname}", detail=f"{mname}: truth table {table}", where=g["sp"])
            else:
                R.bad(f"RegisterSet|{mname}", f"RegisterSet::{mname} computes {table} on (bit in set, bit of the register) = (0,0),(0,1),(1,0),(1,1); expected {exp}", g["sp"])
        except U2 as ex:
            R.bad(f"RegisterSet|{mname}|unextractable", f"UNEXTRACTABLE: RegisterSet::{mname} ({ex})", g["sp"])
    # the value map's `&=`: keeps an entry iff the other map has the same key with an equal value
    AVM = "riscv_analysis::cfg::available_value_map::AvailableValueMap"
    for i in F.impls:
        if re.sub(r"<.*", "", i["self_ty"]) != AVM or (i.get("trait") or "").split("::")[-1] != "BitAndAssign":
            continue
        for it in i["items"]:
            g = F.fns.get(it["path"])
            if not g or "hir" not in g:
                continue
            n += 1
            body = g["hir"]["value"]
            ret = [m for m in walk(body, pats=False) if m.get("k") == "MethodCall" and m["name"] == "retain"]
            clos = [F.fns[q]["hir"]["value"] for q in F.fns if q.startswith(it["path"] + "::{closure") and "hir" in F.fns[q]] + [c["body"] for c in walk(body, pats=False) if c.get("k") == "Closure" and c.get("body")]
            okk = False
            for c in clos:
                for b_ in walk(c, pats=False):
                    if b_.get("k") == "Binary" and b_["op"] == "Eq" and mentions_call(b_, "get") and any(short(callee_of(x) or "") == "Some" for x in walk(b_, pats=False) if x.get("k") == "Call"):
                        okk = True
            if ret and okk:
                R.ok("AvailableValueMap|BitAndAssign", detail="retain(|k, v| other.get(k) == Some(v)): intersection of equal facts", where=g["sp"])
            else:
                R.bad("AvailableValueMap|BitAndAssign", "`&=` on the value map is not `retain(|k, v| other.get(k) == Some(v))`: the meet of the value analysis is no longer 'known on every path with the same value'", g["sp"])
    if n == 0:
        raise Anchor("no set-operator impls found")


@rule("C01", "C01.r.nothing-is-claimed-about-the-zero-register", floor=1)
def c01r(F, R):
    """x0 reads as 0 whatever is "written" to it: between the last statement that can put a fact into out[n] and its publication the zero register is removed from the map (`out -= const_zero_set()`), or `addi x0, sp, 0` leaves the claim x0 = sp behind and `lw t0, 0(x0)` is resolved as a stack load"""
    f = _avpass_run(F)
    setters = fact_setters(F)
    set_out = [p for p, fld in setters.items() if fld == "reg_values_out"][0]
    body = f["hir"]["value"]
    pubs = [n for n in walk(body, pats=False) if n.get("k") in ("MethodCall", "Call") and callee_of(n) == set_out]
    pubs = [n for n in pubs if peel(call_recv_args(n)[1][0]).get("k") == "Path" and peel(call_recv_args(n)[1][0]).get("res_kind") == "Local"]
    if not pubs:
        raise Anchor("set_reg_values_out is not called with computed facts")
    OUT = ekey(call_recv_args(pubs[0])[1][0])
    done = False
    for b, i in blocks_with_let(body, OUT):
        stmts = b["stmts"]
        pub = None
        for j in range(i + 1, len(stmts)):
            if any(y is pubs[0] for y in walk(stmts[j], pats=False)):
                pub = j
        if pub is None:
            continue
        done = True
        last_add = i
        removal = None
        for j in range(i + 1, pub):
            st = stmts[j]
            for n in walk(st, pats=False):
                if n.get("k") == "AddrOf" and n.get("mut") and ekey(n["e"]) == OUT:
                    last_add = j
                if n.get("k") == "MethodCall" and n["name"] in ("insert", "extend") and ekey(n["recv"]).lstrip("&*") == OUT:
                    last_add = j
                if n.get("k") == "Assign" and ekey(n["l"]) == OUT:
                    last_add = j
            e = peel(st.get("e") or {})
            if e.get("k") == "AssignOp" and e["op"] == "SubAssign" and ekey(e["l"]) == OUT and mentions_call(e["r"], "const_zero_set"):
                removal = j
        if removal is not None and removal > last_add:
            R.ok("x0-removed-last", detail=f"`{OUT} -= const_zero_set()` after the last statement that can add a fact and before the publication", where=loc(stmts[removal]))
        elif removal is not None:
            R.bad("x0-removed-last", f"x0 is removed from `{OUT}` before a later statement (index {last_add}) can put a fact about it back: the removal has to be the last word", loc(stmts[removal]))
        else:
            R.bad("x0-removed-last", f"`{OUT}` is published without removing the zero register: an instruction whose destination is x0 (`addi x0, sp, 0`, `addi x0, x0, 5`) leaves a claim about x0 behind (x0 = sp, x0 = 5), and a later `lw t0, 0(x0)` is resolved through it", loc(stmts[pub]))
    if not done:
        R.bad("shape", f"UNEXTRACTABLE: `{OUT}` is not built and published in one block", f["sp"])


@rule("C16", "C16.f.every-label-reaches-the-label-map", floor=1)
@rule("C03", "C03.h.every-label-reaches-the-label-map", floor=1)
def c03h(F, R):
    """when the graph is built every label that precedes an instruction is entered into the label -> node map, whichever kind of node the instruction gets (a function entry or a plain node): each place that hands the pending labels to a new node also inserts each of them into the map before the pending set is cleared; a label that misses the map cannot be jumped to, and a jump to it is an "undefined label" although it is defined"""
    cn = [q for q in F.fns if q.endswith("Cfg::new_with_predefined_call_names")]
    if not cn:
        raise Anchor("Cfg::new_with_predefined_call_names not found")
    f = F.fn(cn[0])
    body = f["hir"]["value"]
    clears = [m for m in walk(body, pats=False) if m.get("k") == "MethodCall" and m["name"] == "clear" and "HashSet" in (recv_ty_(m) or "")]
    # `for label in pending.drain() { map.insert(label, node) }` hands over and empties in one go
    drains = []
    for fl in for_loops(body):
        d_ = [m for m in walk(fl["iter"], pats=False) if m.get("k") == "MethodCall" and m["name"] == "drain" and "HashSet" in (recv_ty_(m) or "")]
        if d_:
            drains.append((d_[0], fl))
    for n_, (d_, fl) in enumerate(drains):
        P_ = ekey(d_["recv"]).lstrip("&*")
        if any(m.get("k") == "MethodCall" and m["name"] == "insert" and "HashMap" in (recv_ty_(m) or "") for m in walk(fl["body"], pats=False)):
            R.ok(f"drain#{n_ + 1}", detail=f"every label drained from `{P_}` is inserted into the label map", where=loc(d_))
        else:
            R.bad(f"drain#{n_ + 1}", f"`{P_}.drain()` empties the pending labels without inserting them into the label -> node map", loc(d_))
    if not clears and drains:
        return
    if not clears:
        R.bad("shape", "UNEXTRACTABLE: the pending label set is never cleared in Cfg::new", f["sp"])
        return
    from .p_parse import parent_map
    pm = parent_map(body)
    for n_, c in enumerate(clears):
        P_ = ekey(c["recv"]).lstrip("&*")
        blk = pm.get(id(c))
        while blk is not None and blk.get("k") != "Block":
            blk = pm.get(id(blk))
        stmts = (blk or {}).get("stmts", [])
        idx = next((i for i, st in enumerate(stmts) if any(y is c for y in walk(st, pats=False))), len(stmts))
        okk = False
        for st in stmts[:idx]:
            for fl in for_loops(st):
                if any(x.get("k") == "Path" and x.get("res") == P_ for x in walk(fl["iter"], pats=False)) and \
                        any(m.get("k") == "MethodCall" and m["name"] == "insert" and "HashMap" in (recv_ty_(m) or "") for m in walk(fl["body"], pats=False)):
                    okk = True
        key = f"clear#{n_ + 1}"
        if okk:
            R.ok(key, detail=f"every label of `{P_}` is inserted into the label map before `{P_}.clear()`", where=loc(c))
        else:
            R.bad(key, f"`{P_}.clear()` is reached without inserting the pending labels into the label -> node map in the same block: those labels exist in the source but cannot be resolved", loc(c))


def recv_ty_(m):
    r = m.get("recv") or {}
    return (r.get("aty") or "") + (r.get("ty") or "")


@rule("C01", "C01.s.forgetting-drops-what-reads-a-killed-register", floor=1)
def c01s(F, R):
    """`forget_values_reading(killed)` keeps a fact exactly when its value does not read one of the killed registers: the closure given to `retain` is evaluated for 'the register the value names is killed / is not killed' - an inverted test keeps the stale facts and throws the sound ones away"""
    cands = [q for q in F.fns if q.endswith("::forget_values_reading")]
    if not cands:
        raise Anchor("forget_values_reading not found")
    g = F.fn(cands[0])
    bodies = [g["hir"]["value"]] + [F.fns[x]["hir"]["value"] for x in F.closures_of(cands[0]) if "hir" in F.fns[x]]
    AV = "riscv_analysis::analysis::available::AvailableValue"
    ms = [m for b in bodies for m in find_matches(b) if any(v and v.startswith(AV + "::") for a in m["arms"] for k_, v in pat_variants(a["pat"]) if k_ == "path")]
    if not ms:
        R.bad("shape", "UNEXTRACTABLE: no match over AvailableValue in forget_values_reading", g["sp"])
        return
    m = ms[0]

    def classify(e):
        if e.get("k") == "MethodCall" and e["name"] == "contains":
            return "killed"
        return None
    n = 0
    for a in m["arms"]:
        vs = [short(v) for k_, v in pat_variants(a["pat"]) if k_ == "path" and v and v.startswith(AV + "::")]
        try:
            if vs:
                n += 1
                keep_if_killed = bool_eval(a["body"], classify, {"killed": True})
                keep_if_not = bool_eval(a["body"], classify, {"killed": False})
                if keep_if_killed is False and keep_if_not is True:
                    R.ok("|".join(vs), detail="dropped exactly when the register it names is killed", where=loc(a))
                else:
                    R.bad("|".join(vs), f"a fact whose value is a {'/'.join(vs)} is kept = {keep_if_killed} when the register it names is overwritten and kept = {keep_if_not} when it is not: stale facts survive (`sw a0,0(sp); li a0,9; lw t1,0(sp)` claims t1 = a0) and valid ones are lost", loc(a))
            else:
                other = bool_eval(a["body"], classify, {})
                if other is not True:
                    R.bad("other", "values that read no current register are dropped by forget_values_reading", loc(a))
        except BoolUnx as ex:
            R.bad("unextractable", f"UNEXTRACTABLE: retain predicate of forget_values_reading ({ex})", loc(a))
    if n == 0:
        R.bad("shape", "UNEXTRACTABLE: no arm for values that read a register", loc(m))


@rule("C11", "C11.j.interrupt-handler-names-are-call-names", floor=1)
def c11j(F, R):
    """the labels installed as interrupt vectors (found by the first stage) are added to the set of call targets of the second stage: `call_names` is the instructions' own call names *extended by* the predefined names - else a handler is no function and its code is attributed to nothing"""
    cn = [q for q in F.fns if q.endswith("Cfg::new_with_predefined_call_names")]
    if not cn:
        raise Anchor("Cfg::new_with_predefined_call_names not found")
    f = F.fn(cn[0])
    params = [x.get("name") for x in f["hir"]["params"]]
    pre = params[1] if len(params) > 1 else None
    body = f["hir"]["value"]
    derived = {pre}
    changed = True
    while changed:
        changed = False
        for n in walk(body, pats=False):
            if n.get("k") == "If":
                c = n["cond"]
                while c.get("k") in ("DropTemps", "Use"):
                    c = c["e"]
                if c.get("k") == "LetExpr" and any(x.get("k") == "Path" and x.get("res") in derived for x in walk(c["init"], pats=False)):
                    for b in walk(c["pat"]):
                        if b.get("k") == "PBinding" and b["name"] not in derived:
                            derived.add(b["name"])
                            changed = True
    ext = [m for m in walk(body, pats=False) if m.get("k") == "MethodCall" and m["name"] in ("extend", "union", "insert") and any(x.get("k") == "Path" and x.get("res") in derived for a_ in m["args"] for x in walk(a_, pats=False))]
    lets = [st for st in walk(body, pats=False) if st.get("k") == "Let" and st["pat"].get("k") == "PBinding" and st.get("init") is not None and any(y is e_ for e_ in ext for y in walk(st["init"], pats=False))]
    if ext and lets and any(mentions_call(st["init"], "call_names") for st in lets):
        R.ok("extend", detail=f"`{lets[0]['pat']['name']}` = the program's call names extended by the predefined (interrupt handler) names", where=loc(ext[0]))
    else:
        R.bad("extend", f"the predefined call names (`{pre}`, the interrupt handlers found by the first stage) are not added to the call names from which function entries are made: a label installed in utvec is no function", f["sp"])


@rule("C13", "C13.g.zero-register-operands-fold-as-zero", floor=1)
@rule("C01", "C01.m.zero-register-operands-fold-as-zero", floor=1)
def c01m(F, R):
    """in the folding rule an operand that is the zero register counts as the constant 0 (it is never a key of the known-values map): otherwise `mv rd, rs` (= `add rd, rs, x0`) loses what `addi rd, rs, 0` keeps, and the two spellings of one program get different diagnostics"""
    from .p_parse import parent_map
    rp = [q for q in F.fns if q.endswith("analysis::available::rule_perform_math_ops")]
    if not rp:
        raise Anchor("rule_perform_math_ops not found")
    f = F.fn(rp[0])
    body = f["hir"]["value"]
    pm = parent_map(body)
    gets = [m for m in walk(body, pats=False) if m.get("k") == "MethodCall" and m["name"] == "get" and ekey(m["recv"]).lstrip("&*") == "available_in"]
    if not gets:
        R.bad("operands", "UNEXTRACTABLE: rule_perform_math_ops no longer reads operand values from `available_in`", f["sp"])
        return
    bad = []
    for g in gets:
        guarded = False
        x = g
        while id(x) in pm:
            x = pm[id(x)]
            if x.get("k") == "If":
                c = list(walk(x["cond"], pats=False))
                if any(m.get("k") == "MethodCall" and m["name"] == "is_const_zero" for m in c) or any(m.get("k") == "Path" and (m.get("res") or "").endswith("Register::X0") for m in c):
                    guarded = True
        if not guarded:
            bad.append(g)
    if bad:
        R.bad("operands", f"rule_perform_math_ops takes the value of an operand straight from the known-values map ({len(bad)} place(s)) without treating x0 as the constant 0: `mv s0, sp` forgets that s0 = sp while `addi s0, sp, 0` remembers it, so the same function gets `Unknown stack` / `Overwrite callee-saved register` only in the `mv` spelling", loc(bad[0]))
    else:
        R.ok("operands", detail=f"{len(gets)} operand look-up(s), each behind an x0 test")
